"""C16 — MIDI files written by isobar read back as the same music.
Theorems: coq/Props/C16.v over the model coq/IO/MidiFile.v (writer, reader, note/chord call trace).
Correspondence (every run): (a) writer — note/chord sequences written through PDict.save, through a Timeline with
a MidiFileOutputDevice (timeline.run() and manual ticking, several clock rates and file resolutions) and through the
device driven call by call; every written file is parsed independently with mido and compared with the model's
message list; (b) reader — the same files plus foreign files built with mido (interleaved controllers / pitch-bend /
program changes / meta events with their own delta times, velocity-0 releases, several tracks and resolutions,
overlapping and unterminated notes) read with MidiFileInputDevice.read() and compared with the model's reader.
Oracle (plain Python, from the property text): round trip on the implementation alone; for foreign files the
absolute tick of every note recomputed by summing all delta times."""
from common import *
import re

PROP = "C16"
EXTRA_GENERATORS = ["gen_tables_pat.py"]       # Generated/TablesPat.v: Pattern.LENGTH_MAX of the source under test (size stratum)
META = {
 "engine": "F-pure-functions",
 "text": "Coq theorems (Props/C16.v, closed under the global context) about an executable model of MidiFileOutputDevice, MidiFileInputDevice.read and the note/chord call trace: for ANY message list (any interleaving of note and non-note messages, arbitrary deltas) every note is placed at the sum of all deltas up to and including its own and gets the length up to its release, a note_on with velocity 0 being a release (C16_positions, C16_velocity0_is_release, C16_other_messages_only_shift); decoding the writer's deltas returns the ticks of the calls and the file length is the tick of write() (C16_deltas, C16_trailing_silence); for every sequence of notes, chords and rests with positive durations/lengths/velocities and no two overlapping notes of the same pitch, reading the written file returns the same pitches, velocities, grouping, onsets, lengths, and the same duration and gate for every event but the last (C16_roundtrip, all chords/gates). The model is tied to the repository on every run: files written through PDict.save, Timeline+MidiFileOutputDevice and the bare device are parsed with mido and compared message by message with the model; those files and foreign files built with mido are read with MidiFileInputDevice.read() and compared with the model's reader inside Coq (vm_compute). An independent Python oracle (round trip; absolute ticks by summing all deltas) judges every implementation result and supplies the failing input. Reader objects that outlive the file (IO/ReaderHistory.v): for ALL histories of writes (by isobar or anything else), removals and reads through long-lived reader objects with any quantize values, every read returns the decoding of the LATEST write to its path and earlier reads play no role (C16_history_*), incl. the round trip through a history; checked on every run on histories `write; read; rewrite; read ...` on one reader object per path, each read judged against a reader object created at that moment and against the file as it is on disk. Size (IO/LongPiece.v): every voice of every event, however many, is written as a note_on at its onset tick (C16_all_voices_written), and the endless score long_piece is a legal piece that round-trips at ANY length, in particular beyond Pattern.LENGTH_MAX (C16_long_piece, C16_beyond_length_max); checked on every run with pieces of LENGTH_MAX + 500 / + 37 events (the constant read from the source under test) through PDict.save and through a Timeline with a MidiFileOutputDevice, every event judged, closed forms (counts, checksums, lengths) compared with the model.",
 "note": "Trusted: Coq kernel + VM; mido (bytes of the Standard MIDI File, both directions); the Python harness incl. conversion of observed floats (beats) to ticks (must be within 1e-6 tick of an integer). Modelled not verified: float arithmetic of the device clock (time += 1/tpb; int(round(dt*tpb))) is modelled as exact tick counting — validated by the correspondence incl. long files; the call trace of the scheduler for a note/chord sequence (which tick, which order) is an executable model validated per case against the written file, its general correctness is C01/C02's business; read(quantize=...) is modelled (round-half-even on exact tick arithmetic) and compared in the history stratum only where ties are exact in floats or impossible; only the first track containing a note_on is read (as the code does).",
}

HEADER = """From Isobar Require Import Base.Prelude IO.MidiFile.
Definition tk (n : Z) : list op := repeat OTick (Z.to_nat n).
Definition feq (a b : list tmsg) : bool := list_eqb tmsg_eqb a b.
"""

OTHER_KINDS = ["control_change", "pitchwheel", "program_change", "aftertouch", "polytouch", "set_tempo", "track_name",
               "time_signature", "marker", "end_of_track", "sysex", "text", "key_signature"]


# ---- Coq literals ------------------------------------------------------------------------------------
def msg_lit(m):
    d, k = m[0], m[1]
    if k == "note_on":
        return "(%s, NoteOn %d %d %d)" % (zlit(d), m[2], m[3], m[4])
    if k == "note_off":
        return "(%s, NoteOff %d %d)" % (zlit(d), m[2], m[3])
    return "(%s, Other %d)" % (zlit(d), OTHER_KINDS.index(k) if k in OTHER_KINDS else 99)


def track_lit(tr):
    return lst([msg_lit(m) for m in tr])


def events_lit(events):
    return lst(["mkEvent %s %s" % (lst(["mkVoice %d %d %d" % tuple(v) for v in e["notes"]]), zlit(e["dur"]))
                for e in events])


def ops_lit(ops):
    parts = []
    for o in ops:
        if o[0] == "t":
            parts.append("tk %d" % o[1])
        elif o[0] == "on":
            parts.append("[OOn %d %d %d]" % (o[1], o[2], o[3]))
        else:
            parts.append("[OOff %d %d]" % (o[1], o[2]))
    return "(" + " ++ ".join(parts + ["[]"]) + ")"


def pv_lit(x, f):
    if isinstance(x, list):
        return "Many " + lst([f(y) for y in x])
    return "One " + f(x)


def outcome_lit(c):
    """c: canonical observation (see canon_read)"""
    if c[0] == "raise":
        return {"TypeError": "RUnterminated", "ValueError": "RNoNoteTrack", "ZeroDivisionError": "RZeroDiv"}.get(c[1])
    _, notes, amps, gates, durs = c
    pair = lambda p: "(%s, %s)" % (zlit(p[0]), zlit(p[1]))
    return "(ROk (mkR %s %s %s %s))" % (lst([pv_lit(x, zlit) for x in notes]), lst([pv_lit(x, zlit) for x in amps]),
                                        lst([pv_lit(x, pair) for x in gates]), zlist(durs))


# ---- observed floats -> ticks -------------------------------------------------------------------------
def near_int(x, tol=1e-6):
    if isinstance(x, bool) or not isinstance(x, (int, float)) or x != x or abs(x) > 1e12:
        return None
    n = round(x)
    return n if abs(x - n) <= tol else None


def unt(x):
    """JSON value -> scalar or list (tuple)"""
    return x["t"] if isinstance(x, dict) and "t" in x else x


def canon_read(rd, tpb):
    """-> ("raise", cls) | ("ok", notes, amps, gates[(len,dur)], durs) in ticks | ("bad", why)"""
    if rd is None:
        return ("bad", "no result")
    if "raise" in rd:
        return ("raise", rd["raise"])
    try:
        notes = [unt(x) for x in rd["note"]]
        amps = [unt(x) for x in rd["amplitude"]]
        gates = [unt(x) for x in rd["gate"]]
        durs_f = rd["duration"]
    except (KeyError, TypeError):
        return ("bad", "malformed result")
    if not rd.get("is_psequence", True):
        return ("bad", "read() did not return PSequences")
    if rd.get("keys") is not None and rd["keys"] != ["amplitude", "duration", "gate", "note"]:
        return ("bad", "unexpected keys %r" % (rd["keys"],))
    durs = []
    for x in durs_f:
        if isinstance(x, list):
            return ("bad", "duration is a tuple")
        n = near_int(x * tpb) if isinstance(x, (int, float)) and not isinstance(x, bool) else None
        if n is None:
            return ("bad", "duration %r is not a whole number of ticks" % (x,))
        durs.append(n)
    if not (len(notes) == len(amps) == len(gates)):
        return ("bad", "note/amplitude/gate sequences differ in length")
    if len(durs) == len(notes):
        dd = durs
    elif len(durs) == len(notes) + 1 and durs[-1] == 0:
        dd = durs[:-1]          # the code's own quirk: a final zero-length single note yields a duration only
    else:
        return ("bad", "duration sequence has %d entries for %d events" % (len(durs), len(notes)))
    gl = []
    for n_, a, g, d in zip(notes, amps, gates, dd):
        shape = [isinstance(v, list) for v in (n_, a, g)]
        if len(set(shape)) != 1 or (shape[0] and not (len(n_) == len(a) == len(g))):
            return ("bad", "note/amplitude/gate of one event differ in shape")
        for v in ((n_ + a) if shape[0] else [n_, a]):
            if type(v) is not int:
                return ("bad", "pitch/velocity %r is not an int" % (v,))
        ls = []
        for x in (g if shape[0] else [g]):
            ln = near_int(x * d) if isinstance(x, (int, float)) and not isinstance(x, bool) else None
            if ln is None:
                return ("bad", "gate %r x duration %d ticks is not a whole number of ticks" % (x, d))
            ls.append((ln, d))
        gl.append(ls if shape[0] else ls[0])
    return ("ok", notes, amps, gl, durs)


# ---- independent oracle -------------------------------------------------------------------------------
def as_list(x):
    return list(x) if isinstance(x, list) else [x]


def read_events(c):
    """canonical ok-result -> list of (relative onset, [(pitch, vel, len)], dur); None if misaligned"""
    _, notes, amps, gates, durs = c
    if len(durs) != len(notes):
        return None
    out, t = [], 0
    for n_, a, g, d in zip(notes, amps, gates, durs):
        out.append((t, list(zip(as_list(n_), as_list(a), [x[0] for x in (g if isinstance(g, list) else [g])])), d))
        t += d
    return out


def oracle_events(case, res, c):
    """round trip on the implementation alone.  Returns list of (kind, detail)."""
    bad = []
    evs = case["events"]
    if res.get("write_error"):
        return [("write-raises", res["write_error"])]
    # what was written, in ticks
    written, t = [], 0
    for e in evs:
        if e["notes"]:
            written.append([t, [tuple(v) for v in e["notes"]], e["dur"]])
        t += e["dur"]
    total = t
    last_rel = max([w[0] + v[2] for w in written for v in w[1]] + [0])
    # trailing silence: the file is as long as the music (ticks summed over the track, parsed by mido)
    tpb = res["file"]["tpb"]
    flen = sum(m[0] for m in res["file"]["tracks"][0])
    if flen != max(total, last_rel):
        bad.append(("file-length", "file is %d ticks long, the sequence lasts %d ticks (last release at %d)" % (flen, total, last_rel)))
    if not written:
        if c[0] == "ok" and not c[1] or c[0] == "raise":
            return bad
        return bad + [("roundtrip", "nothing was written but read() returned %r" % (c,))]
    if c[0] != "ok":
        return bad + [("roundtrip", "read() of the written file: %r" % (c[1],))]
    got = read_events(c)
    if got is None or len(got) != len(written):
        return bad + [("roundtrip", "wrote %d sounding events, read %d" % (len(written), len(c[1])))]
    o0 = written[0][0]
    for k, (w, g) in enumerate(zip(written, got)):
        last = k == len(written) - 1
        if [v[0] for v in w[1]] != [v[0] for v in g[1]]:
            bad.append(("roundtrip-pitch", "event %d: wrote pitches %r, read %r" % (k, [v[0] for v in w[1]], [v[0] for v in g[1]])))
        if [v[1] for v in w[1]] != [v[1] for v in g[1]]:
            bad.append(("roundtrip-velocity", "event %d: wrote velocities %r, read %r" % (k, [v[1] for v in w[1]], [v[1] for v in g[1]])))
        if w[0] - o0 != g[0]:
            bad.append(("roundtrip-onset", "event %d: written at tick %d after the first, read at %d" % (k, w[0] - o0, g[0])))
        if [v[2] for v in w[1]] != [v[2] for v in g[1]]:
            bad.append(("roundtrip-length", "event %d: wrote lengths %r ticks, read %r" % (k, [v[2] for v in w[1]], [v[2] for v in g[1]])))
        if not last:
            want = written[k + 1][0] - w[0]     # = its own duration unless rests follow
            if g[2] != want:
                bad.append(("roundtrip-duration", "event %d: duration %d ticks to the next event, read %d" % (k, want, g[2])))
        if bad:
            break
    return bad


def oracle_foreign(res, c):
    """absolute tick positions recomputed by summing ALL deltas of the first track with a note_on."""
    if res.get("write_error"):
        return []
    f = res["file"]
    tpb = f["tpb"]
    tr = next((t for t in f["tracks"] if any(m[1] == "note_on" for m in t)), None)
    if tr is None:
        return [] if c == ("raise", "ValueError") else [("no-note-track", "no track has a note_on but read() gave %r" % (c[:2],))]
    t, ab = 0, []
    for m in tr:
        t += m[0]
        ab.append((t, m))
    ons = [(t, m) for t, m in ab if m[1] == "note_on" and m[4] > 0]
    # length of a note whose next same-pitch message is a release (unambiguous whatever the matching rule)
    simple = True
    lens = []
    for i, (t, m) in enumerate(ab):
        if m[1] == "note_on" and m[4] > 0:
            nxt = next(((t2, m2) for t2, m2 in ab[i + 1:] if m2[1] in ("note_on", "note_off") and m2[3] == m[3]), None)
            if nxt is None or (nxt[1][1] == "note_on" and nxt[1][4] > 0):
                simple = False
                lens.append(None)
            else:
                lens.append(nxt[0] - t)
    if c[0] == "raise":
        if simple and ons and c[1] != "ZeroDivisionError":
            return [("foreign-raises", "every note is released, yet read() raised %s" % c[1])]
        return []
    if c[0] != "ok":
        return [("foreign-result", c[1])]
    times = sorted({t for t, _ in ons})
    groups = [[(m[3], m[4], l) for (t, m), l in zip(ons, lens) if t == tt] for tt in times]
    _, notes, amps, gates, durs = c
    bad = []
    if len(durs) != len(times):
        return [("foreign-count", "%d distinct onsets in the file, %d events read" % (len(times), len(durs)))]
    for k in range(len(times) - 1):
        if durs[k] != times[k + 1] - times[k]:
            return [("foreign-onset", "event %d starts at tick %d and the next at %d (sum of all deltas); read() puts them %d ticks apart"
                     % (k, times[k], times[k + 1], durs[k]))]
    if len(notes) == len(times):
        for k, (grp, n_, a, g) in enumerate(zip(groups, notes, amps, gates)):
            if [x[0] for x in grp] != as_list(n_) or [x[1] for x in grp] != as_list(a):
                return [("foreign-notes", "event %d at tick %d: file has (pitch, velocity) %r, read %r / %r" % (k, times[k], [x[:2] for x in grp], n_, a))]
            gl = g if isinstance(g, list) else [g]
            for x, y in zip(grp, gl):
                if x[2] is not None and x[2] != y[0]:
                    return [("foreign-length", "event %d pitch %d: released %d ticks after its onset (note_off or note_on velocity 0), read length %d" % (k, x[0], x[2], y[0]))]
    return bad


# ---- generators ---------------------------------------------------------------------------------------
DURS = [1, 2, 3, 5, 7, 30, 60, 120, 160, 240, 240, 360, 480, 480, 720, 960, 1440]


def gen_events(rng, stratum, unit, max_events=14):
    """list of events in ticks (multiples of `unit`), no two overlapping notes of the same pitch"""
    n = {"single": 1, "long": rng.randint(25, 60)}.get(stratum, rng.randint(2, max_events))
    evs, t, sounding = [], 0, {}
    fixed_pitch = rng.randint(1, 127)
    for i in range(n):
        d = rng.choice(DURS) * unit if stratum != "long" else rng.choice([1, 2, 3, 30, 60, 120]) * unit
        rest_p = {"rests": 0.35, "leading_rest": 0.15, "trailing_rest": 0.1, "mixed": 0.15}.get(stratum, 0.0)
        if (stratum == "leading_rest" and i == 0) or (stratum == "trailing_rest" and i >= n - rng.randint(1, 2) and i > 0) \
                or (rng.random() < rest_p and n > 1):
            evs.append({"notes": [], "dur": d}); t += d
            continue
        if stratum in ("chords", "chords_scalar", "mixed", "long") and rng.random() < (0.7 if stratum.startswith("chords") else 0.35):
            nv = rng.randint(2, 5)
        else:
            nv = 1
        voices = []
        same = stratum == "chords_scalar"
        common = None
        for j in range(nv):
            if stratum == "repeat_pitch":
                ln = d if rng.random() < 0.7 else max(unit, (d // unit) // 2 * unit)
                p = fixed_pitch
            else:
                mode = rng.random()
                if stratum == "mono_gate_le1":
                    ln = rng.choice([d, max(unit, d // unit // 2 * unit), unit, rng.randint(1, d // unit) * unit])
                elif stratum == "gate_gt1" or mode < 0.25:
                    ln = d + rng.randint(1, 3 * (d // unit) + 2) * unit
                elif mode < 0.55:
                    ln = d
                else:
                    ln = rng.randint(1, max(1, d // unit)) * unit
                p = None
            if same:
                common = common or (ln, rng.randint(1, 127))
                ln = common[0]
            free = [q for q in range(1, 128) if sounding.get(q, 0) <= t and q not in [v[0] for v in voices]]
            if p is None or p not in free:
                p = rng.choice(free[:3] + free[-3:] + free) if rng.random() < 0.2 else rng.choice(free)
            vel = common[1] if same else rng.choice([1, 127, rng.randint(1, 127), rng.randint(1, 127)])
            voices.append([p, vel, ln])
        for v in voices:
            sounding[v[0]] = t + v[2]
        shape = "scalar" if same else ("tuple1" if (nv == 1 and stratum == "mixed" and rng.random() < 0.15) else "tuple")
        evs.append({"notes": voices, "dur": d, "shape": shape})
        t += d
    return evs


EVENT_STRATA = ["mono_gate_le1", "gate_gt1", "chords", "chords_scalar", "rests", "leading_rest", "trailing_rest",
                "repeat_pitch", "mixed", "mixed", "single", "long"]
ROUTES = [("save", 480, None), ("save", 480, None), ("timeline", 480, None), ("timeline", 240, None), ("timeline", 120, None),
          ("timeline", 96, None), ("timeline", 960, None), ("manual", 480, None), ("manual", 96, 96), ("manual", 120, 120),
          ("timeline", 384, 384), ("manual", 960, 960), ("timeline", 24, 24), ("manual", 1000, 1000)]


def gen_event_case(rng, i):
    stratum = EVENT_STRATA[(i // len(ROUTES) + i) % len(EVENT_STRATA)]
    via, clock, ftpb = ROUTES[i % len(ROUTES)]
    file_tpb = ftpb or 480
    unit = max(1, file_tpb // clock)
    evs = gen_events(rng, stratum, unit, max_events=14 if stratum != "long" else 60)
    return {"kind": "events", "via": via, "clock_tpb": clock, "file_tpb": ftpb, "events": evs, "stratum": stratum,
            "also_load": via == "save"}


def gen_device_case(rng, i):
    """the device driven call by call: arbitrary notes/velocities/channels, overlaps, unreleased notes"""
    ops = []
    n = rng.randint(0, 24)
    pool = [rng.randint(0, 127) for _ in range(rng.randint(1, 4))]
    big = i % 9 == 0
    for _ in range(n):
        r = rng.random()
        if r < 0.45:
            ops.append(["t", rng.choice([1, 1, 2, 3, 10, 120, 480, 479, 481]) if not big else rng.randint(1000, 40000)])
        elif r < 0.75:
            ops.append(["on", rng.choice(pool), rng.choice([0, 1, 64, 127, rng.randint(0, 127)]) if rng.random() < 0.3 else rng.randint(1, 127), rng.choice([0, 0, 0, rng.randint(0, 15)])])
        else:
            ops.append(["off", rng.choice(pool), rng.choice([0, 0, rng.randint(0, 15)])])
    if rng.random() < 0.6:
        ops.append(["t", rng.randint(1, 2000)])
    return {"kind": "device", "ops": ops, "file_tpb": rng.choice([None, None, 96, 24, 960]), "stratum": "device.big" if big else "device"}


INF = 10 ** 15
TPBS = [24, 48, 96, 120, 192, 384, 480, 480, 960, 1000, 15360, 7]


def rand_other(rng, d):
    k = rng.choice(["control_change", "control_change", "pitchwheel", "program_change", "aftertouch", "polytouch",
                    "set_tempo", "track_name", "time_signature", "marker"])
    ch = rng.randint(0, 15)
    if k == "control_change":
        return [d, k, ch, rng.randint(0, 127), rng.randint(0, 127)]
    if k == "pitchwheel":
        return [d, k, ch, rng.randint(-8192, 8191)]
    if k == "program_change":
        return [d, k, ch, rng.randint(0, 127)]
    if k == "aftertouch":
        return [d, k, ch, rng.randint(0, 127)]
    if k == "polytouch":
        return [d, k, ch, rng.randint(0, 127), rng.randint(0, 127)]
    if k == "set_tempo":
        return [d, k, rng.randint(200000, 1000000)]
    if k == "time_signature":
        return [d, k, rng.randint(1, 12)]
    return [d, k, "m%d" % rng.randint(0, 99)]


def gen_foreign_case(rng, i, tpbs=None):
    strata = ["interleaved", "interleaved", "vel0", "interleaved_vel0", "chords", "multitrack", "overlap", "raw", "raw_small",
              "no_notes", "unterminated", "zero_length", "notes_only", "big_deltas", "other_between_only"]
    stratum = strata[i % len(strata)]
    tpb = rng.choice(tpbs or TPBS)
    unit = rng.choice([1, 1, tpb // 4 or 1, tpb // 2 or 1, tpb])
    if stratum in ("raw", "raw_small"):
        pool = [rng.randint(0, 127) for _ in range(rng.randint(1, 3))]
        tr = []
        for _ in range(rng.randint(1, 8 if stratum == "raw_small" else 40)):
            d = rng.choice([0, 0, 1, unit, rng.randint(0, 3 * tpb)])
            r = rng.random()
            if r < 0.4:
                tr.append([d, "note_on", rng.randint(0, 15), rng.choice(pool), rng.choice([0, 0, 1, 127, rng.randint(1, 127)])])
            elif r < 0.7:
                tr.append([d, "note_off", rng.randint(0, 15), rng.choice(pool), rng.randint(0, 127)])
            else:
                tr.append(rand_other(rng, d))
        return {"kind": "foreign", "tpb": tpb, "type": rng.choice([0, 1]), "tracks": [tr], "stratum": "foreign." + stratum}
    if stratum == "no_notes":
        tr = [rand_other(rng, rng.randint(0, 500)) for _ in range(rng.randint(0, 5))]
        if rng.random() < 0.5:
            tr.append([rng.randint(0, 9), "note_off", 0, 60, 0])
        return {"kind": "foreign", "tpb": tpb, "type": 1, "tracks": [tr], "stratum": "foreign.no_notes"}
    # a score: notes with onset / length in ticks, then merged with non-note messages carrying their own deltas
    n = rng.randint(1, 12)
    timed, t, sounding = [], rng.choice([0, 0, unit, rng.randint(0, 2 * tpb)]), {}
    for k in range(n):
        nv = rng.randint(2, 4) if (stratum == "chords" or rng.random() < 0.2) else 1
        for j in range(nv):
            if stratum == "overlap":
                p = rng.choice([60, 60, 61])
            else:
                free = [q for q in range(0, 128) if sounding.get(q, -1) <= t]
                p = rng.choice(free)
            ln = rng.choice([unit, 2 * unit, rng.randint(1, 4 * tpb)])
            if stratum == "zero_length" and rng.random() < 0.5:
                ln = 0
            ch = rng.randint(0, 15)
            vel0 = stratum in ("vel0", "interleaved_vel0") or (stratum != "notes_only" and rng.random() < 0.3)
            timed.append((t, 1, [0, "note_on", ch, p, rng.randint(1, 127)]))
            if stratum == "unterminated" and rng.random() < 0.3:
                sounding[p] = INF                      # never released: the pitch is not used again
                continue
            rel = [0, "note_on", ch, p, 0] if (vel0 and rng.random() < 0.8) else [0, "note_off", ch, p, rng.randint(0, 127)]
            timed.append((t + ln, 0 if ln > 0 else 2, rel))
            if stratum != "overlap":
                sounding[p] = t + max(ln, 1)           # a zero-length note keeps its pitch busy for this tick
        t += rng.choice([unit, 2 * unit, rng.randint(1, 3 * tpb)]) if stratum != "big_deltas" else rng.randint(10 ** 4, 10 ** 6)
    end = max(x[0] for x in timed) + 1
    if stratum not in ("notes_only",):
        for _ in range(rng.randint(1, 10) if stratum != "chords" else rng.randint(0, 3)):
            timed.append((rng.randint(0, end + tpb), rng.choice([0, 1, 2]), rand_other(rng, 0)))
    # stable order: time, then releases(0) < onsets(1) < zero-length releases(2); python's sort is stable
    timed.sort(key=lambda x: (x[0], x[1] if x[2][1] in ("note_on", "note_off") else rng.choice([0, 1, 2])))
    # keep each zero-length note's release after its own onset
    tr, last = [], 0
    for tt, _, m in timed:
        m = list(m); m[0] = tt - last; last = tt
        tr.append(m)
    if rng.random() < 0.3:
        tr.append([rng.randint(0, tpb), "end_of_track"])
    tracks = [tr]
    typ = rng.choice([0, 1])
    if stratum == "multitrack":
        typ = 1
        first = [[0, "set_tempo", 500000], [0, "time_signature", 4]] + [rand_other(rng, rng.randint(0, 900)) for _ in range(rng.randint(0, 3))]
        second = [[rng.randint(0, 100), "note_on", 0, rng.randint(0, 127), rng.choice([0, 64])], [rng.randint(1, 100), "note_off", 0, 1, 0]]
        tracks = [first, tr, second] if rng.random() < 0.7 else [first, tr]
    return {"kind": "foreign", "tpb": tpb, "type": typ, "tracks": tracks, "stratum": "foreign." + stratum}


# ---- replay snippets ----------------------------------------------------------------------------------
def snippet(case):
    if case["kind"] == "foreign":
        return ("import mido; from isobar.io.midifile import MidiFileInputDevice\n"
                "def M(m):\n"
                "    d, k = m[0], m[1]\n"
                "    if k in ('set_tempo',): return mido.MetaMessage(k, tempo=m[2], time=d)\n"
                "    if k in ('track_name',): return mido.MetaMessage(k, name=m[2], time=d)\n"
                "    if k in ('marker',): return mido.MetaMessage(k, text=m[2], time=d)\n"
                "    if k in ('time_signature',): return mido.MetaMessage(k, numerator=m[2], time=d)\n"
                "    if k == 'end_of_track': return mido.MetaMessage(k, time=d)\n"
                "    names = {'note_on': ('channel','note','velocity'), 'note_off': ('channel','note','velocity'), 'control_change': ('channel','control','value'),\n"
                "             'pitchwheel': ('channel','pitch'), 'program_change': ('channel','program'), 'aftertouch': ('channel','value'), 'polytouch': ('channel','note','value')}[k]\n"
                "    return mido.Message(k, time=d, **dict(zip(names, m[2:])))\n"
                "mf = mido.MidiFile(ticks_per_beat=%d, type=%d)\n"
                "for tr in %r:\n"
                "    t = mido.MidiTrack(); t.extend(M(m) for m in tr); mf.tracks.append(t)\n"
                "mf.save('c16_replay.mid')\n"
                "d = MidiFileInputDevice('c16_replay.mid').read()\n"
                "print({k: list(v.sequence) for k, v in d.items()})   # durations/onsets in beats = ticks / %d\n"
                % (case["tpb"], case.get("type", 1), case["tracks"], case["tpb"]))
    if case["kind"] == "device":
        return ("from isobar.io.midifile import MidiFileOutputDevice, MidiFileInputDevice; import mido\n"
                "dev = MidiFileOutputDevice('c16_replay.mid')\n%s"
                "for o in %r:\n"
                "    if o[0] == 't':\n        for _ in range(o[1]): dev.tick()\n"
                "    elif o[0] == 'on': dev.note_on(o[1], o[2], o[3])\n"
                "    else: dev.note_off(o[1], o[2])\n"
                "dev.write()\nprint([m for m in mido.MidiFile('c16_replay.mid').tracks[0]])\n"
                % ("dev.midifile.ticks_per_beat = %d\n" % case["file_tpb"] if case.get("file_tpb") else "", case["ops"]))
    tpb = case.get("file_tpb") or 480
    notes, durs, gates, amps = [], [], [], []
    for e in case["events"]:
        d = e["dur"]
        durs.append("%d/%d" % (d, tpb))
        vs = e["notes"]
        if not vs:
            notes.append("None"); amps.append("64"); gates.append("1.0")
        elif len(vs) == 1 and e.get("shape") != "tuple1":
            notes.append(str(vs[0][0])); amps.append(str(vs[0][1])); gates.append("%d/%d" % (vs[0][2], d))
        else:
            notes.append("(" + ", ".join(str(v[0]) for v in vs) + ",)")
            amps.append("(" + ", ".join(str(v[1]) for v in vs) + ",)")
            gates.append("(" + ", ".join("%d/%d" % (v[2], d) for v in vs) + ",)")
    ev = ("ev = {iso.EVENT_NOTE: iso.PSequence([%s], 1), iso.EVENT_DURATION: iso.PSequence([%s], 1),\n"
          "      iso.EVENT_GATE: iso.PSequence([%s], 1), iso.EVENT_AMPLITUDE: iso.PSequence([%s], 1)}\n"
          % (", ".join(notes), ", ".join(durs), ", ".join(gates), ", ".join(amps)))
    head = "import isobar as iso, mido\nfrom isobar.io.midifile import MidiFileOutputDevice, MidiFileInputDevice\n" + ev
    if case["via"] == "save":
        body = "iso.PDict(ev).save('c16_replay.mid')\n"
    else:
        body = ("dev = MidiFileOutputDevice('c16_replay.mid')\n%s"
                "tl = iso.Timeline(120, output_device=dev, clock_source=iso.DummyClock(ticks_per_beat=%d)); tl.stop_when_done = True\n"
                "tl.schedule(ev); tl.run(); dev.write()\n"
                % ("dev.midifile.ticks_per_beat = %d\n" % case["file_tpb"] if case.get("file_tpb") else "", case["clock_tpb"]))
    return head + body + ("print([m for m in mido.MidiFile('c16_replay.mid').tracks[0]])\n"
                          "print({k: list(v.sequence) for k, v in MidiFileInputDevice('c16_replay.mid').read().items()})\n")


# ---- SIZE: pieces longer than any internal limit of the library ------------------------------------------------
# The dimension: a piece of more than Pattern.LENGTH_MAX events (the constant is read from Generated/TablesPat.v, which the
# build step regenerates from the source under test) written through PDict.save AND through a Timeline with a
# MidiFileOutputDevice, parsed with mido and read back with read().  The oracle judges every event (oracle_events); the
# model side is the closed form of IO/LongPiece.v (number, position and content of all note_ons as a rolling checksum, file
# length, number / durations / pitches / lengths of the events read back), theorems C16_long_piece, C16_all_voices_written.
HEADER_LONG = """From Isobar Require Import Base.Prelude IO.MidiFile IO.LongPiece Generated.TablesPat.
"""
CK = 1000000007


def length_max():
    txt = open(os.path.join(COQDIR, "Generated", "TablesPat.v")).read()
    m = re.search(r"Definition LENGTH_MAX : Z := (\d+)\.", txt)
    if not m:
        raise CheckError("Generated/TablesPat.v carries no LENGTH_MAX")
    return int(m.group(1))


def long_events(n, start=0):
    """the endless score of IO/LongPiece.v (long_event j), events start .. start+n-1, in file ticks"""
    evs = []
    for j in range(start, start + n):
        d = 2 + j % 3
        if j % 7 == 3:
            evs.append({"notes": [[40 + j % 50, 1 + j % 127, 1 + j % d], [95 + j % 30, 1 + (5 * j) % 127, d]], "dur": d, "shape": "tuple"})
        else:
            evs.append({"notes": [[1 + (11 * j) % 127, 1 + (13 * j) % 127, 1 + j % d]], "dur": d, "shape": "tuple"})
    return evs


def gen_long_case(n, via, clock_tpb, file_tpb):
    return {"kind": "events", "via": via, "clock_tpb": clock_tpb, "file_tpb": file_tpb, "events": long_events(n), "stratum": "beyond_length_max",
            "also_load": False, "long": n}


def roll(acc, x):
    return (acc * 31 + x) % CK


def long_summary(file, c):
    """the observed closed forms: see IO/LongPiece.v piece_summary"""
    t, ons = 0, []
    for m in file["tracks"][0]:
        t += m[0]
        if m[1] == "note_on" and m[4] > 0:
            ons.append((m[3], m[4], t))
    ck = 0
    for p, v, tk in ons:
        ck = roll(ck, p + 131 * v + 16411 * tk)
    out = [len(ons), ck, t]
    if c[0] != "ok":
        return None
    _, notes, amps, gates, durs = c
    ckp = ckl = 0
    for n_ in notes:
        for x in as_list(n_):
            ckp = roll(ckp, x)
    for g in gates:
        for x in (g if isinstance(g, list) else [g]):
            ckl = roll(ckl, x[0])
    return out + [len(durs), sum(durs), ckp, ckl, 1]


def long_doc(case):
    """what goes into replays and samples instead of the 70 000 events"""
    return {"kind": "events", "long": case["long"], "via": case["via"], "clock_tpb": case["clock_tpb"], "file_tpb": case.get("file_tpb"),
            "stratum": "beyond_length_max", "events": "harness/c16.py long_events(%d): event j lasts 2 + j %% 3 ticks; j %% 7 == 3: chord (40 + j %% 50, 95 + j %% 30), "
                                         "else note 1 + 11 j %% 127; velocities 1 + j %% 127 / 1 + 5 j %% 127 / 1 + 13 j %% 127; lengths 1 + j %% duration (second chord note: the duration)" % case["long"]}


def long_snippet(case):
    tpb = case.get("file_tpb") or 480
    head = ("import isobar as iso, mido\nfrom isobar.io.midifile import MidiFileOutputDevice, MidiFileInputDevice\n"
            "N, TPB = %d, %d\nnotes, amps, gates, durs = [], [], [], []\n"
            "for j in range(N):\n    d = 2 + j %% 3\n"
            "    if j %% 7 == 3: notes.append((40 + j %% 50, 95 + j %% 30)); amps.append((1 + j %% 127, 1 + (5 * j) %% 127)); gates.append(((1 + j %% d) / d, 1.0))\n"
            "    else: notes.append((1 + (11 * j) %% 127,)); amps.append((1 + (13 * j) %% 127,)); gates.append(((1 + j %% d) / d,))\n"
            "    durs.append(d / TPB)\n"
            "ev = {iso.EVENT_NOTE: iso.PSequence(notes, 1), iso.EVENT_DURATION: iso.PSequence(durs, 1), iso.EVENT_GATE: iso.PSequence(gates, 1), iso.EVENT_AMPLITUDE: iso.PSequence(amps, 1)}\n"
            % (case["long"], tpb))
    if case["via"] == "save":
        body = "iso.PDict(ev).save('c16_long.mid')\n"
    else:
        body = ("dev = MidiFileOutputDevice('c16_long.mid')\n%s"
                "tl = iso.Timeline(120, output_device=dev, clock_source=iso.DummyClock(ticks_per_beat=%d)); tl.stop_when_done = True\n"
                "tl.schedule(ev); tl.run(); dev.write()\n" % ("dev.midifile.ticks_per_beat = %d\n" % case["file_tpb"] if case.get("file_tpb") else "", case["clock_tpb"]))
    return head + body + ("tr = mido.MidiFile('c16_long.mid').tracks[0]\n"
                          "print(sum(1 for m in tr if m.type == 'note_on' and m.velocity > 0), 'note_ons in the file,', sum(m.time for m in tr), 'ticks long; written:', sum(len(x) for x in notes), 'notes,', sum(2 + j % 3 for j in range(N)), 'ticks')\n"
                          "print(len(list(MidiFileInputDevice('c16_long.mid').read()[iso.EVENT_DURATION].sequence)), 'events read back of', N)\n")


# ---- histories: reader objects that outlive the file ---------------------------------------------------
# The dimension: ONE MidiFileInputDevice object per path, created once, used for several reads (several quantize values)
# while the file at its path is rewritten by isobar or by anything else, or removed.  Model: IO/ReaderHistory.v
# (C16_history_*): every read returns the decoding of the file as it is at the time of the read.
HEADER_HIST = """From Isobar Require Import Base.Prelude IO.MidiFile IO.ReaderHistory.
Definition tk (n : Z) : list op := repeat OTick (Z.to_nat n).
"""
DYADIC = [16, 64, 256, 1024]
HISTORY_STRATA = ["rewrite", "rewrite", "quantize-values", "two-paths", "remove", "save-then-foreign", "foreign-then-save",
                  "read-before-write", "many-rewrites"]


def is_dyadic(n):
    return n > 0 and n & (n - 1) == 0


def gen_content(rng, j, want=None, dyadic=False):
    """a write step payload: ("foreign"|"events"|"device", subcase)"""
    kind = want or rng.choice(["foreign", "foreign", "events", "device"])
    if kind == "foreign":
        k = rng.choice([0, 1, 2, 3, 4, 5, 6, 10, 11, 12, 13, 14]) if rng.random() < 0.85 else rng.choice([7, 8, 9])
        c = gen_foreign_case(rng, k, tpbs=DYADIC if dyadic else None)
        return "foreign", c
    if kind == "events":
        c = gen_event_case(rng, j)
        c["also_load"] = False
        return "events", c
    return "device", gen_device_case(rng, j + 1)


def pick_quantize(rng, tpb, p_none=0.5):
    """quantize in ticks of the file now at the path (None = no quantisation).  Ties of round() are reachable only where
    they are exact in floats: any grid on a power-of-two resolution; otherwise odd grids (2x = (2k+1)q has no solution)."""
    if tpb is None or rng.random() < p_none:
        return None
    if is_dyadic(tpb):
        return rng.choice([1, 2, 3, 5, 6, 12, max(1, tpb // 8), tpb // 4, tpb // 2, tpb, 2 * tpb])
    return rng.choice([1, 3, 5, 15, 45, 75, 121, 241, 479, 481, tpb + 1 if tpb % 2 == 0 else tpb])


def gen_history_case(rng, i):
    stratum = HISTORY_STRATA[i % len(HISTORY_STRATA)]
    dyadic = rng.random() < 0.5
    npaths = 2 if stratum == "two-paths" else 1
    steps, tpb_at = [], {}

    def write(p, want=None):
        kind, c = gen_content(rng, i + len(steps), want, dyadic)
        steps.append([kind, p, c])
        tpb_at[p] = c["tpb"] if kind == "foreign" else (c.get("file_tpb") or 480)

    def read(p, p_none=0.5):
        steps.append(["read", p, pick_quantize(rng, tpb_at.get(p), p_none)])

    if stratum == "rewrite":
        write(0); read(0); write(0); read(0)
        if rng.random() < 0.5:
            write(0); read(0)
    elif stratum == "quantize-values":
        write(0, "foreign"); read(0, 0.1); read(0, 0.1); read(0, 1.0); write(0); read(0, 0.2); read(0, 0.2); read(0, 1.0)
    elif stratum == "two-paths":
        write(0); write(1); read(0); read(1); write(0); read(1); read(0); write(1); read(0); read(1)
    elif stratum == "remove":
        write(0); read(0); steps.append(["remove", 0]); tpb_at.pop(0); read(0); write(0); read(0)
    elif stratum == "save-then-foreign":
        write(0, "events"); read(0); write(0, "foreign"); read(0); read(0)
    elif stratum == "foreign-then-save":
        write(0, "foreign"); read(0); write(0, "events"); read(0, 0.8); read(0)
    elif stratum == "read-before-write":
        read(0); write(0); read(0); write(0); read(0)
    else:
        for _ in range(rng.randint(3, 6)):
            write(0)
            for _ in range(rng.randint(0, 2)):
                read(0)
        read(0)
    return {"kind": "history", "paths": npaths, "steps": steps, "stratum": "history." + stratum}


def quant_beats(q, tpb):
    return None if q is None else float(Fraction(q, tpb))


def history_payload(case, files_tpb):
    """the driver's view: quantize in beats of the resolution of the file now at the path"""
    steps = []
    tpb_at = {}
    for st in case["steps"]:
        if st[0] == "read":
            steps.append(["read", st[1], quant_beats(st[2], tpb_at.get(st[1]) or 480)])
        elif st[0] == "remove":
            tpb_at.pop(st[1], None)
            steps.append(st)
        else:
            c = st[2]
            tpb_at[st[1]] = c["tpb"] if st[0] == "foreign" else (c.get("file_tpb") or 480)
            steps.append([st[0], st[1], {k: v for k, v in c.items() if not k.startswith("_")}])
    return {"kind": "history", "paths": case["paths"], "steps": steps}


def history_snippet(case):
    lines = ["import os, mido, isobar as iso", "from isobar.io.midifile import MidiFileOutputDevice, MidiFileInputDevice",
             "paths = ['c16_hist_%%d.mid' %% k for k in range(%d)]" % case["paths"],
             "readers = [MidiFileInputDevice(p) for p in paths]          # ONE reader object per path, for the whole history",
             "def show(p, q):",
             "    try: print('read', p, q, {k: list(v.sequence) for k, v in (readers[p].read() if q is None else readers[p].read(quantize=q)).items()})",
             "    except Exception as e: print('read', p, q, 'raises', type(e).__name__)"]
    tpb_at = {}
    for st in case["steps"]:
        if st[0] == "read":
            lines.append("show(%d, %r)" % (st[1], quant_beats(st[2], tpb_at.get(st[1]) or 480)))
        elif st[0] == "remove":
            tpb_at.pop(st[1], None)
            lines.append("os.unlink(paths[%d])" % st[1])
        else:
            c = st[2]
            tpb_at[st[1]] = c["tpb"] if st[0] == "foreign" else (c.get("file_tpb") or 480)
            sub = snippet(c).replace("'c16_replay.mid'", "paths[%d]" % st[1])
            sub = "\n".join(l for l in sub.split("\n") if not l.startswith("print(") and not l.startswith("d = MidiFileInputDevice")
                            and not l.startswith("import ") and not l.startswith("from isobar"))
            lines.append("# --- %s file written to paths[%d]" % (st[0], st[1]))
            lines.append(sub)
    return "\n".join(lines)


def shrink_history(run, cut, kind, detail):
    """smaller histories that still fail: only the steps of the path of the failing read; then only its last two writes"""
    p = cut["steps"][-1][1]
    own = [[st[0], 0] + st[2:] for st in cut["steps"] if st[1] == p]
    cands = [dict(cut, paths=1, steps=own)]
    writes = [i for i, st in enumerate(own) if st[0] not in ("read", "remove")]
    if len(writes) > 2:
        cands.append(dict(cut, paths=1, steps=own[writes[-2]:]))
    best = (cut, detail)
    for cand in cands:
        if len(cand["steps"]) >= len(best[0]["steps"]) and cand["paths"] >= best[0]["paths"]:
            continue
        try:
            got = judge_history(run, [cand], report=False, probe=True)
        except Exception:
            continue
        if got and got[0][1] == kind:
            best = (dict(cand, steps=cand["steps"][:got[0][0] + 1]), got[0][2])
    return best


def judge_history(run, cases, report=True, probe=False):
    shards = [cases[i::12] for i in range(12) if cases[i::12]]
    d = os.path.join(run.work, "midi")
    outs = run.impl_parallel("c16_impl", [{"dir": d, "cases": [history_payload(c, None) for c in sh]} for sh in shards])
    terms, meta, failures = [], [], 0
    for sh, out in zip(shards, outs):
        for case, r in zip(sh, out["cases"]):
            if not probe:
                run.count(1)
                run.dist(case["stratum"])
            text = json.dumps(case, sort_keys=True)
            if not probe:
                run.nontrivial(text)
            if "error" in r or len(r.get("steps", [])) != len(case["steps"]):
                failures += 1
                if report:
                    run.violation({"kind": "history-raises", "site": "history"}, {"case": case, "observed": r.get("error"), "python": history_snippet(case)})
                continue
            ops, exps, bad, skip = [], [], [], False
            current = {}           # path -> (write kind, subcase, parsed file)
            nread = {}
            for j, (st, o) in enumerate(zip(case["steps"], r["steps"])):
                kind, p = st[0], st[1]
                if kind == "remove":
                    current.pop(p, None)
                    ops.append("HRemove %d" % p)
                    continue
                if kind != "read":
                    if o.get("write_error"):
                        skip = True
                        if kind == "foreign":
                            run.discard("mido rejected the generated foreign file")
                        else:
                            bad.append((j, "write-raises", o["write_error"]))
                        break
                    current[p] = (kind, st[2], o["file"])
                    es_ok = kind == "events" and (st[2].get("file_tpb") or 480) == o["file"]["tpb"] and len(o["file"]["tracks"]) == 1
                    ops.append("HSave %d %s" % (p, events_lit(st[2]["events"])) if es_ok
                               else "HWrite %d %s" % (p, lst([track_lit(t) for t in o["file"]["tracks"]])))
                    continue
                # a read through the long-lived reader object of path p
                q = st[2]
                nread[p] = nread.get(p, 0) + 1
                if not probe:
                    run.dist("history.read.%s" % ("quantize" if q else "plain"))
                    run.dist("history.read.%s" % ("first of its reader" if nread[p] == 1 else "reader used before"))
                ops.append("HRead %d %s" % (p, zlit(q or 0)))
                run.cov["oracle_evaluations"] += 1
                if p not in current:
                    c = canon_read(o["read"], 480)
                    exps.append("None" if c == ("raise", "FileNotFoundError") else None)     # another exception class: the model disagrees
                    if c[0] != "raise":
                        bad.append((j, "history-stale-read", "step %d: there is no file at the path, yet the reader object returned %r" % (j, o["read"])))
                    continue
                wkind, sub, parsed = current[p]
                if o["file"] != parsed:
                    bad.append((j, "history-harness", "the file on disk changed without a write step"))
                    break
                tpb = parsed["tpb"]
                c = canon_read(o["read"], tpb)
                cf = canon_read(o["fresh"], tpb)
                # oracle 1 (any quantize): the object's history must not matter — a reader object created now agrees
                if c != cf:
                    bad.append((j, "history-stale-read", "step %d: the reader object created at the start returns %r; a reader object created "
                                "now for the same file returns %r" % (j, c, cf)))
                    continue
                # oracle 2 (no quantize): the music of the file as it is on disk now
                if not q:
                    res = {"file": parsed, "write_error": None}
                    b = oracle_events({"events": sub["events"]}, res, c) if wkind == "events" else oracle_foreign(res, c)
                    if b:
                        bad.append((j, "history-" + b[0][0], "step %d: %s" % (j, b[0][1])))
                        continue
                ol = outcome_lit(c) if c[0] in ("ok", "raise") else None
                exps.append("(Some %s)" % ol if ol else None)
            if skip and not bad:
                continue
            if bad and probe:
                return [bad[0]]
            if bad:
                failures += 1
                if report:
                    j, k0, detail = bad[0]
                    cut = dict(case, steps=case["steps"][:j + 1])
                    cut, detail = shrink_history(run, cut, k0, detail)
                    run.violation({"kind": k0, "site": "history"}, {
                        "case": cut, "observed": detail, "step": j,
                        "oracle": "each read returns the music of the file as it is on disk at the time of the read (absolute ticks by summing all "
                                  "deltas / round trip), and the same as a reader object created at that moment",
                        "python": history_snippet(cut)})
                continue
            terms.append("hist_ok %s %s" % (lst(ops), lst(exps)) if all(e is not None for e in exps) else "false")
            meta.append(case)
    if probe:
        return []
    failing = run.coq_failing(HEADER_HIST, terms, chunk=40)
    run.cov["traces_validated_against_impl"] += len(terms) - len(failing)
    for i in failing:
        failures += 1
        if report:
            run.violation({"kind": "correspondence-history", "site": "history"}, {
                "case": meta[i], "relation": "every read() of a history through long-lived reader objects = hist_run of the model (IO/ReaderHistory.v: "
                "decoding, with the read's quantize value, of the file as it is at that moment; C16_history_*)",
                "coq_term": terms[i][:3000], "python": history_snippet(meta[i])})
    return failures


# ---- running a batch ----------------------------------------------------------------------------------
def strip_eot(tr):
    return tr[:-1] if tr and tr[-1][1] == "end_of_track" and tr[-1][0] == 0 else tr


def judge(run, cases, report=True):
    """run the cases on the implementation, apply the oracle, compare with the model.  Returns number of failing cases."""
    shards = [cases[i::12] for i in range(12) if cases[i::12]]
    d = os.path.join(run.work, "midi")
    outs = run.impl_parallel("c16_impl", [{"dir": d, "cases": sh} for sh in shards])
    res = {}
    for sh, out in zip(shards, outs):
        for case, r in zip(sh, out["cases"]):
            res[id(case)] = r
    terms, meta = [], []
    failures = 0
    for case in cases:
        r = res[id(case)]
        kind = case["kind"]
        run.count(1)
        run.dist(case.get("stratum", kind) if kind != "events" else "events.%s" % case["stratum"])
        if kind == "events":
            run.dist("route.%s.clock%d.file%d" % (case["via"], case["clock_tpb"], case.get("file_tpb") or 480))
        if r.get("write_error"):
            if kind == "foreign":
                run.discard("mido rejected the generated foreign file")
                continue
            failures += 1
            if report:
                run.violation({"kind": "write-raises", "site": kind}, {
                    "case": case, "observed": r["write_error"], "python": snippet(case)})
            continue
        tpb = r["file"]["tpb"]
        c = canon_read(r["read"], tpb)
        run.cov["oracle_evaluations"] += 1
        run.dist("outcome." + (c[1] if c[0] == "raise" else c[0] if c[0] != "ok" else
                               ("ok.zero-length-last-note" if len(c[4]) != len(c[1]) else "ok.empty" if not c[1] else "ok")))
        doc = long_doc(case) if case.get("long") else case           # what replays / samples carry
        snip = long_snippet if case.get("long") else snippet
        bad = oracle_events(case, r, c) if kind == "events" else (oracle_foreign(r, c) if kind == "foreign" else oracle_foreign(r, c))
        if kind == "events" and case.get("also_load") and r.get("load") is not None:
            cl = canon_read(dict(r["load"], is_psequence=True), tpb)
            if cl != c:
                bad.append(("pdict-load", "PDict.load gives %r, MidiFileInputDevice.read gives %r" % (cl, c)))
        if bad:
            failures += 1
            if report:
                k0, detail = bad[0]
                big = bool(case.get("long"))
                run.violation({"kind": k0, "site": kind if kind != "events" else "events"}, {
                    "case": doc, "observed": detail, "read": None if big else r["read"], "file": None if big else r["file"],
                    "oracle": "round trip on the implementation / absolute ticks by summing all deltas",
                    "all_failures": [b[0] for b in bad], "python": snip(case)})
        case["_oracle_bad"] = bool(bad)
        text = json.dumps({k: v for k, v in doc.items() if not k.startswith("_")}, sort_keys=True)
        if (kind == "events" and any(e["notes"] for e in case["events"])) or (kind != "events" and any(
                m[1] == "note_on" and m[4] > 0 for tr in r["file"]["tracks"] for m in tr)):
            run.nontrivial(text)
        # --- correspondence terms
        ftracks = r["file"]["tracks"]
        if case.get("long"):
            # closed forms only (IO/LongPiece.v piece_summary): the full message list of 70 000 events is not sent to Coq
            n = case["long"]
            run.dist("long.events>LENGTH_MAX" if n > run.cov.get("LENGTH_MAX", 0) else "long.events<=LENGTH_MAX")
            run.dist("long.route.%s" % case["via"])
            obs = long_summary(r["file"], c) if len(ftracks) == 1 and (case.get("file_tpb") or 480) == tpb else None
            run.cov["long_piece_notes_compared"] = run.cov.get("long_piece_notes_compared", 0) + (obs[0] if obs else 0)
            terms.append("long_ok (LENGTH_MAX + %d) %s" % (n - run.cov["LENGTH_MAX"], zlist(obs)) if obs else "false")
            meta.append((case, "long", "piece_summary (long_piece 0 (Z.to_nat (LENGTH_MAX + %d)))" % (n - run.cov["LENGTH_MAX"])))
            continue
        if kind == "events":
            es = events_lit(case["events"])
            terms.append("events_ok %s && feq (file_of_events %s) %s" % (es, es, track_lit(strip_eot(ftracks[0]))))
            meta.append((case, "writer", "file_of_events %s" % es))
            if (case.get("file_tpb") or 480) != tpb or len(ftracks) != 1:
                terms[-1] = "false"
        elif kind == "device":
            terms.append("feq (write_file %s) %s" % (ops_lit(case["ops"]), track_lit(strip_eot(ftracks[0]))))
            meta.append((case, "writer", "write_file %s" % ops_lit(case["ops"])))
            if (case.get("file_tpb") or 480) != tpb or len(ftracks) != 1:
                terms[-1] = "false"
        ol = outcome_lit(c) if c[0] in ("ok", "raise") else None
        tl = lst([track_lit(t) for t in ftracks])
        terms.append("routcome_eqb (read_file %s) %s" % (tl, ol) if ol else "false")
        meta.append((case, "reader", "read_file %s" % tl))
        if kind == "events":
            terms.append("routcome_eqb (ROk (expected %s)) %s" % (es, ol) if ol and any(e["notes"] for e in case["events"]) else "true")
            meta.append((case, "roundtrip", "expected %s" % es))
        run.sample({"case": {k: v for k, v in case.items() if not k.startswith("_")}, "file": r["file"], "read": r["read"]}, limit=3)
    if any(m[1] == "long" for m in meta):
        header, chunk = HEADER_LONG, 1
    else:
        header, chunk = HEADER, 150
    failing = run.coq_failing(header, terms, chunk=chunk)
    run.cov["traces_validated_against_impl"] += len(terms) - len(failing)
    shown = 0
    for i in failing:
        case, what, model_term = meta[i]
        if case.get("_oracle_bad"):
            continue            # already reported with the oracle's explanation
        failures += 1
        if not report:
            continue
        r = res[id(case)]
        expected = None
        if shown < 3:
            shown += 1
            try:
                expected = run.coq_eval(HEADER_LONG if what == "long" else HEADER, model_term)[:3000]
            except CheckError:
                expected = None
        if what == "long":
            run.violation({"kind": "correspondence-long", "site": "events"}, {
                "case": long_doc(case), "relation": "closed forms of the written file and of read() for a piece beyond LENGTH_MAX = IO/LongPiece.v piece_summary "
                "[note_ons, checksum (pitch, velocity, tick), file length, events read, sum of durations, checksum pitches, checksum lengths, events_short]",
                "expected_model": expected, "observed": long_summary(res[id(case)]["file"], canon_read(res[id(case)]["read"], res[id(case)]["file"]["tpb"])),
                "python": long_snippet(case)})
            continue
        run.violation({"kind": "correspondence-" + what, "site": case["kind"]}, {
            "case": {k: v for k, v in case.items() if not k.startswith("_")},
            "relation": {"writer": "file written by the implementation (parsed with mido) = message list of the model",
                         "reader": "MidiFileInputDevice.read() of the file = read_file of the model (ticks)",
                         "roundtrip": "read() of the written file = the events written (C16_roundtrip)"}[what],
            "expected_model": expected, "observed_file": r["file"], "observed_read": r["read"],
            "canonical_read": canon_read(r["read"], r["file"]["tpb"]),
            "python": snippet(case)})
    return failures


def check(run):
    rng = run.rng
    quick = run.tier == "quick"
    n_ev, n_dev, n_for = (840, 300, 1500) if quick else (5000, 1500, 9000)
    cases = []
    for i in range(n_ev):
        cases.append(gen_event_case(rng, i))
    for i in range(n_dev):
        cases.append(gen_device_case(rng, i))
    for i in range(n_for):
        cases.append(gen_foreign_case(rng, i))
    # the defect the property text names, as a fixed regression case: a controller with delta 480 between two notes
    cases.append({"kind": "foreign", "tpb": 480, "type": 1, "stratum": "foreign.controller480", "tracks": [[
        [0, "note_on", 0, 60, 64], [240, "note_off", 0, 60, 64], [480, "control_change", 0, 7, 100],
        [240, "note_on", 0, 62, 64], [240, "note_off", 0, 62, 64]]]})
    # the last event is a chord of zero-length notes: read() divides by zero (modelled as RZeroDiv)
    cases.append({"kind": "foreign", "tpb": 96, "type": 0, "stratum": "foreign.zero_length", "tracks": [[
        [0, "note_on", 0, 60, 64], [48, "note_off", 0, 60, 0], [48, "note_on", 0, 62, 1], [0, "note_on", 1, 65, 2],
        [0, "note_on", 0, 62, 0], [0, "note_off", 1, 65, 9], [5, "control_change", 0, 1, 1]]]})
    # a long file: 60 000 device ticks (float clock of the device)
    cases.append({"kind": "device", "file_tpb": None, "stratum": "device.big",
                  "ops": [["on", 60, 64, 0], ["t", 59999], ["off", 60, 0], ["t", 1], ["on", 61, 1, 0], ["t", 7], ["off", 61, 0]]})
    # deltas at the boundaries where the variable-length quantity of the file grows a byte (2^7, 2^14, 2^21, up to 2^28 - 1)
    for k, big in enumerate([127, 128, 16383, 16384, 2097151, 2097152, 268435455]):
        cases.append({"kind": "foreign", "tpb": [480, 96, 1000][k % 3], "type": k % 2, "stratum": "foreign.vlq_boundary", "tracks": [[
            [big, "note_on", 0, 60, 64], [big - 1 if big > 127 else 1, "control_change", 0, 7, 1], [1, "note_off", 0, 60, 0],
            [big, "pitchwheel", 0, 5], [0, "note_on", 1, 62, 1], [big + (1 if big < 268435455 else 0), "note_on", 1, 62, 0]]]})
    for i in range(0, len(cases), 1500):
        judge(run, cases[i:i + 1500])
    # SIZE: pieces beyond Pattern.LENGTH_MAX, through PDict.save and through a Timeline with a MidiFileOutputDevice
    lm = run.cov["LENGTH_MAX"] = length_max()
    if lm <= 200000:
        longs = [gen_long_case(lm + 500, "save", 480, None), gen_long_case(lm + 37, "timeline", 24, 24)]
        if not quick:
            longs += [gen_long_case(lm + 1, "save", 480, None), gen_long_case(2 * lm + 3, "manual", 96, 96), gen_long_case(lm + 4000, "timeline", 480, None)]
        judge(run, longs)                    # one driver process and one coqc per piece, in parallel
    else:
        run.discard("Pattern.LENGTH_MAX = %d: a piece beyond the limit is too long for this check" % lm)
    judge_history(run, [gen_history_case(rng, i) for i in range(180 if quick else 1500)])
    run.cov["rule"] = ("one case = one MIDI file: written by isobar from a note/chord/rest sequence (PDict.save / Timeline + "
                       "MidiFileOutputDevice / bare device calls) or built with mido (foreign), then parsed with mido and read with "
                       "MidiFileInputDevice.read(); distinct by the generating input; non-trivial = the file contains at least one "
                       "sounding note.  Compared: every message (delta, type, channel, note, velocity) of written files; the four "
                       "returned sequences in ticks (floats must be within 1e-6 tick of an integer) or the exception class.")
    run.cov["exhaustive"] = False


def replay(run, doc):
    case = doc.get("case")
    if not isinstance(case, dict) or "kind" not in case:
        print("replay: no case in the document; re-running the whole check")
        if run.build():
            check(run)
        return run.finish()
    case = {k: v for k, v in case.items() if not k.startswith("_")}
    if case.get("long"):
        run.cov["LENGTH_MAX"] = length_max()
        case = gen_long_case(case["long"], case["via"], case["clock_tpb"], case.get("file_tpb"))
        return 1 if judge(run, [case], report=True) else 0
    if case["kind"] == "history":
        return 1 if judge_history(run, [case], report=True) else 0
    n = judge(run, [case], report=True)
    return 1 if n else 0

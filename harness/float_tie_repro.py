#!/venv/bin/python
"""Reproduction of the decimal-tie defect described in docs/FLOAT.md (coq/Base/FloatDue.v, tie_sharp_512):
when 512 divides ticks_per_beat, round(current_time, 8) >= round(next_event_time, 8) can answer "not due" on the exact
onset tick; the event fires one tick late or is lost.  Run:  PYTHONPATH=<isobar repo> /venv/bin/python harness/float_tie_repro.py
Exit status 1 if a difference from exact arithmetic is observed: on repo dcfb371 (test round(a, 8) >= round(b, 8)) for
tpb = 2560 and 512, not for 480; on repo 9bb39e5 and later (test round(a - b, 8) >= 0) for none - exit status 0."""
import math
import sys
from fractions import Fraction as F

import isobar as iso


class Rec(iso.OutputDevice):
    def __init__(self):
        super().__init__()
        self.log, self.tick_no = [], 0

    @property
    def ticks_per_beat(self):
        return None

    def note_on(self, note=60, velocity=64, channel=0):
        self.log.append((self.tick_no, note))

    def note_off(self, note=60, channel=0):
        pass


def run(tpb, cycle, nticks):
    dev = Rec()
    tl = iso.Timeline(120, output_device=dev, clock_source=iso.DummyClock(ticks_per_beat=tpb))
    tl.schedule({"note": iso.PSeries(0, 1), "duration": iso.PSequence([float(c) for c in cycle]), "gate": 0.5})
    for k in range(nticks):
        dev.tick_no = k
        tl.tick()
    total, exact, j = F(0), {}, 0
    while math.ceil(total * tpb) < nticks:
        exact[math.ceil(total * tpb)] = j          # several events on one tick: the last one is performed
        total += cycle[j % len(cycle)]
        j += 1
    exact = sorted(exact.items())
    diff = [p for p in zip(dev.log, exact) if p[0] != p[1]]
    print("tpb=%d cycle=%s ticks=%d: played %d, exact %d, first differences (real, exact): %s"
          % (tpb, [str(c) for c in cycle], nticks, len(dev.log), len(exact), diff[:4]))
    return bool(diff) or len(dev.log) != len(exact)


bad = False
bad |= run(2560, [F(1, 2560)], 24)
bad |= run(512, [F(1, 5), F(1, 512), F(1, 10)], 800)
ok480 = run(480, [F(1, 5), F(1, 480), F(1, 10)], 800) or run(480, [F(1, 480)], 2000) or run(480, [F(1, 3), F(1, 10)], 5000)
print("tpb divisible by 512: differs from exact arithmetic =", bad, "; tpb 480: differs =", ok480)
sys.exit(1 if bad or ok480 else 0)

#!/venv/bin/python
"""developer tool: the per-property status table of DESIGN.md 11.6, from evidence/*.json, seeded/*/meta.json and the known-findings files"""
import glob, json, os
V = os.path.dirname(os.path.dirname(os.path.abspath(__file__)))
kf = json.load(open(os.path.join(V, "known_findings.json")))
for f in sorted(glob.glob(os.path.join(V, "known_findings.d", "*.json"))):
    kf += json.load(open(f))
print("| property | property theorems | closed / depending on std-lib axioms | Qed / stated in the cone | theorem files | defects repaired / known | seeded changes reported (of those confirmed on the current head) |")
print("|---|---|---|---|---|---|---|")
for p in ["C%02d" % i for i in range(1, 21)]:
    e = json.load(open(os.path.join(V, "evidence", p + ".json")))
    c = e["coverage"]
    th = c["theorems"]
    closed = sum(1 for v in th.values() if v == "closed")
    ax = sum(1 for v in th.values() if v.startswith("axioms"))
    fixed = sum(1 for k in kf if k["property"] == p and k["status"] == "fixed")
    known = sum(1 for k in kf if k["property"] == p and k["status"] == "known")
    tot = caught = 0
    for d in sorted(glob.glob(os.path.join(V, "seeded", p + "-?"))):
        m = json.load(open(os.path.join(d, "meta.json")))
        r = m.get("ran", {})
        if m.get("neutralised"):
            continue
        tot += 1
        caught += 1 if r.get("caught") else 0
    files = ", ".join(c.get("theorem_files", {}).get("built", [p + ".v"]))
    print("| %s | %d | %d / %d | %d/%d | %s | %d / %d | %d/%d |" % (p, len(th), closed, ax, c["discharged"], c["obligations"], files, fixed, known, caught, tot))

#!/venv/bin/python
"""Translator: method bodies of the STATEFUL scheduler core - isobar/timelines/track.py (class Track) and
isobar/timelines/timeline.py (class Timeline) - read from the source text with `ast` and rendered as Gallina functions over
the record types of coq/Sched/Model.v -> coq/Generated/TablesTrack.v.  Core: harness/src2coq.py; docs/TRANSLATOR3.md.
coq/Sched/ModelSrc.v proves every src_<method> equal to the hand-written model function; Props/C0xSrc.v restate theorems.

Reading of the data (hand-written, trusted; the Coq side of it is coq/Sched/SrcGlue.v):
  objects      a Track is a `track` record, a Timeline a `timeline` record (+ the `config` for the flags the model keeps
               there), a NoteOffEvent a `noteoff`, an Action an `action`; `self.x` reads the record field of the table
               below; `obj.x = e` REBINDS the name obj to the updated record (w_<field> obj e): the translated methods
               hold no second reference to an object they mutate, except where stated (Timeline.tick, see TRANSLATOR3.md)
  times        exact integers (units of the model); `round(a - b, 8) <= 0` between two times is rendered as the model's
               exact comparison `a <=? b` (>=: `b <=? a`, <: `a <? b`, >: `b <? a`, ==: `a =? b`) - justified on grids of
               fewer than 10^8 units per beat by Base/Round8.v r8_diff_compare; the float side is Props/C01Float/C02Float/C05Float
  device       `<track>.output_device.note_off(n, c)` appends CNoteOff n c to the list of calls made
  lists        `for x in L[:]` = fold_left over the value of L at loop entry; L.remove(x) = remove_first (first element == x,
               == of the dataclasses NoteOffEvent / Action = field-wise equality); tracks: identity = t_id (track_in, tracks_remove)
  exceptions   a `raise` / a call that may raise yields an outcome value (opres / got) instead of unwinding
Anything not listed in docs/TRANSLATOR3.md -> Reject -> exit 3 (fail closed)."""
import ast, sys
from src2coq import Reject, NeedInt, Block, load, find_class, method, body_of, lines_of, write_if_changed, main_wrap, assigned_names

TRACK = {"event_stream": ("t_stream", "stream"), "current_time": ("t_cur", "time"), "next_event_time": ("t_next", "time"),
         "max_event_count": ("t_max", "optint"), "current_event_count": ("t_count", "int"), "note_offs": ("t_offs", "list:noteoff"),
         "is_muted": ("t_muted", "bool"), "is_started": ("t_started", "bool"), "is_finished": ("t_finished", "bool"),
         "remove_when_done": ("t_rwd", "bool")}
TRACK_ORDER = ["t_id", "t_stream", "t_cur", "t_next", "t_max", "t_count", "t_offs", "t_muted", "t_started", "t_finished", "t_rwd", "t_name"]
TRACK_TYPES = {"t_stream": "stream", "t_cur": "Z", "t_next": "Z", "t_max": "option Z", "t_count": "Z", "t_offs": "list noteoff",
               "t_muted": "bool", "t_started": "bool", "t_finished": "bool", "t_rwd": "bool"}
NOTEOFF = {"timestamp": ("no_time", "time"), "timeline_timestamp": ("no_abs", "time"), "note": ("no_note", "int"), "channel": ("no_chan", "int")}
TL = {"current_time": ("now", "time"), "tracks": ("tracks", "list:track"), "actions": ("actions", "list:action")}
TL_ORDER = ["now", "tracks", "actions", "next_id", "def_q", "def_d", "dev_calls"]
TL_TYPES = {"now": "Z", "tracks": "list track", "actions": "list action"}
TLCFG = {"stop_when_done": "stop_when_done", "ignore_exceptions": "ignore_exc"}     # flags the model keeps in `config`
ACTION = {"time": ("a_time", "time")}
FIELDS = {"track": TRACK, "noteoff": NOTEOFF, "tl": TL, "action": ACTION}
KIND_TYPE = {"tl": "timeline_t", "track": "track_t", "calls": "list call", "opres": "opres", "action": "action_t", "noteoff": "noteoff_t",
             "list:track": "list track_t", "int": "Z", "time": "Z", "bool": "bool"}
RESERVED = set(TRACK_ORDER + TL_ORDER + ["no_time", "no_abs", "no_note", "no_chan", "a_time", "cfg", "track_t", "timeline_t", "action_t",
                                         "noteoff_t", "remove_first", "noteoff_dec", "action_dec", "track_in", "tracks_remove",
                                         "stream_is_none", "stream_none", "pull", "fire_action", "ROk", "res", "calls", "got",
                                         "GStop", "GRaise", "GEvent", "RStopIter", "RRaise", "REvent", "CNoteOff", "ARelease", "AStart",
                                         "stop_when_done", "ignore_exc", "tau", "st", "c"]
               + ["w_" + f for f in TRACK_ORDER + TL_ORDER])


def is_attr(n, obj=None, attr=None):
    return isinstance(n, ast.Attribute) and isinstance(n.value, ast.Name) and (obj is None or n.value.id == obj) and (attr is None or n.attr == attr)


def is_round8_diff(n):
    """round(a - b, 8) -> (a, b)"""
    if isinstance(n, ast.Call) and isinstance(n.func, ast.Name) and n.func.id == "round" and not n.keywords and len(n.args) == 2 \
            and isinstance(n.args[1], ast.Constant) and type(n.args[1].value) is int and n.args[1].value == 8 \
            and isinstance(n.args[0], ast.BinOp) and isinstance(n.args[0].op, ast.Sub):
        return n.args[0].left, n.args[0].right
    return None


def is_zero(n):
    return isinstance(n, ast.Constant) and type(n.value) in (int, float) and n.value == 0


class TBlock(Block):
    """methods: maps the name of a translated method that the body may call to a handler (call node, env) -> ..."""

    def __init__(self, fn, reserved=RESERVED):
        Block.__init__(self, fn, reserved=reserved)
        self.calls_used = False
        self.k_now = None

    # ---- object fields ----------------------------------------------------------------------------------------------------
    def field(self, n, env):
        """n = <name>.<attr> with <name> an object of the environment -> (object value, accessor, kind) or None"""
        if is_attr(n) and n.value.id in env and env[n.value.id][0] in FIELDS:
            o = env[n.value.id]
            tab = FIELDS[o[0]]
            if n.attr not in tab:
                if o[0] == "tl" and n.attr in TLCFG:
                    return o, None, "cfgflag"
                raise Reject("field not in the model: " + ast.unparse(n))
            return o, tab[n.attr][0], tab[n.attr][1]
        return None

    def special_expr(self, n, env):
        if isinstance(n, ast.Attribute):
            key = ast.unparse(n)
            if key in env:                       # refined inside a `match` (an optional int known to be an int)
                return env[key]
            f = self.field(n, env)
            if f is None:
                raise Reject("attribute not understood: " + key)
            o, acc, kind = f
            if kind == "cfgflag":
                return ("bool", "(%s cfg)" % TLCFG[n.attr])
            return (kind, "(%s %s)" % (acc, o[1]))
        if isinstance(n, ast.List) and not n.elts:
            return ("emptylist", "[]")
        if isinstance(n, ast.Compare) and len(n.ops) == 1:
            d = is_round8_diff(n.left)
            if d is not None:
                if not is_zero(n.comparators[0]):
                    raise Reject("round(a - b, 8) compared with something else than 0")
                a, b = self.ex(d[0], env), self.ex(d[1], env)
                if a[0] != "time" or b[0] != "time":
                    raise Reject("round(a - b, 8) of something else than two times")
                op = type(n.ops[0])
                shape = {ast.LtE: "(%s <=? %s)" % (a[1], b[1]), ast.GtE: "(%s <=? %s)" % (b[1], a[1]),
                         ast.Lt: "(%s <? %s)" % (a[1], b[1]), ast.Gt: "(%s <? %s)" % (b[1], a[1]),
                         ast.Eq: "(%s =? %s)" % (a[1], b[1])}.get(op)
                if shape is None:
                    raise Reject("comparison of a rounded difference not understood: " + ast.unparse(n))
                return ("bool", shape)
            if type(n.ops[0]) in (ast.In, ast.NotIn) and not isinstance(n.comparators[0], ast.Tuple):
                a, l = self.ex(n.left, env), self.ex(n.comparators[0], env)
                if a[0] == "track" and l[0] == "list:track":
                    t = "(track_in %s %s)" % (a[1], l[1])
                    return ("bool", t if isinstance(n.ops[0], ast.In) else "(negb %s)" % t)
                raise Reject("membership test not understood: " + ast.unparse(n))
            if type(n.ops[0]) is ast.Eq and is_zero(n.comparators[0]) and isinstance(n.left, ast.Call) and isinstance(n.left.func, ast.Name) \
                    and n.left.func.id == "len" and len(n.left.args) == 1 and not n.left.keywords:
                l = self.ex(n.left.args[0], env)
                if l[0].startswith("list:"):
                    return ("bool", "(Z.of_nat (List.length %s) =? 0)" % l[1])
        if isinstance(n, ast.BinOp) and type(n.op) in (ast.Add, ast.Sub):
            saved = list(self.guards)
            a, b = self.ex(n.left, env), self.ex(n.right, env)
            if a[0] == "time" and b[0] == "time":
                return ("time", "(%s %s %s)" % (a[1], "+" if isinstance(n.op, ast.Add) else "-", b[1]))
            if "time" in (a[0], b[0]):
                raise Reject("arithmetic between a time and a %s" % (b[0] if a[0] == "time" else a[0]))
            self.guards = saved
            return None
        if isinstance(n, ast.Call) and isinstance(n.func, ast.Name) and n.func.id == "Action" and len(n.args) == 2 and not n.keywords:
            t = self.ex(n.args[0], env)
            if t[0] != "time":
                raise Reject("Action(...) whose time is not a time")
            return ("action", self.closure(n.args[1], t[1], env))
        return None

    def closure(self, lam, time, env):
        """the closures the model knows: a deferred note-off of a track that leaves the timeline"""
        if isinstance(lam, ast.Lambda):
            a = lam.args
            params = [x.arg for x in a.args]
            if not (a.vararg or a.kwarg or a.kwonlyargs or a.posonlyargs) and len(a.defaults) == len(params) \
                    and all(isinstance(d, ast.Name) and d.id == p for d, p in zip(a.defaults, params)):
                # lambda x=x: ... : the body sees the values the names have NOW
                c = lam.body
                if isinstance(c, ast.Call) and isinstance(c.func, ast.Attribute) and c.func.attr == "note_off" and is_attr(c.func.value, attr="output_device") \
                        and env.get(c.func.value.value.id, ("?",))[0] == "track" and len(c.args) == 2 and not c.keywords:
                    n_, ch = self.ex(c.args[0], env), self.ex(c.args[1], env)
                    if n_[0] == "int" and ch[0] == "int":
                        free = {x.id for x in ast.walk(c) if isinstance(x, ast.Name)} - set(params)
                        # a free variable of the closure is read when the closure RUNS: accepted only for the device lookup
                        if free - {c.func.value.value.id}:
                            raise Reject("closure reads %s late" % sorted(free))
                        return "(ARelease %s %s %s)" % (time, n_[1], ch[1])
        raise Reject("closure not understood: " + ast.unparse(lam))

    def special_coerce(self, v, kind):
        if kind.startswith("list:") and v[0] == "emptylist":
            return "[]"
        return None

    # ---- conditions ---------------------------------------------------------------------------------------------------------
    def fork(self, test, env, kt, kf):
        if isinstance(test, ast.Compare) and len(test.ops) == 1:
            op, right = test.ops[0], test.comparators[0]
            # X is None / X is not None on a field
            if isinstance(op, (ast.Is, ast.IsNot)) and isinstance(right, ast.Constant) and right.value is None and isinstance(test.left, ast.Attribute):
                v = self.ex(test.left, env)
                k_none, k_some = (kt, kf) if isinstance(op, ast.Is) else (kf, kt)
                if v[0] == "stream":
                    return "if stream_is_none %s then %s else %s" % (v[1], k_none(env), k_some(env))
                if v[0] == "optint":
                    return self.match_opt(test.left, v, env, k_none, lambda e: k_some(e))
                if v[0] == "int":
                    return k_some(env)
                raise Reject("`is None` on a %s" % v[0])
            # X not in (None, 0) / X in (None, 0)
            if isinstance(op, (ast.In, ast.NotIn)) and isinstance(right, ast.Tuple) and len(right.elts) == 2 \
                    and isinstance(right.elts[0], ast.Constant) and right.elts[0].value is None \
                    and isinstance(right.elts[1], ast.Constant) and type(right.elts[1].value) is int and right.elts[1].value == 0:
                v = self.ex(test.left, env)
                k_in, k_out = (kt, kf) if isinstance(op, ast.In) else (kf, kt)
                if v[0] == "optint":
                    return self.match_opt(test.left, v, env, k_in,
                                          lambda e: "if negb (%s =? 0) then %s else %s" % (self.ex(test.left, e)[1], k_out(e), k_in(e)))
                raise Reject("`in (None, 0)` on a %s" % v[0])
        return Block.fork(self, test, env, kt, kf)

    def match_opt(self, node, v, env, k_none, k_some):
        base = node.attr if isinstance(node, ast.Attribute) else node.id
        x = self.fresh(base)
        e_some = dict(env)
        e_some[ast.unparse(node)] = ("int", x)
        return "match %s with\n  | None => %s\n  | Some %s => %s\n  end" % (v[1], k_none(env), x, k_some(e_some))

    # ---- statements -----------------------------------------------------------------------------------------------------------
    def block1(self, stmts, env, k, depth):
        self.k_now = k
        return Block.block1(self, stmts, env, k, depth)

    def rebind(self, name, kind, term, env, go):
        e2 = {key: val for key, val in env.items() if not key.startswith(name + ".")}     # refinements of the old value are gone
        e2[name] = (kind, name)
        return "let %s := %s in\n  %s" % (name, term, go(e2))

    def classify(self, st, env):
        """the generator's own statement forms -> (names assigned, renderer(env, go)) or None"""
        # obj.f = e ; obj.f op= e
        if isinstance(st, (ast.Assign, ast.AugAssign)):
            tgt = st.targets[0] if isinstance(st, ast.Assign) and len(st.targets) == 1 else getattr(st, "target", None)
            if isinstance(tgt, ast.Attribute):
                if not is_attr(tgt):
                    raise Reject("assignment target not understood: " + ast.unparse(tgt))
                name = tgt.value.id

                def render(env, go):
                    f = self.field(tgt, env)
                    if f is None or f[2] == "cfgflag":
                        raise Reject("assignment to something that is not a field of the model: " + ast.unparse(tgt))
                    o, acc, kind = f
                    if isinstance(st, ast.AugAssign):
                        value = ast.BinOp(left=ast.Attribute(value=ast.Name(id=name, ctx=ast.Load()), attr=tgt.attr, ctx=ast.Load()), op=st.op, right=st.value)
                    else:
                        value = st.value
                    if isinstance(value, ast.Constant) and value.value is None and kind == "stream":
                        term = "stream_none"
                    else:
                        v, g = self.ex_g(value, env)
                        if g != "true":
                            raise Reject("partial operation in a field assignment")
                        term = self.coerce(v, kind)
                    return self.rebind(name, o[0], "(w_%s %s %s)" % (acc, o[1], term), env, go)
                return [name], render
        if isinstance(st, ast.Expr) and isinstance(st.value, ast.Call) and isinstance(st.value.func, ast.Attribute) and not st.value.keywords:
            c = st.value
            recv, meth = c.func.value, c.func.attr
            # obj.f.remove(x) / obj.f.append(x)
            if meth in ("remove", "append") and is_attr(recv) and len(c.args) == 1:
                name = recv.value.id

                def render(env, go):
                    f = self.field(recv, env)
                    if f is None or not f[2].startswith("list:"):
                        raise Reject("%s on something that is not a list field: %s" % (meth, ast.unparse(recv)))
                    o, acc, kind = f
                    x = self.ex(c.args[0], env)
                    if "list:" + x[0] != kind:
                        raise Reject("%s of a %s on a %s" % (meth, x[0], kind))
                    lst = "(%s %s)" % (acc, o[1])
                    if meth == "append":
                        new = "(%s ++ [%s])" % (lst, x[1])
                    elif x[0] == "track":
                        new = "(tracks_remove %s %s)" % (x[1], lst)
                    else:
                        new = "(remove_first %s_dec %s %s)" % (x[0], x[1], lst)
                    return self.rebind(name, o[0], "(w_%s %s %s)" % (acc, o[1], new), env, go)
                return [name], render
            # <track>.output_device.note_off(n, c)
            if meth == "note_off" and is_attr(recv, attr="output_device") and len(c.args) == 2:
                def render(env, go):
                    if env.get(recv.value.id, ("?",))[0] != "track" or "calls" not in env:
                        raise Reject("device call not understood: " + ast.unparse(c))
                    a, b = self.ex(c.args[0], env), self.ex(c.args[1], env)
                    if a[0] != "int" or b[0] != "int":
                        raise Reject("note_off of non-ints")
                    return self.rebind("calls", "calls", "(%s ++ [CNoteOff %s %s])" % (env["calls"][1], a[1], b[1]), env, go)
                return ["calls"], render
            # action.function(): what the stored closure does is Model.v's fire_action (trusted glue)
            if meth == "function" and isinstance(recv, ast.Name) and not c.args:
                def render(env, go):
                    if env.get(recv.id, ("?",))[0] != "action" or env.get("self", ("?",))[0] != "tl" or "calls" not in env:
                        raise Reject("call of a stored closure not understood: " + ast.unparse(c))
                    e2 = {key: val for key, val in env.items() if not key.startswith("self.")}
                    e2["self"], e2["calls"] = ("tl", "self"), ("calls", "calls")
                    return "let '(self, c) := fire_action %s %s in\n  let calls := (%s ++ c) in\n  %s" % (env["self"][1], env[recv.id][1], env["calls"][1], go(e2))
                return ["self", "calls"], render
            # self.<translated method>(...)
            if isinstance(recv, ast.Name) and recv.id == "self" and meth in self.callees:
                return self.callees[meth](self, c)
        return None

    def special_assigned(self, st):
        if isinstance(st, ast.Raise):
            return ["res"]
        if isinstance(st, (ast.Continue, ast.Pass)):
            return []
        c = self.classify(st, None)
        return None if c is None else c[0]

    def special_stmt(self, st, rest, env, go):
        c = self.classify(st, env)
        if c is None:
            if isinstance(st, ast.Continue) and self.in_for:
                if rest:
                    raise Reject("statements after continue")
                return self.k_now(env)
            return None
        return c[1](env, go)

    in_for = 0
    callees = {}

    # ---- for over a list of objects -----------------------------------------------------------------------------------------
    def for_loop(self, st, env, go):
        it = st.iter
        copied = isinstance(it, ast.Subscript) and isinstance(it.slice, ast.Slice) and it.slice.lower is None and it.slice.upper is None and it.slice.step is None
        if copied:
            it = it.value
        l, gl = self.ex_g(it, env)
        if not l[0].startswith("list:") or gl != "true":
            return Block.for_loop(self, st, env, go)
        elem = l[0][5:]
        x = st.target.id
        names = assigned_names(st.body, self.special_assigned)
        if x in env or x in names:
            raise Reject("for loop variable %s is also an ordinary variable" % x)
        if not copied and is_attr(it) and it.value.id in names:
            raise Reject("the loop body changes the object whose list it iterates (and the list is not copied)")
        self.in_for += 1
        state, kinds, local, inner = self.loop_parts(st.body, env, bound=[(x, elem)])
        body = self.body_terms(st.body, inner, state, kinds)
        self.in_for -= 1
        pat = self.state_pattern(state)
        if "res" in state:        # an iteration is skipped once a call has raised
            body = "match res with ROk => %s | _ => %s end" % (body, self.state_tuple(state, inner, kinds))
        after = dict((key, val) for key, val in env.items() if not any(key.startswith(n + ".") for n in state))
        for n in state:
            after[n] = (kinds[n], n)
        for n in local + [x]:
            after.pop(n, None)
        fun = self.name_step(["(%s : %s)" % (x, KIND_TYPE[elem])], pat, " * ".join(KIND_TYPE[kinds[n]] for n in state), body)
        return "let %s := fold_left %s %s %s in\n  %s" % (pat, fun, l[1], self.state_tuple(state, env, kinds), go(after))

    loop_prefix = None

    def name_step(self, params, pat, sttype, body):
        """the step function of a fold: inline, or (Timeline.tick) a definition of its own so that ModelSrc.v can state a lemma about it"""
        x = params[0].split()[0].lstrip("(")
        if self.loop_prefix is None:
            return "(fun %s %s => %s)" % (pat, x, body)
        name = "%s_loop%d" % (self.loop_prefix, len(self.aux) + 1)
        self.aux.append("Definition %s (cfg : config) (st0 : %s) %s : %s :=\n  let %s := st0 in\n  %s." % (name, sttype, " ".join(params), sttype, pat, body))
        return "(%s cfg)" % name


# ---- the methods ---------------------------------------------------------------------------------------------------------------
def forbid(fn, kinds, allow=()):
    for n in ast.walk(fn):
        if isinstance(n, kinds) and not isinstance(n, allow) and n is not fn:
            raise Reject("%s: %s" % (fn.name, type(n).__name__))


BAD = (ast.Yield, ast.YieldFrom, ast.Await, ast.With, ast.Global, ast.Nonlocal, ast.FunctionDef, ast.AsyncFunctionDef, ast.ClassDef,
       ast.Break, ast.Delete, ast.Import, ast.ImportFrom, ast.Assert, ast.NamedExpr, ast.Starred)


def signature(fn, expect):
    a = fn.args
    names = [x.arg for x in a.args]
    if a.vararg or a.kwarg or a.kwonlyargs or a.posonlyargs or len(names) != expect or names[0] != "self":
        raise Reject("%s: unexpected signature" % fn.name)
    return names


def simple_track_method(cls, name, nargs, argkinds):
    """a method that only updates fields of self: -> (coq parameters, term, source lines)"""
    fn = method(cls, name)
    forbid(fn, BAD + (ast.Try, ast.Lambda, ast.While, ast.For, ast.Return, ast.Raise))
    names = signature(fn, nargs)
    b = TBlock(fn)
    env = {"self": ("track", "self")}
    for n, kd in zip(names[1:], argkinds):
        env[n] = (kd, n)
    term = b.run(body_of(fn), env, lambda e: e["self"][1])
    return names[1:], term, lines_of(fn)


def gen_process_note_offs(cls):
    fn = method(cls, "process_note_offs")
    forbid(fn, BAD + (ast.Try, ast.Lambda, ast.While, ast.Return, ast.Raise))
    signature(fn, 1)
    b = TBlock(fn)
    env = {"self": ("track", "self"), "calls": ("calls", "[]")}
    term = b.run(body_of(fn), env, lambda e: "(%s, %s)" % (e["self"][1], e["calls"][1]))
    return term, lines_of(fn)


def gen_release_pending(cls):
    fn = method(cls, "_release_pending_notes")
    forbid(fn, BAD + (ast.Try, ast.While, ast.Return, ast.Raise))
    names = signature(fn, 2)
    b = TBlock(fn)
    env = {"self": ("tl", "self"), names[1]: ("track", names[1])}
    term = b.run(body_of(fn), env, lambda e: "(%s, %s)" % (e["self"][1], e[names[1]][1]))
    return names[1], term, lines_of(fn)


def call_release(b, c):
    """self._release_pending_notes(track)"""
    if len(c.args) != 1 or not isinstance(c.args[0], ast.Name):
        raise Reject("call not understood: " + ast.unparse(c))
    tname = c.args[0].id

    def render(env, go):
        if env.get("self", ("?",))[0] != "tl" or env.get(tname, ("?",))[0] != "track":
            raise Reject("call not understood: " + ast.unparse(c))
        e2 = {key: val for key, val in env.items() if not key.startswith("self.") and not key.startswith(tname + ".")}
        e2["self"], e2[tname] = ("tl", "self"), ("track", tname)
        return "let '(self, %s) := src_timeline_release_pending_notes %s %s in\n  %s" % (tname, env["self"][1], env[tname][1], go(e2))
    return ["self", tname], render


def call_unschedule(b, c):
    """self.unschedule(track): may raise; the outcome is kept in `res`, the rest of the statement list is skipped unless ROk"""
    if len(c.args) != 1 or not isinstance(c.args[0], ast.Name):
        raise Reject("call not understood: " + ast.unparse(c))
    tname = c.args[0].id

    def render(env, go):
        if env.get("self", ("?",))[0] != "tl" or env.get(tname, ("?",))[0] != "track" or "res" not in env:
            raise Reject("call not understood: " + ast.unparse(c))
        e2 = {key: val for key, val in env.items() if not key.startswith("self.")}
        e2["self"], e2["res"] = ("tl", "self"), ("opres", "res")
        return "let '(self, res) := src_timeline_unschedule %s %s in\n  match res with ROk => %s | _ => %s end" % (
            env["self"][1], env[tname][1], go(e2), b.k_abort(e2))
    return ["self", "res"], render


class OutcomeBlock(TBlock):
    """a Timeline method whose result is (self, opres)"""
    EXC = {"TrackNotFoundException": "RTrackNotFound"}

    def on_raise(self, st, env):
        e = st.exc
        name = e.func.id if isinstance(e, ast.Call) and isinstance(e.func, ast.Name) else e.id if isinstance(e, ast.Name) else None
        if name not in self.EXC or st.cause is not None:
            raise Reject("raise not understood: " + ast.unparse(st))
        return "(%s, %s)" % (env["self"][1], self.EXC[name])

    def k_abort(self, env):
        # inside a loop body: leave the iteration with the state as it is (res says why); at top level: the outcome
        return self.k_now(env) if self.in_for else "(%s, res)" % env["self"][1]


def gen_unschedule(cls):
    fn = method(cls, "unschedule")
    forbid(fn, BAD + (ast.Try, ast.Lambda, ast.While, ast.For, ast.Return))
    names = signature(fn, 2)
    b = OutcomeBlock(fn)
    b.callees = {"_release_pending_notes": call_release}
    env = {"self": ("tl", "self"), names[1]: ("track", names[1])}
    term = b.run(body_of(fn), env, lambda e: "(%s, ROk)" % e["self"][1])
    return names[1], term, lines_of(fn)


def gen_clear(cls):
    fn = method(cls, "clear")
    forbid(fn, BAD + (ast.Try, ast.Lambda, ast.While, ast.Return, ast.Raise))
    signature(fn, 1)
    b = OutcomeBlock(fn)
    b.callees = {"unschedule": call_unschedule}
    env = {"self": ("tl", "self"), "res": ("opres", "ROk")}
    term = b.run(body_of(fn), env, lambda e: "(%s, %s)" % (e["self"][1], e["res"][1]))
    return term, lines_of(fn)


class NextEventBlock(TBlock):
    """Track.get_next_event: result (got, self).  `next(self.event_stream)` is the model's `pull`; the three statements
    event_values = next(self.event_stream); event_values = copy.copy(event_values); event = Event(event_values, self.timeline.defaults, track=self)
    together take ONE item of the model's stream (an item is an already resolved Event, StopIteration, or an exception raised
    by the pattern or by the Event constructor - Model.v evres; the resolution itself is property C03's model)."""

    def on_raise(self, st, env):
        e = st.exc
        name = e.func.id if isinstance(e, ast.Call) and isinstance(e.func, ast.Name) and not e.args else e.id if isinstance(e, ast.Name) else None
        if name != "StopIteration" or st.cause is not None:
            raise Reject("raise not understood: " + ast.unparse(st))
        return "(GStop, %s)" % env["self"][1]

    def on_return(self, v, env):
        if v[0] != "event":
            raise Reject("get_next_event returns a %s" % v[0])
        return "(GEvent %s, %s)" % (v[1], env["self"][1])

    def special_stmt(self, st, rest, env, go):
        if isinstance(st, ast.Assign) and len(st.targets) == 1 and isinstance(st.targets[0], ast.Name) and isinstance(st.value, ast.Call):
            x, c = st.targets[0].id, st.value
            src = ast.unparse(c)
            if src == "next(self.event_stream)":
                s = self.ex(c.args[0], env)
                if s[0] != "stream" or env["self"][0] != "track":
                    raise Reject("next() of a %s" % s[0])
                e_adv = {key: val for key, val in env.items() if not key.startswith("self.")}
                e_adv["self"] = ("track", "self")
                e_ok = dict(e_adv)
                e_ok[x] = ("values", x)
                adv = "let self := (w_t_stream %s s') in " % env["self"][1]
                return ("match pull %s with\n  | (RStopIter, s') => %s(GStop, self)\n  | (RRaise, s') => %s(GRaise, self)\n  | (REvent %s, s') => %s\n  %s\n  end"
                        % (s[1], adv, adv, x, adv, go(e_ok)))
            if src == "copy.copy(%s)" % x and env.get(x, ("?",))[0] == "values":
                return go(env)
            if isinstance(c.func, ast.Name) and c.func.id == "Event":
                if len(c.args) != 2 or not isinstance(c.args[0], ast.Name) or env.get(c.args[0].id, ("?",))[0] != "values" \
                        or ast.unparse(c.args[1]) != "self.timeline.defaults" or [(kw.arg, ast.unparse(kw.value)) for kw in c.keywords] != [("track", "self")]:
                    raise Reject("construction of the Event not understood: " + src)
                e2 = dict(env)
                e2[x] = ("event", x)
                return "let %s := %s in\n  %s" % (x, env[c.args[0].id][1], go(e2))
        return TBlock.special_stmt(self, st, rest, env, go)


def gen_get_next_event(cls):
    fn = method(cls, "get_next_event")
    forbid(fn, BAD + (ast.Try, ast.Lambda, ast.While, ast.For))
    signature(fn, 1)
    b = NextEventBlock(fn, reserved=RESERVED | {"s'"})

    def fall_off(e):
        raise Reject("get_next_event can end without returning an event")
    term = b.run(body_of(fn), {"self": ("track", "self")}, fall_off)
    return term, lines_of(fn)



# ---- Timeline.tick ---------------------------------------------------------------------------------------------------------------
OUT_OF_MODEL = [
    # LFOs and automations: the model has none (its scenarios never create one)
    "for lfo in self.lfos[:]:\n    lfo.tick()",
    "for automation in self.automations[:]:\n    automation.tick()",
    # the device clocks (property C14 / C15, Clock/Multiplier.v)
    "for device in self.output_devices:\n    clock_multiplier = self.clock_multipliers[device]\n    ticks = next(clock_multiplier)\n"
    "    for tick in range(ticks):\n        device.tick()",
    # the text of a log message
    "tb = traceback.format_exc()",
]
ADVANCE = "self.current_time, self._tick_grid = advance_on_tick_grid(self.current_time, self.ticks_per_beat, self._tick_grid)"


def is_pure(n):
    """an expression whose evaluation has no effect and cannot raise on the model's data (arguments of log calls, tests of
    `if`s that only log)"""
    for x in ast.walk(n):
        if isinstance(x, ast.Call):
            if not (isinstance(x.func, ast.Name) and x.func.id in ("len", "round") and not x.keywords):
                return False
        elif not isinstance(x, (ast.Constant, ast.Name, ast.Attribute, ast.BinOp, ast.Tuple, ast.Compare, ast.Load, ast.operator, ast.cmpop,
                                ast.BoolOp, ast.boolop, ast.UnaryOp, ast.unaryop)):
            return False
    return True


def is_log(st):
    return isinstance(st, ast.Expr) and isinstance(st.value, ast.Call) and isinstance(st.value.func, ast.Attribute) \
        and isinstance(st.value.func.value, ast.Name) and st.value.func.value.id == "log" \
        and st.value.func.attr in ("debug", "info", "warning", "error") and not st.value.keywords and all(is_pure(a) for a in st.value.args)


def is_skipped(st):
    if is_log(st) or ast.unparse(st) in OUT_OF_MODEL:
        return True
    return isinstance(st, ast.If) and not st.orelse and is_pure(st.test) and all(is_log(x) for x in st.body)


class TickBlock(TBlock):
    """Timeline.tick: result (self, calls, res)"""
    rest_now = ()

    def on_raise(self, st, env):
        e = st.exc
        if e is None and self.in_handler:                         # re-raise of the exception of track.tick()
            e2 = dict(env)
            e2["res"] = ("opres", "RException")
            return self.k_now(e2)
        name = e.func.id if isinstance(e, ast.Call) and isinstance(e.func, ast.Name) and not e.args else e.id if isinstance(e, ast.Name) else None
        if name != "StopIteration" or st.cause is not None or self.in_for:
            raise Reject("raise not understood: " + ast.unparse(st))
        return "(%s, %s, RStopIteration)" % (env["self"][1], env["calls"][1])

    def k_abort(self, env):
        return self.k_now(env) if self.in_for else "(%s, %s, res)" % (env["self"][1], env["calls"][1])

    in_handler = 0

    def classify(self, st, env):
        if is_skipped(st):
            return [], lambda env, go: go(env)
        if ast.unparse(st) == ADVANCE:
            return ["self"], lambda env, go: self.rebind("self", "tl", "(w_now %s ((now %s) + tau cfg))" % (env["self"][1], env["self"][1]), env, go)
        if isinstance(st, ast.For) and not st.orelse and isinstance(st.target, ast.Name) and ast.unparse(st.iter) == "self.tracks[:]":
            x = st.target.id
            # every Track object of the list runs a method that touches nothing but the object itself: a map over the list
            if [ast.unparse(b) for b in st.body] == ["%s.process_note_offs()" % x]:
                def render(env, go):
                    if x in env:
                        raise Reject("for loop variable %s is also an ordinary variable" % x)
                    e2 = {key: val for key, val in env.items() if not key.startswith("self.")}
                    e2["self"], e2["calls"] = ("tl", "self"), ("calls", "calls")
                    fun = self.name_step(["(%s : track_t)" % x], "'(st, calls)", "list track_t * list call",
                                         "let '(%s, c) := src_track_process_note_offs %s in (st ++ [%s], calls ++ c)" % (x, x, x))
                    return ("let '(st, calls) := fold_left %s (tracks %s) ([], %s) in\n  let self := (w_tracks %s st) in\n  %s"
                            % (fun, env["self"][1], env["calls"][1], env["self"][1], go(e2)))
                return ["self", "calls"], render
            # the loop variable is a REFERENCE to an object that the body (track.tick() and its callbacks) changes and may
            # remove from the list: only the identity of the snapshot's entry is used; the object is looked up afresh
            if st.body and ast.unparse(st.body[0]) == "if %s not in self.tracks:\n    continue" % x:
                def render(env, go):
                    if x in env or env.get("self", ("?",))[0] != "tl" or "res" not in env or "calls" not in env:
                        raise Reject("track loop not understood")
                    body = st.body[1:]
                    self.in_for += 1
                    names = assigned_names(body, self.special_assigned)
                    state = ["self", "calls", "res"]
                    if [n for n in names if n in env] != state:
                        raise Reject("track loop: state %r" % names)
                    inner = {key: val for key, val in env.items() if not key.startswith("self.")}
                    for n_ in state:
                        inner[n_] = (env[n_][0], n_)
                    inner[x] = ("track", x)
                    term = self.block(list(body), inner, lambda e: "(%s, %s, %s)" % (e["self"][1], e["calls"][1], e["res"][1]), 0)
                    self.in_for -= 1
                    after = dict(inner)
                    after.pop(x)
                    for n_ in names:
                        if n_ not in state:
                            after.pop(n_, None)
                    fun = self.name_step(["(%s : track_t)" % x], "'(self, calls, res)", "timeline_t * list call * opres",
                                         "match res with ROk =>\n  match find_track (t_id %s) (tracks self) with\n  | None => (self, calls, res)\n  | Some %s => %s\n  end\n"
                                         "  | _ => (self, calls, res) end" % (x, x, term))
                    return ("let '(self, calls, res) := fold_left %s (tracks %s) (%s, %s, %s) in\n  match res with ROk => %s | _ => (self, calls, res) end"
                            % (fun, env["self"][1], env["self"][1], env["calls"][1], env["res"][1], go(after)))
                return ["self", "calls", "res"], render
        if isinstance(st, ast.Try):
            if not (len(st.body) == 1 and not st.orelse and not st.finalbody and len(st.handlers) == 1 and isinstance(st.handlers[0].type, ast.Name)
                    and st.handlers[0].type.id == "Exception" and isinstance(st.body[0], ast.Expr) and isinstance(st.body[0].value, ast.Call)
                    and is_attr(st.body[0].value.func, attr="tick") and not st.body[0].value.args and not st.body[0].value.keywords):
                raise Reject("try statement not understood")
            x = st.body[0].value.func.value.id
            h = st.handlers[0]
            if h.name is not None and any(isinstance(n_, ast.Name) and n_.id == h.name for b in h.body for n_ in ast.walk(b) if not is_skipped(b)):
                pass      # (reads of the exception object outside log calls are rejected as unknown names by the executor)

            def render(env, go):
                if env.get(x, ("?",))[0] != "track" or env.get("self", ("?",))[0] != "tl" or not self.in_for:
                    raise Reject("try statement not understood")
                e2 = {key: val for key, val in env.items() if not key.startswith("self.") and not key.startswith(x + ".")}
                e2["self"], e2["calls"], e2[x] = ("tl", "self"), ("calls", "calls"), ("track", x)
                rest, k = list(self.rest_now), self.k_now
                ok = go(e2)
                self.in_handler += 1
                raised = self.block(list(h.body) + rest, e2, k, 1)
                self.in_handler -= 1
                e3 = dict(e2)
                e3["res"] = ("opres", "ROutOfFuel")
                return ("let '(self, c, out, %s) := obj_tick cfg %s %s in\n  let calls := (%s ++ c) in\n  match out with\n  | TickOk => %s\n  | TickRaise => %s\n  | TickFuel => %s\n  end"
                        % (x, env["self"][1], env[x][1], env["calls"][1], ok, raised, k(e3)))
            return ["self", "calls", "res", x] + assigned_names(h.body, self.special_assigned), render
        return TBlock.classify(self, st, env)

    def special_stmt(self, st, rest, env, go):
        self.rest_now = rest
        return TBlock.special_stmt(self, st, rest, env, go)


def gen_timeline_tick(cls):
    fn = method(cls, "tick")
    forbid(fn, BAD + (ast.Lambda, ast.While, ast.Return))
    signature(fn, 1)
    b = TickBlock(fn, reserved=RESERVED | {"obj_tick", "out", "TickOk", "TickRaise", "TickFuel", "find_track", "RException", "ROutOfFuel", "RStopIteration"})
    b.callees = {"_release_pending_notes": call_release}
    b.loop_prefix, b.aux = "src_timeline_tick", []
    env = {"self": ("tl", "self"), "calls": ("calls", "[]"), "res": ("opres", "ROk")}
    term = b.run(body_of(fn), env, lambda e: "(%s, %s, ROk)" % (e["self"][1], e["calls"][1]))
    if len(b.aux) != 3:
        raise Reject("Timeline.tick: %d loops translated (expected: note-offs, actions, tracks)" % len(b.aux))
    return "\n\n".join(b.aux), term, lines_of(fn)



# ---- Track.start, Track.update ---------------------------------------------------------------------------------------------------
START_NORMALISE = ["if events is None:\n    events = {}", "if isinstance(events, dict):\n    events = PDict(events)"]
LATENCY_TEST = "self.output_device is not None and self.output_device.added_latency_seconds > 0.0"
LATENCY_BEATS = "self.timeline.seconds_to_beats(self.output_device.added_latency_seconds)"
START_CLOSURE = "lambda: self.start(events, interpolate=interpolate)"
START_INTERP_RESET = ["self.next_event = None", "self.interpolating_event = PSequence([], 0)"]


def gen_track_start(cls):
    fn = method(cls, "start")
    forbid(fn, BAD + (ast.Try, ast.Lambda, ast.While, ast.For, ast.Return, ast.Raise))
    a = fn.args
    if [x.arg for x in a.args] != ["self", "events", "interpolate"] or [ast.unparse(d) for d in a.defaults] != ["None"] or a.vararg or a.kwarg or a.kwonlyargs:
        raise Reject("Track.start: unexpected signature")
    body = body_of(fn)
    # the model receives the events as an already built stream: the normalisation of the argument is not translated
    if [ast.unparse(x) for x in body[:2]] != START_NORMALISE:
        raise Reject("Track.start: the normalisation of `events` is not the one the translation skips")
    b = TBlock(fn, reserved=RESERVED - {"c"})
    rest = body[2:]
    # since repair 312ab97 (C05-interp-update-leak) start() also forgets the interpolation state of the old stream (`next_event`,
    # `interpolating_event`): fields of the interpolating branch, which Sched/Model.v (the non-interpolating track) does not have -
    # accepted by exact text and skipped, like the else branch of Track.tick (their model is Sched/Interp.v / UpdateMode.v)
    if [ast.unparse(x) for x in rest[-2:]] == START_INTERP_RESET:
        rest = rest[:-2]
    # interpolate: None (the model is the non-interpolating track)
    term = b.run(rest, {"self": ("track", "self"), "events": ("stream", "events"), "interpolate": ("none", "None")}, lambda e: e["self"][1])
    return term, lines_of(fn)


class UpdateBlock(TBlock):
    """Track.update: result (timeline, self); `self.timeline` is the record `timeline`"""

    def special_expr(self, n, env):
        src = ast.unparse(n)
        if src in ("self.timeline.defaults.quantize", "self.timeline.defaults.delay"):
            return ("int", "(%s %s)" % ("def_q" if src.endswith("quantize") else "def_d", env["timeline"][1]))
        if src == LATENCY_TEST:
            return ("bool", "(0 <? latency cfg)")
        if src == LATENCY_BEATS:
            return ("int", "(latency cfg)")
        if isinstance(n, ast.Compare) and len(n.ops) == 1 and isinstance(n.ops[0], ast.Eq) and is_zero(n.comparators[0]):
            a = self.ex(n.left, env)
            if a[0] == "int":
                return ("bool", "(%s =? 0)" % a[1])
        return TBlock.special_expr(self, n, env)

    def classify(self, st, env):
        src = ast.unparse(st)
        if src == "self.start(events, interpolate=interpolate)":
            return ["self"], lambda env, go: self.rebind("self", "track", "(src_track_start %s %s)" % (env["self"][1], env["events"][1]), env, go)
        if isinstance(st, ast.Expr) and isinstance(st.value, ast.Call) and ast.unparse(st.value.func) == "self.timeline._schedule_action":
            c = st.value
            kw = {k.arg: k.value for k in c.keywords}
            if c.args or sorted(kw) != ["delay", "function", "quantize"] or ast.unparse(kw["function"]) != START_CLOSURE:
                raise Reject("call of _schedule_action not understood: " + src)

            def render(env, go):
                q, d = self.ex(kw["quantize"], env), self.ex(kw["delay"], env)
                if q[0] != "int" or d[0] != "int" or env.get("interpolate", ("?",))[0] != "none":
                    raise Reject("call of _schedule_action not understood: " + src)
                tl = env["timeline"][1]
                # Timeline._schedule_action appends Action(<scheduled time>, function): the time is Model.v sched_time (the source's
                # expression is tied to it in Sched/SchedTimeSrc.v); the closure `lambda: self.start(events, ...)` is AStart id events
                return self.rebind("timeline", "tl", "(w_actions %s ((actions %s) ++ [AStart (sched_time (now %s) %s %s) (t_id %s) %s]))"
                                   % (tl, tl, tl, q[1], d[1], env["self"][1], env["events"][1]), env, go)
            return ["timeline"], render
        return TBlock.classify(self, st, env)


def gen_track_update(cls):
    fn = method(cls, "update")
    forbid(fn, BAD + (ast.Try, ast.While, ast.For, ast.Return, ast.Raise))
    a = fn.args
    if [x.arg for x in a.args] != ["self", "events", "quantize", "delay", "interpolate", "count"] or [ast.unparse(d) for d in a.defaults] != ["None"] * 4 \
            or a.vararg or a.kwarg or a.kwonlyargs:
        raise Reject("Track.update: unexpected signature")
    b = UpdateBlock(fn, reserved=(RESERVED | {"timeline", "latency", "def_q", "def_d", "sched_time", "src_track_start"}) - {"c"})
    env = {"self": ("track", "self"), "timeline": ("tl", "timeline"), "events": ("stream", "events"), "quantize": ("optint", "quantize"),
           "delay": ("optint", "delay"), "interpolate": ("none", "None"), "count": ("optint", "count")}
    term = b.run(body_of(fn), env, lambda e: "(%s, %s)" % (e["timeline"][1], e["self"][1]))
    return term, lines_of(fn)


# ---- Timeline.schedule ---------------------------------------------------------------------------------------------------------------
SCHEDULE_PARAMS = ["self", "params", "quantize", "delay", "count", "interpolate", "output_device", "remove_when_done", "name", "replace", "track_index"]
SCHEDULE_DEFAULTS = ["None", "None", "None", "None", "INTERPOLATION_NONE", "None", "True", "None", "True", "None"]
SCHEDULE_SKIP = ["if output_device is None:\n    output_device = self.output_devices[0]"]
NEW_TRACK = "track = Track(self, max_event_count=count, interpolate=interpolate, output_device=output_device, remove_when_done=remove_when_done, name=name)"
UPDATE_EXISTING = "existing_track.update(params, quantize=quantize, delay=delay, interpolate=interpolate, count=count)"
UPDATE_NEW = "track.update(copy.copy(params), quantize=quantize, delay=delay)"


class ScheduleBlock(OutcomeBlock):
    EXC = {"TrackLimitReachedException": "RTrackLimit"}

    def on_return(self, v, env):
        if v[0] != "track":
            raise Reject("schedule returns a %s" % v[0])
        return "(%s, ROk)" % env["self"][1]

    def special_expr(self, n, env):
        src = ast.unparse(n)
        if src == "self.max_tracks":
            return ("int", "(max_tracks cfg)")
        if isinstance(n, ast.Call) and isinstance(n.func, ast.Name) and n.func.id == "len" and len(n.args) == 1 and not n.keywords:
            l = self.ex(n.args[0], env)
            if l[0].startswith("list:"):
                return ("int", "(Z.of_nat (List.length %s))" % l[1])
        if isinstance(n, ast.Compare) and len(n.ops) == 1 and isinstance(n.ops[0], ast.Eq) and is_attr(n.left, attr="name") \
                and env.get(n.left.value.id, ("?",))[0] == "track":
            b = self.ex(n.comparators[0], env)
            if b[0] != "int":
                raise Reject("comparison of a name with a %s" % b[0])
            return ("bool", "(name_is %s %s)" % (env[n.left.value.id][1], b[1]))
        return OutcomeBlock.special_expr(self, n, env)

    def fork(self, test, env, kt, kf):
        if ast.unparse(test) == "self.max_tracks":          # truth value of an int
            return "if negb (max_tracks cfg =? 0) then %s else %s" % (kt(env), kf(env))
        if ast.unparse(test) == "isinstance(params, Track)":  # the model's schedule receives an event stream, never a Track
            return kf(env)
        return OutcomeBlock.fork(self, test, env, kt, kf)

    def classify(self, st, env):
        src = ast.unparse(st)
        if src in SCHEDULE_SKIP or is_log(st):
            return [], lambda env, go: go(env)
        if src == NEW_TRACK:
            def render(env, go):
                e2 = dict(env)
                e2["track"] = ("track", "track")
                return "let track := new_track (next_id %s) %s %s %s in\n  %s" % (
                    env["self"][1], self.coerce(env["count"], "optint"), env["remove_when_done"][1], self.coerce(env["name"], "optint"), go(e2))
            return ["track"], render
        if src in (UPDATE_EXISTING, UPDATE_NEW):
            x = "existing_track" if src == UPDATE_EXISTING else "track"

            def render(env, go):
                if env.get(x, ("?",))[0] != "track":
                    raise Reject("call not understood: " + src)
                e2 = {key: val for key, val in env.items() if not key.startswith("self.") and not key.startswith(x + ".")}
                e2["self"], e2[x] = ("tl", "self"), ("track", x)
                cnt = self.coerce(env["count"], "optint") if src == UPDATE_EXISTING else "None"
                return "let '(self, %s) := src_track_update cfg %s %s %s %s %s %s in\n  %s" % (
                    x, env["self"][1], env[x][1], env["params"][1], self.coerce(env["quantize"], "optint"), self.coerce(env["delay"], "optint"), cnt, go(e2))
            return ["self", x], render
        if src == "existing_track.unmute()":
            return ["existing_track"], lambda env, go: self.rebind("existing_track", "track", "(src_track_unmute %s)" % env["existing_track"][1], env, go)
        if src == "self.tracks.append(track)":
            return ["self"], lambda env, go: self.rebind("self", "tl", "(register_track %s %s)" % (env["self"][1], env["track"][1]), env, go)
        if isinstance(st, ast.For) and ast.unparse(st.iter) == "self.tracks" and isinstance(st.target, ast.Name) and not st.orelse:
            # `for x in self.tracks: if <test>: <mutate x>; return x`: the first element that passes the test
            x = st.target.id
            if not (len(st.body) == 1 and isinstance(st.body[0], ast.If) and not st.body[0].orelse and isinstance(st.body[0].body[-1], ast.Return)
                    and ast.unparse(st.body[0].body[-1]) == "return " + x):
                raise Reject("loop over self.tracks not understood")

            def render(env, go):
                inner = {key: val for key, val in env.items() if not key.startswith("self.")}
                inner["self"], inner[x] = ("tl", "self"), ("track", x)
                c, g = self.ex_g(st.body[0].test, inner)
                if c[0] != "bool" or g != "true":
                    raise Reject("test not understood")
                hit = self.block(list(st.body[0].body[:-1]), inner, lambda e: "(upd_track %s %s, true)" % (e["self"][1], e[x][1]), 1)
                fun = "(fun (st0 : timeline_t * bool) (%s : track_t) => let '(self, done) := st0 in if done then (self, done) else if %s then %s else (self, done))" % (x, c[1], hit)
                e2 = {key: val for key, val in env.items() if not key.startswith("self.")}
                e2["self"] = ("tl", "self")
                return "let '(self, done) := fold_left %s (tracks %s) (%s, false) in\n  if done then (self, ROk) else %s" % (fun, env["self"][1], env["self"][1], go(e2))
            return ["self"], render
        return OutcomeBlock.classify(self, st, env)


def gen_schedule(cls):
    fn = method(cls, "schedule")
    forbid(fn, BAD + (ast.Try, ast.Lambda, ast.While))
    a = fn.args
    if [x.arg for x in a.args] != SCHEDULE_PARAMS or [ast.unparse(d) for d in a.defaults] != SCHEDULE_DEFAULTS or a.vararg or a.kwarg or a.kwonlyargs:
        raise Reject("Timeline.schedule: unexpected signature")
    if not any(isinstance(x, ast.Assign) and ast.unparse(x) == "sched = schedule" for x in cls.body):
        pass
    b = ScheduleBlock(fn, reserved=(RESERVED | {"done", "st0", "name_is", "register_track", "new_track", "upd_track", "max_tracks", "next_id"}) - {"c"})
    env = {"self": ("tl", "self"), "params": ("stream", "params"), "quantize": ("optint", "quantize"), "delay": ("optint", "delay"), "count": ("optint", "count"),
           "interpolate": ("none", "None"), "output_device": ("none", "None"), "remove_when_done": ("bool", "remove_when_done"),
           "name": ("optint", "name"), "replace": ("bool", "replace"), "track_index": ("none", "None")}

    def fall_off(e):
        raise Reject("schedule can end without returning the track")
    term = b.run(body_of(fn), env, fall_off)
    return term, lines_of(fn)


# ---- Track.perform_event: guards, dispatch, control / program change -----------------------------------------------------------------
EVENT = {"active": ("e_active", "bool"), "duration": ("e_dur", "time")}
FIELDS["event"] = EVENT
KIND_OF_TYPE = {"EVENT_TYPE_ACTION": ("KAction", ["cb"], {}),
                "EVENT_TYPE_CONTROL": ("KControl", ["control", "value", "channel"], {"control": "control", "value": "value", "channel": "channel"}),
                "EVENT_TYPE_PROGRAM_CHANGE": ("KProgram", ["program_change", "channel"], {"program_change": "program_change", "channel": "channel"}),
                "EVENT_TYPE_NOTE": ("KNote", ["vs"], {})}
OUT_OF_MODEL_TYPES = {"EVENT_TYPE_OSC", "EVENT_TYPE_SUPERCOLLIDER", "EVENT_TYPE_PATCH_CREATE", "EVENT_TYPE_PATCH_SET", "EVENT_TYPE_PATCH_TRIGGER"}
EVENT_CALLBACKS = ["if self.timeline.on_event_callback:\n    self.timeline.on_event_callback(self, event)",
                   "if self.on_event_callbacks:\n    for callback in self.on_event_callbacks:\n        callback(event)"]
DEVICE_CALLS = {"control": ("CControl", 3), "program_change": ("CProgram", 2), "note_on": ("CNoteOn", 3)}
# the note branch: statements around the per-voice body, accepted by exact text (resolution of the event's values into voices,
# devices with an `event` method, pitch bend: not in the model)
NOTE_BRANCH = ["if hasattr(self.output_device, 'event') and callable(getattr(self.output_device, 'event')):", "if type(event.amplitude) is tuple or event.amplitude > 0:"]
NOTE_GUARDED = ["notes = event.note if hasattr(event.note, '__iter__') else [event.note]", "for index, note in enumerate(notes):",
                "if event.pitchbend is not None:\n    self.output_device.pitch_bend(event.pitchbend, channel)"]
VOICE_RESOLUTION = ["amp = event.amplitude[index] if isinstance(event.amplitude, tuple) else event.amplitude",
                    "channel = event.channel[index] if isinstance(event.channel, tuple) else event.channel",
                    "gate = event.gate[index] if isinstance(event.gate, tuple) else event.gate"]


class PerformBlock(TBlock):
    def outcome(self, env, what):
        return "(%s, %s, %s, %s)" % (env["self"][1], env["calls"][1], env["n"][1], what)

    def on_return(self, v, env):
        if v[0] != "none":
            raise Reject("return of a value")
        return self.outcome(env, "PfOk")

    def on_device_fail(self, env):
        return self.outcome(env, "PfRaise")

    def types_of(self, test):
        """event.type == EVENT_TYPE_X [or event.type == EVENT_TYPE_Y] -> names"""
        parts = test.values if isinstance(test, ast.BoolOp) and isinstance(test.op, ast.Or) else [test]
        out = []
        for t in parts:
            if not (isinstance(t, ast.Compare) and len(t.ops) == 1 and isinstance(t.ops[0], ast.Eq) and ast.unparse(t.left) == "event.type"
                    and isinstance(t.comparators[0], ast.Name)):
                return None
            out.append(t.comparators[0].id)
        return out

    def classify(self, st, env):
        if is_log(st) or ast.unparse(st) in EVENT_CALLBACKS:       # no event callback is registered in the model
            return [], lambda env, go: go(env)
        if isinstance(st, ast.Expr) and isinstance(st.value, ast.Call) and isinstance(st.value.func, ast.Attribute) and not st.value.keywords \
                and ast.unparse(st.value.func.value) == "self.output_device" and st.value.func.attr in DEVICE_CALLS:
            c = st.value
            ctor, arity = DEVICE_CALLS[c.func.attr]

            def render(env, go):
                args = [self.ex(a, env) for a in c.args]
                if len(args) != arity or any(a[0] != "int" for a in args):
                    raise Reject("device call not understood: " + ast.unparse(c))
                e_ok, e_bad = dict(env), dict(env)
                e_ok["calls"], e_ok["n"] = ("calls", "calls"), ("nat", "n")
                e_bad["n"] = ("nat", "(S %s)" % env["n"][1])
                # the scripted device fault of the model: the call with that number raises instead of being delivered
                return ("if dev_emit fail %s then let calls := (%s ++ [%s %s]) in\n  let n := (S %s) in\n  %s else %s"
                        % (env["n"][1], env["calls"][1], ctor, " ".join(a[1] for a in args), env["n"][1], go(e_ok), self.on_device_fail(e_bad)))
            return ["calls", "n"], render
        return TBlock.classify(self, st, env)

    def special_stmt(self, st, rest, env, go):
        if isinstance(st, ast.If) and self.types_of(st.test) is not None:
            arms, node, seen = [], st, set()
            while True:
                names = self.types_of(node.test)
                if names is None:
                    raise Reject("dispatch on event.type not understood: " + ast.unparse(node.test))
                for nm in names:
                    if nm in seen or nm not in set(KIND_OF_TYPE) | OUT_OF_MODEL_TYPES:
                        raise Reject("event type %s" % nm)
                    seen.add(nm)
                    if nm in KIND_OF_TYPE:
                        if len(names) != 1:
                            raise Reject("a kind of the model shares its branch")
                        arms.append((nm, node.body))
                if len(node.orelse) == 1 and isinstance(node.orelse[0], ast.If):
                    node = node.orelse[0]
                    continue
                if not (len(node.orelse) == 1 and isinstance(node.orelse[0], ast.Raise)):
                    raise Reject("the dispatch on event.type does not end in `else: raise`")
                break
            if [a for a, _ in arms] != list(KIND_OF_TYPE) and sorted(a for a, _ in arms) != sorted(KIND_OF_TYPE):
                raise Reject("kinds dispatched: %r" % [a for a, _ in arms])
            out = []
            for nm, body in arms:
                ctor, binders, attrs = KIND_OF_TYPE[nm]
                if nm == "EVENT_TYPE_ACTION":
                    t = "perform_action %s %s %s cb" % (env["self"][1], env["calls"][1], env["n"][1])
                elif nm == "EVENT_TYPE_NOTE":
                    t = "perform_note_with (src_track_perform_voice fail nowT) %s %s %s vs" % (env["self"][1], env["calls"][1], env["n"][1])
                else:
                    e2 = dict(env)
                    for a, b in attrs.items():
                        e2["event." + a] = ("int", b)
                    t = self.block(list(body) + list(rest), e2, self.k_now, 1)
                out.append("  | %s %s => %s" % (ctor, " ".join(binders), t))
            order = {"KNote": 0, "KAction": 1, "KControl": 2, "KProgram": 3}
            out.sort(key=lambda s_: order[s_.split()[1]])
            return "match e_kind %s with\n%s\n  end" % (env["event"][1], "\n".join(out))
        return TBlock.special_stmt(self, st, rest, env, go)


class VoiceBlock(PerformBlock):
    """the body of the voice loop of the note branch: state (self, calls, n, ok)"""

    def on_device_fail(self, env):
        return "(%s, %s, %s, false)" % (env["self"][1], env["calls"][1], env["n"][1])

    def special_expr(self, n, env):
        src = ast.unparse(n)
        if src == "event.duration * gate" and env.get("gate", ("?",))[0] == "int":
            return ("time", env["gate"][1])           # v_glen is duration * gate
        if src == "self.timeline.current_time":
            return ("time", "nowT")
        if isinstance(n, ast.Call) and isinstance(n.func, ast.Name) and n.func.id == "NoteOffEvent" and len(n.args) == 4 and not n.keywords:
            t, nt, ch, ab = [self.ex(a, env) for a in n.args]
            if (t[0], nt[0], ch[0], ab[0]) != ("time", "int", "int", "time"):
                raise Reject("NoteOffEvent(...) not understood: " + src)
            return ("noteoff", "(mkNO %s %s %s %s)" % (t[1], ab[1], nt[1], ch[1]))
        return PerformBlock.special_expr(self, n, env)


def first_line(st):
    return ast.unparse(st).split("\n")[0]


def gen_perform_voice(note_body):
    """note_body: the statements of the `elif event.type == EVENT_TYPE_NOTE:` branch -> term of the per-voice step"""
    if len(note_body) != 2 or [first_line(x) for x in note_body] != NOTE_BRANCH or not isinstance(note_body[0].body[-1], ast.Return) or note_body[1].orelse:
        raise Reject("note branch: structure not understood")
    inner = note_body[1].body
    if len(inner) != 3 or first_line(inner[0]) != NOTE_GUARDED[0] or first_line(inner[1]) != NOTE_GUARDED[1] or ast.unparse(inner[2]) != NOTE_GUARDED[2] \
            or not isinstance(inner[1], ast.For) or inner[1].orelse:
        raise Reject("note branch: structure not understood")
    loop = inner[1].body
    if len(loop) != 4 or [ast.unparse(x) for x in loop[:3]] != VOICE_RESOLUTION or not isinstance(loop[3], ast.If) or loop[3].orelse:
        raise Reject("voice loop: structure not understood")
    fn = ast.FunctionDef(name="voice_body", args=ast.arguments(posonlyargs=[], args=[], kwonlyargs=[], kw_defaults=[], defaults=[]), body=[loop[3]], decorator_list=[])
    b = VoiceBlock(fn, reserved=(RESERVED | {"fail", "nowT", "v", "dev_emit", "mkNO", "v_note", "v_amp", "v_chan", "v_glen"}) - {"c"})
    env = {"self": ("track", "self"), "calls": ("calls", "calls"), "n": ("nat", "n"), "note": ("int", "(v_note v)"), "amp": ("optint", "(v_amp v)"),
           "channel": ("int", "(v_chan v)"), "gate": ("optint", "(v_glen v)"), "event": ("event", "event")}
    return b.run([loop[3]], env, lambda e: "(%s, %s, %s, true)" % (e["self"][1], e["calls"][1], e["n"][1]))



def gen_perform_event(cls):
    fn = method(cls, "perform_event")
    signature(fn, 2)
    if fn.args.args[1].arg != "event":
        raise Reject("perform_event: parameter name")
    # the branches that are not translated (action, note, and the event types the model does not have) are emptied first:
    # their text is not read at all (Sched/SrcGlue.v perform_action / perform_note stand for the first two)
    import copy as _copy
    voice = None
    for node in ast.walk(fn):
        if isinstance(node, ast.If) and PerformBlock.types_of(None, node.test) == ["EVENT_TYPE_NOTE"]:
            voice = gen_perform_voice(node.body)
    if voice is None:
        raise Reject("perform_event: no note branch")
    fn = _copy.deepcopy(fn)
    for node in ast.walk(fn):
        if isinstance(node, ast.If) and PerformBlock.types_of(None, node.test) is not None:
            if not any(t in ("EVENT_TYPE_CONTROL", "EVENT_TYPE_PROGRAM_CHANGE") for t in PerformBlock.types_of(None, node.test)):
                node.body = [ast.Pass()]
    b = PerformBlock(fn, reserved=(RESERVED | {"fail", "nowT", "n", "cb", "vs", "perform_action", "perform_note", "dev_emit"}) - {"c"})
    env = {"self": ("track", "self"), "event": ("event", "event"), "calls": ("calls", "[]"), "n": ("nat", "n")}
    term = b.run(body_of(fn), env, lambda e: b.outcome(e, "PfOk"))
    return voice, term, lines_of(fn)


# ---- Track.tick (the non-interpolating branch) ------------------------------------------------------------------------------------
TRACK_ADVANCE = "self.current_time, self._tick_grid = advance_on_tick_grid(self.current_time, self.timeline.ticks_per_beat, self._tick_grid)"
NON_INTERPOLATING = "self.interpolate is None or self.interpolate == INTERPOLATION_NONE"


class TrackTickBlock(TBlock):
    """Track.tick up to the end of the try body: result (self, calls, n, ticked), the shape of Model.v track_tick_a.
    self.current_event is not a field of the model's record: it is the variable `current_event : option event` (None = the
    value an earlier tick left there, which this branch never reads: the loop that assigns it runs at least once because
    the `if` around it has the same test - checked)."""

    def outcome(self, env, what):
        return "(%s, %s, n, %s)" % (env["self"][1], env["calls"][1], what)

    def on_return(self, v, env):
        if v[0] != "none" or self.in_try:
            raise Reject("return not understood")
        return self.outcome(env, "TNotStarted")

    in_try = 0
    guard = None

    def special_expr(self, n, env):
        if isinstance(n, ast.Call) and isinstance(n.func, ast.Name) and n.func.id == "float" and len(n.args) == 1 and not n.keywords:
            a = self.ex(n.args[0], env)
            if a[0] != "time":
                raise Reject("float() of a %s" % a[0])
            return a
        if isinstance(n, ast.Attribute) and ast.unparse(n.value) == "self.current_event" and n.attr == "duration":
            ev = env.get("self.current_event")
            if ev is None or ev[0] != "event":
                raise Reject("self.current_event is read before it is assigned")
            return ("time", "(e_dur %s)" % ev[1])
        return TBlock.special_expr(self, n, env)

    def special_assigned(self, st):
        if isinstance(st, (ast.While, ast.Try)):
            return ["self", "calls"]
        return TBlock.special_assigned(self, st)

    def special_stmt(self, st, rest, env, go):
        if isinstance(st, ast.Try) and not self.in_try:
            if st.orelse or st.finalbody or len(st.handlers) != 1 or ast.unparse(st.handlers[0].type) != "StopIteration" or st.handlers[0].name:
                raise Reject("try statement not understood")
            self.handler, self.after_try = st.handlers[0].body, rest
            self.in_try += 1
            t = self.block(list(st.body), env, lambda e: self.outcome(e, "TNormal"), 1)
            self.in_try -= 1
            return t
        if isinstance(st, ast.If) and ast.unparse(st.test) == NON_INTERPOLATING and self.in_try:
            # the model is the non-interpolating branch (interpolate is None / INTERPOLATION_NONE): the else branch is Sched/Interp.v's
            if rest:
                raise Reject("statements after the interpolation switch")
            return self.block(list(st.body), env, self.k_now, 1)
        if isinstance(st, ast.If) and st.body and isinstance(st.body[0], ast.While):
            self.guard = ast.dump(st.test)
            return None
        if isinstance(st, ast.While) and self.in_try:
            if st.orelse or self.guard != ast.dump(st.test):
                raise Reject("the while loop is not guarded by an if with the same test")
            self.guard = None
            if [ast.unparse(b).split(" = ")[0].split(" += ")[0] for b in st.body] != ["self.current_event", "self.next_event_time"] \
                    or ast.unparse(st.body[0]) != "self.current_event = self.get_next_event()":
                raise Reject("loop body not understood")
            c, g = self.ex_g(st.test, {"self": ("track", "self")})
            if c[0] != "bool" or g != "true":
                raise Reject("while test not understood")
            inner = {"self": ("track", "self"), "self.current_event": ("event", "ev")}
            body = self.block(list(st.body[1:]), inner, lambda e: "src_track_tick_loop fuel %s (Some ev)" % e["self"][1], 1)
            self.aux.append(
                "(* the loop `while %s:` of Track.tick; get_next_event may raise *)\n"
                "Fixpoint src_track_tick_loop (fuel : nat) (self : track_t) (current_event : option event) : pulled * track_t :=\n"
                "  match fuel with\n  | O => (POutOfFuel, self)\n  | S fuel =>\n  if %s then\n"
                "    match src_track_get_next_event self with\n    | (GStop, self) => (PStop, self)\n    | (GRaise, self) => (PRaise, self)\n"
                "    | (GEvent ev, self) => %s\n    end\n  else (PDone current_event, self)\n  end." % (ast.unparse(st.test), c[1], body))
            e2 = {key: val for key, val in env.items() if not key.startswith("self.")}
            e2["self"] = ("track", "self")
            e2["current_event"] = ("optevent", "current_event")
            return ("match src_track_tick_loop (fuel cfg) %s None with\n  | (PDone current_event, self) => %s\n  | (PStop, self) => %s\n  | (PRaise, self) => %s\n  | (POutOfFuel, self) => %s\n  end"
                    % (env["self"][1], go(e2), self.outcome(e2, "TStop"), self.outcome(e2, "TRaise"), self.outcome(e2, "TOutOfFuel")))
        if ast.unparse(st) == "self.perform_event(self.current_event)" and self.in_try:
            if env.get("current_event", ("?",))[0] != "optevent":
                raise Reject("perform_event of an event that the loop did not deliver")
            e2 = dict(env)
            e2["self"], e2["calls"] = ("track", "self"), ("calls", "calls")
            # Model.v perform_event (trusted glue): the device calls, or the request to run a callback
            return ("match current_event with\n  | None => %s\n  | Some ev =>\n    let '(self, c, n, pf) := src_track_perform_event (dev_fail cfg) nowT %s ev n in\n    let calls := (%s ++ c) in\n"
                    "    match pf with PfOk => %s | PfRaise => %s | PfCallback cb => %s end\n  end"
                    % (go(env), env["self"][1], env["calls"][1], go(e2), self.outcome(e2, "TRaise"), self.outcome(e2, "TCallback cb")))
        return TBlock.special_stmt(self, st, rest, env, go)


class TrackTickEndBlock(TBlock):
    def classify(self, st, env):
        if ast.unparse(st) == TRACK_ADVANCE:
            return ["self"], lambda env, go: self.rebind("self", "track", "(w_t_cur %s ((t_cur %s) + tau cfg))" % (env["self"][1], env["self"][1]), env, go)
        return TBlock.classify(self, st, env)


def gen_track_tick(cls):
    fn = method(cls, "tick")
    forbid(fn, BAD + (ast.Lambda,))
    signature(fn, 1)
    a = TrackTickBlock(fn, reserved=RESERVED | {"ev", "fuel", "nowT", "n", "pf", "cb", "src_track_perform_event", "current_event"})
    a.aux = []
    first = a.run(body_of(fn), {"self": ("track", "self"), "calls": ("calls", "[]")}, lambda e: (_ for _ in ()).throw(Reject("Track.tick has no try statement")))
    if len(a.aux) != 1:
        raise Reject("Track.tick: the event loop was not found")
    # the second half: `except StopIteration:` body (when a StopIteration was raised), then the statements after the try
    b = TrackTickEndBlock(fn)
    env = {"self": ("track", "self")}
    after = lambda e: b.run(list(a.after_try), e, lambda e2: e2["self"][1])
    if not a.after_try:
        raise Reject("Track.tick: nothing after the try statement")
    second = "if stopped then %s else %s" % (b.run(list(a.handler) + list(a.after_try), env, lambda e: e["self"][1]), after(env))
    return a.aux[0], first, second, lines_of(fn)


def writers():
    out = []
    for f in TRACK_ORDER:
        if f in TRACK_TYPES:
            out.append("Definition w_%s (o : track) (x : %s) : track :=\n  mkTrack %s." % (
                f, TRACK_TYPES[f], " ".join("x" if g == f else "(%s o)" % g for g in TRACK_ORDER)))
    for f in TL_ORDER:
        if f in TL_TYPES:
            out.append("Definition w_%s (o : timeline) (x : %s) : timeline :=\n  mkTL %s." % (
                f, TL_TYPES[f], " ".join("x" if g == f else "(%s o)" % g for g in TL_ORDER)))
    return "\n".join(out)


def main(out_path):
    ttree, ltree = load("isobar/timelines/track.py"), load("isobar/timelines/timeline.py")
    track, tl = find_class(ttree, "Track"), find_class(ltree, "Timeline")
    # the dataclasses whose == the reading relies on
    for tree, name, fields in ((ttree, "NoteOffEvent", ["timestamp", "note", "channel", "timeline_timestamp"]), (ltree, "Action", ["time", "function"])):
        c = find_class(tree, name)
        if [ast.unparse(d) for d in c.decorator_list] != ["dataclass"] or c.bases or \
                [s.target.id for s in c.body if isinstance(s, ast.AnnAssign) and isinstance(s.target, ast.Name)] != fields or \
                any(isinstance(s, (ast.FunctionDef, ast.Assign)) for s in c.body):
            raise Reject("dataclass %s is not the plain one the translation assumes" % name)
    for c in (track,):
        if any(isinstance(s, ast.FunctionDef) and s.name in ("__eq__", "__hash__", "__contains__") for s in c.body) or c.bases:
            raise Reject("Track defines its own equality or has base classes")
    defs = []
    for name, nargs, kinds in (("mute", 1, ()), ("unmute", 1, ()), ("nudge", 2, ("time",))):
        params, term, lines = simple_track_method(track, name, nargs, kinds)
        defs.append("(* Track.%s, track.py lines %s *)\nDefinition src_track_%s (self : track_t)%s : track_t :=\n  %s." % (
            name, lines, name, "".join(" (%s : Z)" % p for p in params), term))
    term, lines = gen_process_note_offs(track)
    defs.append("(* Track.process_note_offs, track.py lines %s *)\nDefinition src_track_process_note_offs (self : track_t) : track_t * list call :=\n  %s." % (lines, term))
    term, lines = gen_get_next_event(track)
    defs.append("(* Track.get_next_event, track.py lines %s *)\nDefinition src_track_get_next_event (self : track_t) : got * track_t :=\n  %s." % (lines, term))
    p, term, lines = gen_release_pending(tl)
    defs.append("(* Timeline._release_pending_notes, timeline.py lines %s *)\nDefinition src_timeline_release_pending_notes (self : timeline_t) (%s : track_t) : timeline_t * track_t :=\n  %s." % (lines, p, term))
    p, term, lines = gen_unschedule(tl)
    defs.append("(* Timeline.unschedule, timeline.py lines %s *)\nDefinition src_timeline_unschedule (self : timeline_t) (%s : track_t) : timeline_t * opres :=\n  %s." % (lines, p, term))
    term, lines = gen_clear(tl)
    defs.append("(* Timeline.clear, timeline.py lines %s *)\nDefinition src_timeline_clear (self : timeline_t) : timeline_t * opres :=\n  %s." % (lines, term))
    aux, term, lines = gen_timeline_tick(tl)
    defs.append("(* Timeline.tick, timeline.py lines %s: the bodies of its three loops (note-offs, actions, tracks) *)\n%s" % (lines, aux))
    defs.append("(* Timeline.tick, timeline.py lines %s *)\nDefinition src_timeline_tick (cfg : config) (self : timeline_t) : timeline_t * list call * opres :=\n  %s." % (lines, term))
    term, lines = gen_track_start(track)
    defs.append("(* Track.start, track.py lines %s (events: an already built stream; interpolate=None) *)\nDefinition src_track_start (self : track_t) (events : stream) : track_t :=\n  %s." % (lines, term))
    term, lines = gen_track_update(track)
    defs.append("(* Track.update, track.py lines %s (times as exact integers; interpolate=None) *)\n"
                "Definition src_track_update (cfg : config) (timeline : timeline_t) (self : track_t) (events : stream) (quantize delay count : option Z) : timeline_t * track_t :=\n  %s." % (lines, term))
    term, lines = gen_schedule(tl)
    defs.append("(* Timeline.schedule, timeline.py lines %s (params: an already built stream; interpolate, output_device, track_index: defaults) *)\n"
                "Definition src_timeline_schedule (cfg : config) (self : timeline_t) (params : stream) (quantize delay count : option Z) (remove_when_done : bool)"
                " (name : option Z) (replace : bool) : timeline_t * opres :=\n  %s." % (lines, term))
    voice, term, lines = gen_perform_event(track)
    defs.append("(* Track.perform_event, note branch: the body of the voice loop (one voice: note, amp, channel, duration * gate) *)\n"
                "Definition src_track_perform_voice (fail : option nat) (nowT : Z) (st0 : track_t * list call * nat * bool) (v : voice) : track_t * list call * nat * bool :=\n"
                "  let '(self, calls, n, ok) := st0 in\n  if ok then %s else st0." % voice)
    defs.append("(* Track.perform_event, track.py lines %s: the guards, the dispatch on event.type, the control and program-change branches *)\n"
                "Definition src_track_perform_event (fail : option nat) (nowT : Z) (self : track_t) (event : event) (n : nat) : track_t * list call * nat * performed :=\n  %s." % (lines, term))
    loop, first, second, lines = gen_track_tick(track)
    defs.append(loop)
    defs.append("(* Track.tick, track.py lines %s: from the start to the end of the try body (non-interpolating branch) *)\n"
                "Definition src_track_tick_a (cfg : config) (nowT : Z) (self : track_t) (n : nat) : track_t * list call * nat * ticked :=\n  %s." % (lines, first))
    defs.append("(* Track.tick: the handler `except StopIteration:` (if stopped) and the statements after the try *)\n"
                "Definition src_track_tick_b (cfg : config) (self : track_t) (stopped : bool) : track_t :=\n  %s." % second)
    text = ("(* GENERATED by harness/gen_tables_track.py from the source text of isobar/timelines/track.py and timeline.py.  Do not edit.\n"
            "   Method bodies rendered over the record types of Sched/Model.v; reading of the data: Sched/SrcGlue.v, docs/TRANSLATOR3.md. *)\n"
            "From Isobar Require Import Base.Prelude Sched.Model Sched.SrcGlue.\nLocal Open Scope Z_scope.\n\n"
            "(* field writes: obj.f = x *)\n" + writers() + "\n\n" + "\n\n".join(defs) + "\n")
    write_if_changed(out_path, text, "tables-track")


if __name__ == "__main__":
    main_wrap("gen_tables_track", main)

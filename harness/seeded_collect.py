#!/venv/bin/python
"""developer tool: take the changes written by fresh sub-agents (/tmp/seed/out/<ID>-<x>/{patch.diff,demo.py,notes.md})
into seeded/<ID>-<x>/ with a meta.json; harness/seeded_run.py then confirms each and runs the check against it."""
import json, os, shutil, sys

VERIF = os.path.dirname(os.path.dirname(os.path.abspath(__file__)))
SRC = "/tmp/seed/out"


def main():
    request = sys.argv[1] if len(sys.argv) > 1 else "fourth request"
    only = sys.argv[2:]          # property ids whose authors have finished (all, when none is given)
    for nm in sorted(os.listdir(SRC)):
        if only and nm.split("-")[0] not in only:
            continue
        s = os.path.join(SRC, nm)
        d = os.path.join(VERIF, "seeded", nm)
        if not all(os.path.exists(os.path.join(s, f)) for f in ("patch.diff", "demo.py", "notes.md")):
            print("incomplete:", nm); continue
        if os.path.exists(os.path.join(d, "meta.json")):
            continue
        os.makedirs(d, exist_ok=True)
        for f in ("patch.diff", "demo.py", "notes.md"):
            shutil.copy(os.path.join(s, f), os.path.join(d, f))
        notes = open(os.path.join(d, "notes.md")).read()
        meta = {"property": nm.split("-")[0], "id": nm,
                "source": "fresh sub-agent (%s) given only the property record, a scratch worktree of /repo and one-line "
                          "descriptions of the changes already collected for the property (no access to /verif)" % request,
                "needs_to_manifest": "see notes.md", "notes_head": notes[:600], "runs": []}
        json.dump(meta, open(os.path.join(d, "meta.json"), "w"), indent=1)
        print("collected", nm)


if __name__ == "__main__":
    main()

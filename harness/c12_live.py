"""C12, two further strata (used by c12.py):

(1) key order of a list of event dicts: PDict([row0, row1, ...]) where the later dicts hold the same keys inserted in other
    orders (equal as dicts) must describe the event stream of the dict of one-shot sequences.  Theorems
    C12_pdict_rows_key_order / C12_pdict_key_order (Pat/ParamLiveProofs.v); run on isobar, judged by a plain-Python oracle
    (row i of the stream is row i, by key) and compared with the Coq model (Script.check_trace).

(2) PRef re-targeting observed THROUGH a timeline track: event dicts holding references (directly under a key, or as an
    operand of an arithmetic pattern under the key) reach a running track by a fresh Timeline.schedule(), by Track.update()
    and by Timeline.schedule(name=...) over the running track of that name; the caller then re-targets the references it
    holds; the notes / velocities reaching the output device are compared, beat by beat, with a plain-Python reference
    interpreter written from the property text ("re-targeting a pattern reference takes effect from the very next step")
    and with the Coq model of Pat/ParamLive.v (lstrace), theorems C12_live_*."""
from pat_common import *

LIVE_HEADER = HEADER + """From Isobar Require Import Pat.Param Pat.ParamLive.
Definition lvtrace := lstrace Val.binop LMAX (Z.to_nat 400) [].
Definition lvagrees (h : list lsop) (expected : list (outcome val)) : bool := list_eqb obs_eqb (lvtrace h) expected.
Definition lvunknown (h : list lsop) : bool := existsb unknown (lvtrace h).
"""


def canon(o):
    return json.dumps(o, sort_keys=True)


def norm_obs(o):
    """an observed event dict compared as a dict (key order is not part of the value)"""
    if isinstance(o, dict) and isinstance(o.get("y"), dict) and "d" in o["y"]:
        return {"y": {"d": sorted(o["y"]["d"], key=lambda kv: kv[0])}}
    return o


def pretty_list(obs):
    return [pretty_obs(o) for o in obs]


# =====================================================================================================================
# (1) key order
# =====================================================================================================================
def keyorder_checks(run, rng, report, Job, run_jobs, thorough):
    from c12 import num
    jobs, metas = [], []
    for t in range(600 if thorough else 90):
        keys = rng.sample(["note", "amplitude", "duration", "channel", "gate", "x"], rng.randint(2, 5))
        ln = rng.randint(2, 5)
        rows = [{k: (num(rng) if rng.random() > 0.1 else None) for k in keys} for _ in range(ln)]
        # the same dicts, their keys inserted in other orders; sometimes the first one too (then the yielded dicts list their
        # keys in that order - equal as dicts), sometimes built the way code builds them: base dict + per-note fields
        perm = []
        moved = 0
        for i, r in enumerate(rows):
            ks = list(keys)
            style = rng.random()
            if i == 0 and rng.random() < 0.7:
                pass
            elif style < 0.6:
                rng.shuffle(ks)
            elif style < 0.8:
                ks = ks[::-1]
            else:
                j = rng.randrange(len(ks))
                ks = ks[j:] + ks[:j]
            moved += ks != list(r.keys()) and i > 0
            perm.append({k: r[k] for k in ks})
        a = Job(E("PDict", {k: E("PSequence", [r[k] for r in rows], 1) for k in keys}), ln + 2, 1)
        b = Job(E("PDict", perm), ln + 2, 1)
        jobs += [a, b]
        metas.append((keys, rows, perm, moved, a, b))
    run_jobs(run, jobs)
    cases = []
    for keys, rows, perm, moved, a, b in metas:
        run.count(2)
        run.dist("pdict.key-order.cases")
        run.dist("pdict.key-order.rows-in-another-order", moved)
        if list(perm[0].keys()) != keys:
            run.dist("pdict.key-order.first-row-reordered")
        want = [{"y": None}] + [norm_obs({"y": value_to_json(r)}) for r in rows] + ["stop", "stop"]
        run.cov["oracle_evaluations"] += 2 * len(want)
        if moved:
            run.nontrivial("pdict-key-order " + to_source(b.expr))
        ga, gb = [norm_obs(o) for o in a.obs], [norm_obs(o) for o in b.obs]
        if canon(ga) != canon(want) or canon(gb) != canon(want):
            report({"kind": "pdict-key-order"}, {
                "case": {"list_of_dicts": to_source(b.expr), "dict_of_sequences": to_source(a.expr), "list_json": to_json(b.expr), "n": ln + 2},
                "expected": "event i is row i, value by key: %s" % pretty_list(want),
                "observed": {"list_of_dicts": pretty_list(b.obs), "dict_of_sequences": pretty_list(a.obs)},
                "python": b.python() + "\n" + a.python()})
            continue
        c = Case(b.expr, [("next", 0)] * b.n, "c12-keyorder", {})
        c.obs = b.res["obs"]
        cases.append(c)
    run_model(run, cases)
    for c in cases:
        if c.verdict == "discard":
            run.discard("key-order: " + (c.status or "?").split(":")[0])
        elif c.verdict == "agree":
            run.cov["traces_validated_against_impl"] += 1
            run.cov["pdict_key_order_traces_validated_against_model"] = run.cov.get("pdict_key_order_traces_validated_against_model", 0) + 1
    for c in [c for c in cases if c.verdict == "disagree"][:2]:
        report({"kind": "correspondence", "class": "PDict", "param": "value", "what": "key-order"}, {
            "case": {"expr": to_source(c.expr), "expr_json": to_json(c.expr), "ops": [list(o) for o in c.ops]},
            "expected": "the Coq model of PDict (Pat/Step.v construct CDict): %s" % model_trace(run, c),
            "observed": c.obs_pretty(), "python": replay_snippet(c.expr, c.ops)})


# =====================================================================================================================
# (2) through a timeline track
# =====================================================================================================================
class Node:
    """plain-Python reference interpreter for the small grammar of the live scenarios"""

    def __init__(self, tree, refs):
        self.kind = None
        if isinstance(tree, E):
            self.kind = tree.cls
            if tree.cls == "PConstant":
                self.c = tree.args[0]
            elif tree.cls == "PSeries":
                self.v, self.step = tree.args[0], tree.args[1]
            elif tree.cls == "PSequence":
                self.xs, self.pos = list(tree.args[0]), 0
            elif tree.cls == "PRefL":
                self.target = Node(tree.args[1], refs)
                refs[tree.args[0]] = self
            elif tree.cls == "PRef":
                self.kind, self.target = "PRefL", Node(tree.args[0], refs)
            elif tree.cls in ("PAdd", "PMul"):
                self.a, self.b = Node(tree.args[0], refs), Node(tree.args[1], refs)
            else:
                raise ValueError(tree.cls)
        else:
            self.kind, self.c = "scalar", tree

    def next(self):
        k = self.kind
        if k in ("scalar", "PConstant"):
            return self.c
        if k == "PSeries":
            v = self.v
            self.v += self.step
            return v
        if k == "PSequence":
            v = self.xs[self.pos % len(self.xs)]
            self.pos += 1
            return v
        if k == "PRefL":
            return self.target.next()          # a reference hands out its CURRENT target's next value
        a, b = self.a.next(), self.b.next()
        return a + b if k == "PAdd" else a * b


def leaf(rng, lo, hi):
    k = rng.random()
    if k < 0.35:
        return E("PConstant", rng.randint(lo, hi))
    if k < 0.7:
        return E("PSeries", rng.randint(lo, hi - 40), rng.randint(1, 3))
    return E("PSequence", [rng.randint(lo, hi) for _ in range(rng.randint(2, 4))])


class Gen:
    def __init__(self, rng):
        self.rng, self.labels = rng, 0

    def ref(self, lo, hi, places, key, path):
        self.labels += 1
        inner = leaf(self.rng, lo, hi)
        if self.rng.random() < 0.25:                      # a reference to a reference: the OUTER one is the caller's handle
            inner = E("PRef", inner)
        places[self.labels] = (key, path)
        return E("PRefL", self.labels, inner)

    def spec(self):
        """an event dict {"note": ., "amplitude": .} and the places {label: (key, path)} of the references the caller holds"""
        rng, places, out = self.rng, {}, {}
        for key, lo, hi in (("note", 30, 90), ("amplitude", 20, 110)):
            r = rng.random()
            if r < 0.15:
                out[key] = rng.randint(lo, hi)
            elif r < 0.3:
                out[key] = leaf(rng, lo, hi)
            elif r < 0.8 or key == "amplitude":
                out[key] = self.ref(lo, hi, places, key, [])
            elif r < 0.9:
                out[key] = E("PAdd", self.ref(lo, hi - 20, places, key, [0]), rng.randint(1, 12))
            else:
                out[key] = E("PAdd", rng.randint(1, 12), self.ref(lo, hi - 20, places, key, [1]))
        if not places:
            out["note"] = self.ref(30, 90, places, "note", [])
        return out, places


def gen_live(rng):
    """ops for the driver + what the check needs to know: for every label, the track and place it sits at while installed"""
    g = Gen(rng)
    ops = []
    tracks = []           # per track: {"name": n | None, "places": {label: (key, path)}, "how": "fresh" | "update" | "replace"}
    ntr = rng.choice([1, 1, 2, 2, 3])
    for i in range(ntr):
        name = i + 1 if rng.random() < 0.7 else None
        spec, places = g.spec()
        ops.append(["schedule", name, spec, i])
        tracks.append({"name": name, "places": places, "how": "fresh"})
    stale = {}
    kinds = []
    ops.append(["beats", rng.randint(1, 3)])
    for step in range(rng.randint(3, 6)):
        r = rng.random()
        if step == 0 and r < 0.5:
            r = 0.5 + 0.35 * rng.random()          # every second scenario begins by handing a running track new events
        live = [(t, l) for t, tr in enumerate(tracks) for l in tr["places"]]
        if r < 0.5 and live:
            t, l = rng.choice(live)
            ops.append(["retarget", l, leaf(rng, 25, 100)])
            kinds.append("retarget." + tracks[t]["how"] + (".param" if tracks[t]["places"][l][1] else ".key"))
        elif r < 0.65:
            t = rng.randrange(len(tracks))
            spec, places = g.spec()
            stale.update({l: t for l in tracks[t]["places"]})
            ops.append(["update", t, spec, t])
            tracks[t].update(places=places, how="update")
        elif r < 0.85 and any(tr["name"] is not None for tr in tracks):
            t = rng.choice([t for t, tr in enumerate(tracks) if tr["name"] is not None])
            spec, places = g.spec()
            stale.update({l: t for l in tracks[t]["places"]})
            ops.append(["schedule", tracks[t]["name"], spec, t])
            tracks[t].update(places=places, how="replace")
        elif r < 0.92 and len(tracks) < 3:
            used = [tr["name"] for tr in tracks if tr["name"] is not None]
            name = rng.choice([None, max(used + [0]) + 1])
            spec, places = g.spec()
            ops.append(["schedule", name, spec, len(tracks)])
            tracks.append({"name": name, "places": places, "how": "fresh"})
        elif stale:
            l = rng.choice(sorted(stale))
            ops.append(["retarget", l, leaf(rng, 25, 100)])            # a reference of a dict the track no longer plays: no effect
            kinds.append("retarget.stale")
        else:
            continue
        ops.append(["beats", rng.randint(1, 3)])
    return ops, kinds


def expected_beats(ops):
    """the independent oracle: per beat, for each track in scheduling order, (note, amplitude, channel)"""
    refs, tracks, names, out = {}, [], {}, []
    for o in ops:
        if o[0] == "schedule":
            ev = {k: Node(v, refs) for k, v in o[2].items()}
            if o[1] is not None and o[1] in names:
                tracks[names[o[1]]] = (ev, o[3])
            else:
                if o[1] is not None:
                    names[o[1]] = len(tracks)
                tracks.append((ev, o[3]))
        elif o[0] == "update":
            tracks[o[1]] = ({k: Node(v, refs) for k, v in o[2].items()}, o[3])
        elif o[0] == "retarget":
            refs[o[1]].target = Node(o[2], refs)
        elif o[0] == "beats":
            for _ in range(o[1]):
                out.append([[ev["note"].next(), ev["amplitude"].next(), ch] for ev, ch in tracks])
    return out


def strip_labels(x):
    if isinstance(x, E):
        if x.cls == "PRefL":
            return E("PRef", strip_labels(x.args[1]))
        return E(x.cls, *[strip_labels(a) for a in x.args])
    if isinstance(x, list):
        return [strip_labels(a) for a in x]
    return x


def dict_expr(spec, chan):
    return E("PDict", {"note": strip_labels(spec["note"]), "amplitude": strip_labels(spec["amplitude"]), "duration": 1, "channel": chan})


def model_terms(ops):
    """(history : list lsop, expected events) for Pat/ParamLive.lstrace; the caller's handle = (track, key, path) of the label
    in what the track plays now; a label whose dict has been replaced has no place any more: no model operation"""
    h, where, names, ntracks = [], {}, {}, 0

    def install(t, spec):
        for l in [l for l, (tt, _, _) in where.items() if tt == t]:
            del where[l]
        for key in ("note", "amplitude"):
            for path, node in nodes(spec[key]):
                if isinstance(node, E) and node.cls == "PRefL":
                    where[node.args[0]] = (t, key, [p for p in path])
    steps = []
    for o in ops:
        if o[0] == "schedule":
            if o[1] is not None and o[1] in names:
                t = names[o[1]]
            else:
                t = ntracks
                ntracks += 1
                if o[1] is not None:
                    names[o[1]] = t
            h.append("LSSchedule %s %s" % (optlit(o[1], zlit), to_coq(dict_expr(o[2], o[3]))))
            install(t, o[2])
        elif o[0] == "update":
            h.append("LSUpdate %s %s" % (natlit(o[1]), to_coq(dict_expr(o[2], o[3]))))
            install(o[1], o[2])
        elif o[0] == "retarget":
            if o[1] in where:
                t, key, path = where[o[1]]
                h.append("LSRetarget %s %s %s %s" % (natlit(t), slit(key), lst([natlit(p) for p in path]), to_coq(strip_labels(o[2]))))
        elif o[0] == "beats":
            for _ in range(o[1]):
                for t in range(ntracks):
                    h.append("LSStep %s" % natlit(t))
    return lst(h)


def arg_path(path):
    """pat_common.nodes paths are argument positions of the constructor calls; for PAdd(a, b) they coincide with Param.vfield"""
    return list(path)


def live_checks(run, rng, report, thorough):
    n = 700 if thorough else 110
    scen = []
    for _ in range(n):
        ops, kinds = gen_live(rng)
        scen.append((ops, kinds))
    payload = [{"tpb": 4, "ops": [[o[0], o[1], {k: to_json(v) for k, v in o[2].items()}, o[3]] if o[0] in ("schedule", "update")
                                  else ([o[0], o[1], to_json(o[2])] if o[0] == "retarget" else o) for o in ops]} for ops, _ in scen]
    shards = 8
    parts = [payload[i::shards] for i in range(shards) if payload[i::shards]]
    outs = run.impl_parallel("c12_live_impl", [{"cases": p} for p in parts])
    res = [None] * len(payload)
    for si, out in enumerate(outs):
        for j, r in enumerate(out["cases"]):
            res[si + j * shards] = r
    terms, where = [], []
    for i, ((ops, kinds), r) in enumerate(zip(scen, res)):
        run.count()
        run.dist("live.scenarios")
        for k in kinds:
            run.dist("live." + k)
        for o in ops:
            if o[0] == "schedule":
                run.dist("live.op.schedule" + ("-named" if o[1] is not None else ""))
            elif o[0] == "update":
                run.dist("live.op.update")
        if "error" in r:
            report({"kind": "live-driver-error"}, {"case": {"scenario": payload[i]}, "expected": "the scenario runs", "observed": r,
                                                   "python": "PYTHONPATH=/repo /venv/bin/python /verif/harness/impl/c12_live_impl.py <<< '{\"cases\": [<scenario>]}'"})
            continue
        want = expected_beats(ops)
        run.cov["oracle_evaluations"] += len(want)
        if any(k != "retarget.stale" for k in kinds):
            run.nontrivial("live " + canon(payload[i]))
        if r["beats"] != want:
            b = next(j for j in range(max(len(want), len(r["beats"]))) if j >= len(want) or j >= len(r["beats"]) or want[j] != r["beats"][j])
            readable = [[o[0], o[1], {k: to_source(v) for k, v in o[2].items()}] if o[0] in ("schedule", "update")
                        else ([o[0], o[1], to_source(o[2])] if o[0] == "retarget" else o) for o in ops]
            report({"kind": "live-retarget", "how": sorted(set(k.split(".")[1] for k in kinds if k.startswith("retarget.")))}, {
                "case": {"scenario": payload[i], "readable": readable},
                "expected": "beat %d: %s  (per track: note, velocity, channel; a re-targeted reference hands out its new target's values from the "
                            "very next event); all beats: %s" % (b, want[b] if b < len(want) else None, want),
                "observed": "beat %d: %s; all beats: %s" % (b, r["beats"][b] if b < len(r["beats"]) else None, r["beats"]),
                "python": "PYTHONPATH=/repo /venv/bin/python /verif/harness/impl/c12_live_impl.py <<< '{\"cases\": [<scenario of this file>]}'   "
                          "# PRefL(label, x) = iso.PRef(x) kept under the label; ['retarget', label, e] = that_ref.set_pattern(e)"})
            continue
        try:
            exp = lst(["(Yield (VTup [%s; %s]))" % (val_coq(c[0]), val_coq(c[1])) for beat in r["beats"] for c in beat])
            terms.append((model_terms(ops), exp))
            where.append(i)
        except Unrepresentable:
            run.discard("live: unrepresentable")
    bad = run.coq_failing(LIVE_HEADER, ["lvagrees %s %s" % t for t in terms], chunk=30)
    if bad:
        unk = set(run.coq_failing(LIVE_HEADER, ["negb (lvunknown %s)" % terms[j][0] for j in bad], chunk=30))
        keep = []
        for jj, j in enumerate(bad):
            if jj in unk:
                run.discard("live: model out of fuel / inexact")
            else:
                keep.append(j)
        bad = keep
    run.cov["live_track_traces_validated_against_model"] = len(terms) - len(bad)
    run.cov["traces_validated_against_impl"] += len(terms) - len(bad)
    for j in bad[:2]:
        i = where[j]
        report({"kind": "correspondence", "class": "Track", "param": "event_stream", "what": "live"}, {
            "case": {"scenario": payload[i]},
            "expected": "the Coq model Pat/ParamLive.v (lstrace): %s" % run.coq_eval(LIVE_HEADER, "lvtrace %s" % terms[j][0])[:1500],
            "observed": res[i]["beats"],
            "python": "PYTHONPATH=/repo /venv/bin/python /verif/harness/impl/c12_live_impl.py <<< '{\"cases\": [<scenario of this file>]}'"})


def replay(run, doc):
    """re-runs the recorded case on the implementation and re-judges it with the plain-Python oracle"""
    kind = doc.get("signature", {}).get("kind")
    case = doc.get("case", {})
    if kind == "pdict-key-order":
        from c12 import Job, run_jobs
        j = Job(from_json(case["list_json"]), case["n"], 1)
        run_jobs(run, [j])
        print("observed now:", pretty_list(j.obs))
        print("expected:", doc.get("expected"))
        bad = doc.get("expected", "").find(str(pretty_list([norm_obs(o) for o in j.obs]))) < 0
        return 1 if bad else 0
    sc = case.get("scenario")
    if not sc:
        print("replay: no scenario recorded"); return 1
    r = run.impl("c12_live_impl", {"cases": [sc]})["cases"][0]
    ops = [[o[0], o[1], {k: from_json(v) for k, v in o[2].items()}, o[3]] if o[0] in ("schedule", "update")
           else ([o[0], o[1], from_json(o[2])] if o[0] == "retarget" else o) for o in sc["ops"]]
    want = expected_beats(ops)
    print("observed now:", r.get("beats", r))
    print("expected    :", want)
    return 0 if r.get("beats") == want else 1


# =====================================================================================================================
# (3) the oscillator classes on their Coq model (Pat/Osc.v): they are not constructors of the deep embedding
# =====================================================================================================================
OSC_HEADER = HEADER + """From Isobar Require Import Pat.Osc.
From Coq Require Import QArith.
Open Scope Z_scope.
Definition oscagrees (sh : shape) (l m x : arg) (n : nat) (expected : list (outcome val)) : bool := list_eqb obs_eqb (osc_trace sh l m x n) expected.
Definition oscunknown (sh : shape) (l m x : arg) (n : nat) : bool := existsb unknown (osc_trace sh l m x n).
"""


def osc_arg(x):
    if isinstance(x, E):
        if x.cls == "Probe":
            return osc_arg(x.args[0])
        if x.cls == "PConstant" and not is_pat(x.args[0]):
            return "(AP (PConstant %s))" % val_coq(x.args[0])
        if x.cls == "PRef" and is_pat(x.args[0]):
            return "(AP (PRef %s))" % osc_arg(x.args[0])
        if x.cls == "PSequence" and isinstance(x.args[0], list) and not any(is_pat(v) or isinstance(v, (list, tuple, dict)) for v in x.args[0]):
            rep = x.args[1] if len(x.args) > 1 else SYS_MAXSIZE
            if isinstance(rep, int) and not isinstance(rep, bool):
                return "(AP (PSequence (AL %s) (AV (VInt %s)) 0 0))" % (lst(["(AV %s)" % val_coq(v) for v in x.args[0]]), zlit(rep))
        raise Unrepresentable("oscillator operand %s" % to_source(x))
    if is_pat(x) or isinstance(x, (list, tuple, dict)):
        raise Unrepresentable("oscillator operand")
    return "(AV %s)" % val_coq(x)


def osc_model_checks(run, insts, report):
    terms, where = [], []
    for inst in insts:
        cls = inst["pair"][0]
        if cls not in ("PTri", "PSaw"):
            continue
        for j in [inst["scalar"], inst["varying"], inst["nested"]] + [j for _, j in inst["forms"]]:
            if j.res["status"] or len(j.res["obs"]) < 2 or len(j.expr.args) != 3:
                continue
            try:
                l, m, x = [osc_arg(a) for a in j.expr.args]
                exp = lst([obs_coq(o) for o in j.res["obs"][1:]])
            except Unrepresentable:
                run.discard("oscillator model: operand form without an image")
                continue
            terms.append(("Tri" if cls == "PTri" else "Saw", l, m, x, len(j.res["obs"]) - 1, exp))
            where.append((inst, j))
    bad = run.coq_failing(OSC_HEADER, ["oscagrees %s %s %s %s %d%%nat %s" % t for t in terms], chunk=60)
    if bad:
        unk = set(run.coq_failing(OSC_HEADER, ["negb (oscunknown %s %s %s %s %d%%nat)" % terms[k][:5] for k in bad], chunk=60))
        keep = []
        for kk, k in enumerate(bad):
            if kk in unk:
                run.discard("oscillator model: inexact float arithmetic (period not a power of two / non-dyadic bounds)")
            else:
                keep.append(k)
        bad = keep
    run.cov["oscillator_traces_validated_against_model"] = len(terms) - len(bad) - run.cov["discarded"].get(
        "oscillator model: inexact float arithmetic (period not a power of two / non-dyadic bounds)", 0)
    run.cov["traces_validated_against_impl"] += max(0, run.cov["oscillator_traces_validated_against_model"])
    for k in bad[:2]:
        inst, j = where[k]
        cls, param = inst["pair"]
        report({"kind": "correspondence", "class": cls, "param": param, "what": "oscillator-model"}, {
            "case": {"expr": to_source(j.expr), "n": j.n, "seed": inst["seed"]},
            "expected": "the Coq model Pat/Osc.v: %s" % run.coq_eval(OSC_HEADER, "osc_trace %s %s %s %s %d%%nat" % terms[k][:5])[:1200],
            "observed": pretty_list(j.res["obs"]), "python": j.python()})

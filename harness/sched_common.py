"""Engine S (scheduler) — shared by C01 C02 C05 C06 C07 C17.

Scenario format: see harness/impl/sched_impl.py.  This module translates a scenario to the Coq literal of
Sched/Model.v, runs scenarios on implementation and model, and offers trace utilities for the oracles.
"""
from common import *
from fractions import Fraction
from math import lcm

HEADER = "From Isobar Require Import Base.Prelude Sched.Model Sched.Obs.\n"
FUEL = 5000       # iterations of Track.tick's catch-up loop the model follows within one tick


# ---- scenario -> Coq ------------------------------------------------------------------------------
def voices_of(ev):
    """broadcast the event's note/amp/gate/chan fields to a list of (note, amp|None, chan, glen|None)"""
    note = ev["note"]
    dur = ev["dur"]
    if note is None:                       # rest: Event sets note 0, amplitude 0, gate 0
        ch = ev["chan"] if not isinstance(ev["chan"], list) else ev["chan"][0]
        return [(0, 0, ch, 0)]
    notes = note if isinstance(note, list) else [note]
    out = []
    for i, n in enumerate(notes):
        amp = ev["amp"][i] if isinstance(ev["amp"], list) else ev["amp"]
        chan = ev["chan"][i] if isinstance(ev["chan"], list) else ev["chan"]
        gate = ev["gate"]
        if gate is not None and (gate == [] or isinstance(gate[0], (list, type(None)))):
            gate = gate[i]
        if gate is None:
            glen = None
        else:
            fr = Fraction(dur) * Fraction(gate[0], gate[1])
            if fr.denominator != 1:
                raise ValueError("off-grid note length %s" % fr)
            glen = int(fr)
        out.append((n, amp, chan, glen))
    return out


def coq_event(ev):
    k = ev["k"]
    if k in ("raise_eval", "raise_ctor"):
        return "RRaise"
    act = blit(ev.get("active", True))
    if k == "note":
        vs = lst(["mkVoice %s %s %s %s" % (zlit(n), optlit(a, zlit), zlit(c), optlit(g, zlit)) for n, a, c, g in voices_of(ev)])
        kind = "KNote %s" % vs
    elif k == "action":
        kind = "KAction %s" % natlit(ev["cb"])
    elif k == "control":
        kind = "KControl %s %s %s" % (zlit(ev["ctl"]), zlit(ev["val"]), zlit(ev["chan"]))
    elif k == "program":
        kind = "KProgram %s %s" % (zlit(ev["prog"]), zlit(ev["chan"]))
    else:
        raise ValueError(k)
    return "REvent (mkEvent %s %s (%s))" % (zlit(ev["dur"]), act, kind)


def coq_stream(s):
    return "(mkStream %s 0%%nat %s)" % (lst([coq_event(e) for e in s["items"]]), blit(s["cyclic"]))


def oz(x):
    return optlit(x, zlit)


def coq_op(o):
    k = o[0]
    if k == "tick":
        return "OTick"
    if k == "schedule":
        _, s, q, d, count, rwd, name, replace = o
        return "OSchedule %s %s %s %s %s %s %s" % (coq_stream(s), oz(q), oz(d), oz(count), blit(rwd), oz(name), blit(replace))
    if k == "update":
        _, t, s, q, d, count = o
        return "OUpdate %s %s %s %s %s" % (natlit(t), coq_stream(s), oz(q), oz(d), oz(count))
    if k == "unschedule":
        return "OUnschedule %s" % natlit(o[1])
    if k == "clear":
        return "OClear"
    if k == "mute":
        return "OMute %s" % natlit(o[1])
    if k == "unmute":
        return "OUnmute %s" % natlit(o[1])
    if k == "nudge":
        return "ONudge %s %s" % (natlit(o[1]), zlit(o[2]))
    if k == "defaults":
        return "OSetDefaults %s %s" % (zlit(o[1]), zlit(o[2]))
    raise ValueError(k)


def coq_config(sc):
    cfg = sc["config"]
    U, tpb = sc["U"], sc["tpb"]
    assert U % tpb == 0
    cbs = lst(["cbk %s %s" % ({"none": "CbNone", "exc": "CbExc", "stop": "CbStop"}[cb["raise"]],
                              lst([coq_op(o) for o in cb["ops"]])) for cb in sc.get("callbacks", [])])
    return "(mkConfig %s %s %s %s %s %s %s %s)" % (
        zlit(U // tpb), cbs, zlit(cfg.get("latency", 0)), zlit(cfg.get("max_tracks", 0)),
        blit(bool(cfg.get("stop_when_done"))), blit(bool(cfg.get("ignore"))),
        optlit(cfg.get("dev_fail"), natlit), natlit(FUEL))


def coq_history(sc):
    return lst(["hop (%s) %s" % (coq_op(o), zlit(o[1] if o[0] == "tick" else 1)) for o in sc["ops"]])


RES = {"ok": "ROk", "stop": "RStopIteration", "exc": "RException", "limit": "RTrackLimit", "notfound": "RTrackNotFound"}


def coq_call(c):
    k = c[0]
    if k == "on":
        return "CNoteOn %s %s %s" % (zlit(c[1]), zlit(c[2]), zlit(c[3]))
    if k == "off":
        return "CNoteOff %s %s" % (zlit(c[1]), zlit(c[2]))
    if k == "ctl":
        return "CControl %s %s %s" % (zlit(c[1]), zlit(c[2]), zlit(c[3]))
    if k == "pgm":
        return "CProgram %s %s" % (zlit(c[1]), zlit(c[2]))
    if k == "cb":
        return "CCallback %s" % natlit(c[1])
    raise ValueError(k)


def obs_well_typed(obs):
    try:
        for i, calls, res, ids in obs:
            for c in calls:
                if not all(type(x) is int for x in c[1:]):
                    return False
            if res not in RES or any(type(t) is not int or t < 0 for t in ids):
                return False
        return True
    except Exception:
        return False


def coq_expected(obs):
    """list sobs literal; runs of consecutive operations with the same observation are written as so_rep"""
    parts, i = [], 0
    while i < len(obs):
        idx, calls, res, ids = obs[i]
        j = i + 1
        while j < len(obs) and obs[j][0] == idx + (j - i) and obs[j][1:] == obs[i][1:]:
            j += 1
        args = "%s %s %s %s" % (zlit(idx), lst([coq_call(c) for c in calls]), RES[res], lst([natlit(t) for t in ids]))
        if j - i >= 3:
            parts.append("so_rep (Z.to_nat %d) %s" % (j - i, args))
        else:
            for k in range(i, j):
                parts.append("[so %s %s %s %s]" % (zlit(obs[k][0]), lst([coq_call(c) for c in calls]), RES[res], lst([natlit(t) for t in ids])))
        i = j
    return "(concat %s)" % lst(parts)


def agrees_term(sc, obs):
    return "agrees %s %s %s" % (coq_config(sc), coq_history(sc), coq_expected(obs))


# ---- running ----------------------------------------------------------------------------------------
def run_impl(run, scenarios, shards=12):
    parts = [scenarios[i::shards] for i in range(shards) if scenarios[i::shards]]
    outs = run.impl_parallel("sched_impl", [{"scenarios": p} for p in parts])
    res = [None] * len(scenarios)
    for si, out in enumerate(outs):
        for j, r in enumerate(out["results"]):
            res[si + j * shards] = r
    return res


def model_disagreements(run, scenarios, results, chunk=40):
    """indices of scenarios whose implementation observation differs from the model's"""
    terms = []
    for sc, r in zip(scenarios, results):
        if "driver_error" in r or not obs_well_typed(r["obs"]):
            terms.append("false")
        else:
            terms.append(agrees_term(sc, r["obs"]))
    bad = run.coq_failing(HEADER, terms, chunk=chunk)
    if bad:
        # a history on which the model itself runs out of fuel (a catch-up loop of thousands of events within one tick)
        # is not described by the model: discarded and counted, not reported
        probe = ["out_of_fuel %s %s" % (coq_config(scenarios[i]), coq_history(scenarios[i]))
                 if terms[i] != "false" else "false" for i in bad]
        spent = set(run.coq_failing(HEADER, ["negb (%s)" % t for t in probe], chunk=chunk))
        keep = []
        for j, i in enumerate(bad):
            if j in spent:
                run.discard("model-out-of-fuel")
            else:
                keep.append(i)
        bad = keep
    return bad


def model_trace(run, sc):
    """the model's sparse observation, printed by Coq (for replays)"""
    return run.coq_eval(HEADER, "sparse (run %s tl0 (expand %s))" % (coq_config(sc), coq_history(sc)))


def n_ops(sc):
    return sum(o[1] if o[0] == "tick" else 1 for o in sc["ops"])


def tick_indices(sc):
    """map operation index -> tick number (how many ticks ran before it) for tick ops; list of op kinds"""
    out = []
    t = 0
    for o in sc["ops"]:
        if o[0] == "tick":
            for _ in range(o[1]):
                out.append(("tick", t)); t += 1
        else:
            out.append((o[0], t))
    return out


def units_per_beat(tpb, fracs):
    """smallest U that is a multiple of tpb and makes every given Fraction (in beats) a whole number of units"""
    U = tpb
    for f in fracs:
        U = lcm(U, Fraction(f).denominator)
    return U


def python_snippet(sc):
    return ("# replay against the repository: PYTHONPATH=/repo /venv/bin/python /verif/harness/impl/sched_impl.py  <<< "
            "'{\"scenarios\": [<the scenario of this file>]}'")


def report_disagreement(run, sc, r, kind, site, extra=None, found=False):
    doc = {"broken": "correspondence Sched/Model.v <-> isobar Timeline/Track on this history (the theorems of Props/%s.v "
                     "no longer speak about this code)" % run.prop,
           "scenario": sc, "observed": r.get("obs", r), "python": python_snippet(sc)}
    try:
        doc["model"] = model_trace(run, sc)
    except Exception as e:      # pragma: no cover
        doc["model"] = "unavailable: %s" % e
    if extra:
        doc.update(extra)
    return run.violation({"kind": kind, "site": site}, doc, found_input=found)

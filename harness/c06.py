"""C06 — track lifecycle: counts, completion, removal, stop-when-done, limits, names.
Theorems: coq/Props/C06.v over the scheduler model (coq/Sched/Model.v; lemmas Sched/LifecycleProofs.v).
Correspondence: (P) planned lifecycles - 1-3 tracks with stream lengths {0, 1, 3, endless}, counts {None, 0, 1, 2, 5}, gates up to 8,
remove_when_done on/off, names, max_tracks 0-3, stop-when-done, mute / unmute / unschedule / clear / named re-schedule / extra schedule
calls between ticks; (H) the random lifecycle histories shared with C02 (plus names, max_tracks, counts, callbacks issuing calls) - run
on isobar's Timeline and on the model inside Coq.  Oracles: (P) exact closed form of every track's life written from the property
text; (H) trace invariants (limit, refusal, named replace, silence after unschedule / clear / while muted, stop exactly when done);
(I) lifecycles of interpolating control tracks (harness/c06_interp.py, model Sched/InterpLife.v, driver impl/c06_impl.py);
(T) callback operations reaching a track in a transitional state (harness/c06_transit.py, lemmas Sched/TransitProofs.v);
(S) scene changes: callbacks whose removals and additions cancel (harness/c06_scene.py)."""
from common import *
import sched_common as S
import sched_gen as G
import c06_interp as I
import c06_transit as TR
import c06_scene as SC
from fractions import Fraction as F
from math import ceil

PROP = "C06"
META = {
 "engine": "S-scheduler",
 "text": "Coq theorems (Props/C06.v) about the executable model of Timeline/Track (Sched/Model.v): get_next_event raises StopIteration, touching nothing, once count >= max (max not None/0) and otherwise adds exactly 1 per event pulled; a started track whose events last >= 1 tick performs, after ANY number of ticks, exactly as many events as it pulled, never more than min(count left, stream length), delivers an event while below that limit, raises StopIteration at it, and reaches a finite limit after finitely many ticks (induction over ticks, no bound); StopIteration leaves Track.tick iff the due track's loop meets the end of the stream or the count limit; the track is finished iff no note-off is pending at that moment, a finished remove_when_done track leaves the timeline in that same turn and any other stays; Timeline.tick raises StopIteration iff the tick left no track and no pending action and stop_when_done is set - then time does not advance - and never when the flag is off; over ALL histories (any interleaving of ticks with schedule / named re-schedule / update / unschedule / clear / mute / unmute / nudge, callbacks issuing such calls, faults; induction over the history) the number of tracks never exceeds a positive max_tracks, a refused schedule returns TrackLimitReached and changes nothing, ids are distinct and never reused so a track that has left is never scheduled again and takes no turn (no call, no effect); schedule(name, replace) on a timeline holding that name keeps the number, order and ids of the tracks, resets the track's count to 0 and unmutes it; events performed while muted make no call. No reachable timeline - and no state between two turns of one tick - lists a track that is finished and remove_when_done (the finished track leaves inside its own turn), so an operation issued by a later track's callback in the tick in which a track finishes cannot land on the finished track: a named re-schedule then creates a new track, and a track that a named re-schedule did update survives every other track's finishing step (C06_no_zombie, C06_no_zombie_between_turns, C06_finished_turn_leaves, C06_same_tick_reschedule). Whatever list of operations a callback performs after a track is out of the list - e.g. schedule as many tracks as it removed - the track stays out and its turn makes no call (C06_removed_by_callback_silent, C06_unschedule_then_anything). Interpolating (linear / cosine) control tracks, whose ticks reach perform_event from other call sites (model Sched/InterpLife.v around the track machine of Sched/Interp.v): for every state of the track and EVERY history of ticks / mute / unmute / unschedule, no control call on any tick on which the track is muted, unscheduled or not yet started, and on every other tick exactly the outcome the never-muted track has on the running tick of the same index (muting neither shifts nor delays the curve nor changes the events drawn or the finishing tick); after unschedule nothing, in any later history. Tied to /repo on every run by a correspondence check of planned lifecycles and random lifecycle histories executed on the real Timeline with a recording device and on the model inside Coq (vm_compute), compared call by call, result by result and track list by track list after every operation, plus independent oracles (exact closed form of every planned track's life: events performed = min(count, length) at their exact ticks, removal tick, tick of StopIteration; trace invariants on the random histories), by callback operations (named re-schedule, update, unschedule, mute ...) aimed at a track on the ticks around the one on which it finishes / reaches its count / is finished but kept, from a caller placed before or after it (closed-form oracle), by scene changes (one callback removes k tracks and schedules k new ones, or clear() + schedules, the removed tracks before and after the caller and due on that tick; silence / stuck-note / projection oracle), and by lifecycles of interpolating tracks (mute / unmute / unschedule / stop / clear at every phase of the curve, deferred start, count, kept-when-done, stop-when-done, a note track next to it) run on the real Timeline, judged by a closed-form oracle and compared with Sched/InterpLife.v inside Coq.",
 "note": "Trusted: Coq kernel+VM; the Python harness. Modelled, not verified: float arithmetic of isobar (exact integer units in the model); events are taken already resolved (C03). The count theorems are stated for one stream from its start (events >= 1 tick, no device fault); their composition with updates that replace the stream mid-life, and the per-track statements' composition into whole-timeline traces, is validated by the correspondence, not proved. The closed form of the removal tick (max of stream end and last release) is checked by the oracle, the theorem gives the condition (StopIteration while nothing is pending). Callbacks that unschedule the running track from inside its own tick are outside the generated domain. Interpolating tracks: one track per model instance; named re-schedule / update / nudge / callbacks / faults of an interpolating track are neither modelled nor generated; cos(pi x) from libm as in C15.",
}

EXTRA_TARGETS = ["Sched/InterpCheck.vo"]      # literal decoding / cos table for the interpolating-track stratum (not part of any theorem)

COUNTS = [None, None, 0, 1, 2, 5]
GATES = [(1, 16), (1, 4), (1, 2), (3, 4), (1, 1), (3, 2), (2, 1), (4, 1), (8, 1)]


# ---- family P: planned lifecycles with an exact oracle ----------------------------------------------------------------
def p_stream(rng, tpb, base):
    tick = F(1, tpb)
    kind = rng.choice(["0", "1", "3", "inf", "inf", "3"])
    n = {"0": 0, "1": 1, "3": 3, "inf": rng.randint(1, 3)}[kind]
    durs = G.durations_for(rng, tpb, n, on_grid_share=0.5)
    items, desc = [], []
    for i, d in enumerate(durs):
        g = rng.choice(GATES)
        items.append({"k": "note", "dur": d, "note": base + i, "amp": 64, "gate": list(g), "chan": 0})
        desc.append((d, base + i, d * F(g[0], g[1])))
    cyclic = kind == "inf"
    form = "scripted" if n == 0 else rng.choice(["scripted", "psequence", "pdict"])
    return G.stream(items, cyclic, form), {"events": desc, "cyclic": cyclic, "kind": kind}


def gen_planned(rng):
    tpb = rng.choice([1, 7, 10, 24, 96, 480])
    tick = F(1, tpb)
    cfg = {"stop_when_done": rng.random() < 0.6, "max_tracks": rng.choice([0, 0, 1, 2, 3])}
    plan = []          # (call tick, op, oracle info)
    base = [10]

    def sched(c, name=None, replace=None):
        s, desc = p_stream(rng, tpb, base[0]); base[0] += 8
        count = rng.choice(COUNTS)
        rwd = rng.random() < 0.7
        name = rng.choice([None, None, 0, 1]) if name is None else name
        replace = (rng.random() < 0.85) if replace is None else replace
        plan.append((c, G.sched_op(s, None, None, count, rwd, name, replace),
                     {"kind": "schedule", "desc": desc, "count": count, "rwd": rwd, "name": name, "replace": replace}))

    for _ in range(rng.randint(1, 4)):
        sched(0)
    horizon = rng.choice([2, tpb, 2 * tpb + 1, 4 * tpb])
    for _ in range(rng.choice([0, 1, 1, 2, 3])):
        c = rng.randint(0, horizon)
        k = rng.choice(["mute", "unmute", "mute", "unschedule", "unschedule", "clear", "reschedule", "schedule", "mute-reschedule"])
        t = rng.randrange(4)
        if k == "mute-reschedule":
            # mute a named track, then schedule under its name again (which must unmute it and restart its count)
            named = [(i, info["name"]) for i, (_, _, info) in enumerate(plan) if info["kind"] == "schedule" and info["name"] is not None]
            if not named:
                continue
            t, nm = rng.choice(named)
            plan.append((c, ["mute", t], {"kind": "mute", "t": t}))
            sched(c + rng.randint(0, horizon), name=nm, replace=True)
            continue
        if k in ("mute", "unmute", "unschedule"):
            plan.append((c, [k, t], {"kind": k, "t": t}))
            if k == "mute" and rng.random() < 0.6:
                plan.append((c + rng.randint(0, horizon), ["unmute", t], {"kind": "unmute", "t": t}))
        elif k == "clear":
            plan.append((c, ["clear"], {"kind": "clear"}))
        elif k == "reschedule":
            sched(c, name=rng.choice([0, 1]), replace=True)
        else:
            sched(c)
    plan.sort(key=lambda x: x[0])
    # long enough for every finite stream and every note to end
    longest = F(0)
    for _, op, info in plan:
        if info["kind"] == "schedule":
            evs = info["desc"]["events"]
            reps = 6 if info["desc"]["cyclic"] else 1
            longest = max(longest, sum(e[0] for e in evs) * reps + max([e[2] for e in evs] + [F(0)]))
    total = min(plan[-1][0] + int(ceil(longest / tick)) + 4, 4000)
    ops, done = [], 0
    for c, op, info in plan:
        if c > done:
            ops.append(["tick", c - done]); done = c
        ops.append(op)
    ops.append(["tick", total - done])
    sc = {"tpb": tpb, "config": cfg, "callbacks": [], "ops": ops,
          "meta": {"family": "planned", "plan": [[c, info["kind"]] + ([info["desc"]["kind"], info["count"], info["rwd"], info["name"], info["replace"]]
                                                                  if info["kind"] == "schedule" else [info.get("t")]) for c, _, info in plan]}}
    sc["_o"] = {"tpb": tpb, "cfg": cfg, "plan": [(c, info) for c, _, info in plan], "total": total}
    return sc


INF = 10 ** 9


class OTrack:
    def __init__(self, tid, info, c):
        self.id, self.rwd, self.name = tid, info["rwd"], info["name"]
        self.max = info["count"]
        self.muted = False
        self.offs = []            # release ticks of the notes performed so far
        self.done = False
        self.start(info["desc"], c, 0)
        self.left = None          # tick index from which the track is no longer scheduled

    def start(self, desc, c, counted):
        self.desc, self.j0, self.counted, self.k, self.N = desc, c, counted, 0, F(0)

    def limit(self):
        cap = None if self.max in (None, 0) else max(0, self.max - self.counted)
        ln = None if (self.desc["cyclic"] and self.desc["events"]) else len(self.desc["events"])
        vals = [v for v in (cap, ln) if v is not None]
        return min(vals) if vals else None


def planned_expectation(o):
    """exact expectation written from the property text: (calls per tick, ids after each op, result of each op), or None
    when the history continues after the timeline has stopped (frozen time; left to the model comparison)"""
    tick = F(1, o["tpb"])
    total = o["total"]
    cfg = o["cfg"]
    calls = {}
    tracks, created = [], 0
    plan = o["plan"]
    notes = []        # (onset tick, release tick) of every note switched on
    removal = {}      # tick -> ids removed by finishing during that tick

    def advance(tr, upto):
        """perform the events of tr with onset < upto; returns the tick at which it finished and left (or None)"""
        lim = tr.limit()
        ev = tr.desc["events"]
        while lim is None or tr.k < lim:
            onset = tr.j0 + int(ceil(tr.N / tick))
            if onset >= upto:
                return None
            dur, note, glen = ev[tr.k % len(ev)]
            if not muted_at(tr, onset):
                calls.setdefault(onset, []).append(("on", note))
                off = onset + max(1, int(ceil(glen / tick)))
                calls.setdefault(off, []).append(("off", note))
                tr.offs.append(off)
                notes.append((onset, off))
            tr.N += dur; tr.k += 1
        stop = tr.j0 + int(ceil(tr.N / tick))           # the tick on which get_next_event raises StopIteration
        fin = max([stop] + tr.offs)                      # ... and the first one from then on with nothing sounding
        if fin >= upto:
            return None
        return fin

    mute_log = {}

    def muted_at(tr, onset):
        state = False
        for c, m in mute_log.get(tr.id, []):
            if c <= onset:
                state = m
        return state

    def settle(upto):
        """let every scheduled track run up to (excluding) tick [upto]; finished remove_when_done tracks leave"""
        for tr in list(tracks):
            if tr.done:
                continue
            fin = advance(tr, upto)
            if fin is not None:
                tr.done = True
                if tr.rwd:
                    tracks.remove(tr)
                    tr.left = fin
                    removal.setdefault(fin, []).append(tr.id)

    op_results = []
    last_call = 0
    for c, info in plan:
        settle(c)
        last_call = c
        k = info["kind"]
        res = "ok"
        if k == "schedule":
            hit = None
            if info["name"] is not None and info["replace"]:
                hit = next((tr for tr in tracks if tr.name == info["name"]), None)
            if hit is not None:
                if info["count"] is not None:
                    hit.max = info["count"]
                hit.start(info["desc"], c, 0)
                hit.done = False
                mute_log.setdefault(hit.id, []).append((c, False))
            elif cfg["max_tracks"] and len(tracks) >= cfg["max_tracks"]:
                res = "limit"
            else:
                tr = OTrack(created, info, c)
                created += 1
                tracks.append(tr)
        elif k in ("mute", "unmute"):
            tr = next((x for x in tracks if x.id == info["t"]), None)
            if tr is not None:
                mute_log.setdefault(tr.id, []).append((c, k == "mute"))
        elif k == "unschedule":
            tr = next((x for x in tracks if x.id == info["t"]), None)
            if tr is None:
                res = "notfound"
            else:
                tracks.remove(tr); tr.left = c
        elif k == "clear":
            for tr in list(tracks):
                tracks.remove(tr); tr.left = c
        op_results.append((c, res, [t.id for t in tracks]))
    settle(total)
    calls = {t: sorted(v) for t, v in calls.items() if t < total}
    return calls, op_results, removal, notes


def planned_oracle(sc, r):
    o = sc["_o"]
    total, cfg = o["total"], o["cfg"]
    calls, op_results, removal, notes = planned_expectation(o)
    # reach[t] = latest release tick among the notes switched on at or before tick t
    reach, m = [0] * (total + 1), 0
    by_on = {}
    for on, off in notes:
        by_on[on] = max(by_on.get(on, 0), off)
    for t in range(total + 1):
        m = max(m, by_on.get(t, 0)); reach[t] = m
    idx = S.tick_indices(sc)
    obs = {i: (c, res, ids) for i, c, res, ids in r["obs"]}
    ids, seen_ids = [], []
    opi = 0
    stopped = False
    for i, (kind, t) in enumerate(idx):
        c_obs, res_obs, ids_obs = obs.get(i, ([], "ok", None))
        if ids_obs is not None:
            seen_ids = ids_obs
        if kind != "tick":
            c, res, ids_after = op_results[opi]; opi += 1
            if stopped:
                return None, "history continues after the timeline stopped"
            if res_obs != res:
                return False, "operation %d (%s at tick %d) returned %r, expected %r" % (i, kind, t, res_obs, res)
            ids = ids_after
            if seen_ids != ids:
                return False, "tracks after operation %d (%s at tick %d): %r, expected %r" % (i, kind, t, seen_ids, ids)
            if c_obs:
                return False, "operation %d (%s) made device calls %r" % (i, kind, c_obs)
            continue
        if stopped:
            if res_obs != "stop" or c_obs:
                return False, "tick op %d after StopIteration: result %r calls %r (time must not advance, nothing may happen)" % (i, res_obs, c_obs)
            continue
        got = sorted((c[0], c[1]) for c in c_obs if c[0] in ("on", "off"))
        exp = calls.get(t, [])
        if got != exp:
            return False, "tick %d: device calls %r, expected %r" % (t, got, exp)
        ids = [x for x in ids if x not in removal.get(t, [])]
        if seen_ids != ids:
            return False, ("tracks after tick %d: %r, expected %r (a finished remove_when_done track leaves on the first tick with its stream "
                           "exhausted and none of its notes sounding)" % (t, seen_ids, ids))
        pending = reach[t] > t           # a note switched on by now is still sounding after this tick: its release is pending
        should_stop = bool(cfg["stop_when_done"]) and not ids and not pending
        if should_stop != (res_obs == "stop"):
            return False, ("tick %d: result %r, expected %s (stop_when_done=%r, tracks left %r, releases pending %r)"
                           % (t, res_obs, "StopIteration" if should_stop else "a normal return", cfg["stop_when_done"], ids, pending))
        if res_obs == "stop":
            stopped = True
    return True, ""


# ---- family H: random lifecycle histories, trace invariants ---------------------------------------------------------
H_OPTS = {"counts": True, "rwd": True, "names": True, "max_tracks": True, "silent": True, "controls": True, "gates": GATES,
          "ops": ["update", "mute", "unmute", "unschedule", "clear", "schedule", "schedule", "nudge"], "swd_share": 0.6}
H_OPTS_CB = dict(H_OPTS, callbacks=True, cb_raise=True, quantize=True, faults=True, dev_faults=True)


def stream_tag(s):
    for it in s["items"]:
        if "chan" in it:
            return it["chan"][0] if isinstance(it["chan"], list) else it["chan"]
    return None


def history_oracle(sc, pit, r, full):
    """invariants of the observed trace; [full] = no callbacks / faults / deferred starts, so ownership of every
    stream, the mute state and the pending actions are known from the history alone"""
    cfg = sc["config"]
    mt = cfg.get("max_tracks", 0)
    if sum(1 for o in sc["ops"] if o[0] in ("schedule", "update")) > 15:
        full = False              # stream tags (channels) would repeat
    idx = S.tick_indices(sc)
    obs = {i: (c, res, ids) for i, c, res, ids in r["obs"]}
    ops = []
    for o in sc["ops"]:
        ops += [o] * (o[1] if o[0] == "tick" else 1)
    ids = []
    names = {}         # track id -> name
    owner = {}         # stream tag (channel) -> track id
    muted = set()
    gone = set()
    created = 0
    sounding = {}
    for i, (kind, t) in enumerate(idx):
        c_obs, res_obs, ids_new = obs.get(i, ([], "ok", None))
        before = list(ids)
        if ids_new is not None:
            ids = ids_new
        if mt and len(ids) > mt:
            return False, "max-tracks", "op %d (%s): %d tracks scheduled with max_tracks = %d" % (i, kind, len(ids), mt)
        if res_obs == "limit" and ids != before:
            return False, "refused-changed", "op %d: refused schedule changed the tracks %r -> %r" % (i, before, ids)
        o = ops[i]
        for c in c_obs:
            if c[0] == "on":
                sounding[(c[1], c[3])] = sounding.get((c[1], c[3]), 0) + 1
            elif c[0] == "off":
                sounding[(c[1], c[2])] = sounding.get((c[1], c[2]), 0) - 1
        if not full:
            if kind == "tick" and res_obs == "stop" and (ids or not cfg.get("stop_when_done")):
                return False, "stop", "op %d: StopIteration with tracks %r, stop_when_done=%r" % (i, ids, cfg.get("stop_when_done"))
            continue
        if kind == "schedule":
            _, s, q, d, count, rwd, name, replace = o
            tag = stream_tag(s)
            hit = next((x for x in before if name is not None and replace and names.get(x) == name), None)
            if hit is not None:
                if res_obs != "ok" or ids != before:
                    return False, "named-replace", "op %d: schedule(name=%r, replace=True) with track %d of that name scheduled: result %r, tracks %r -> %r" % (i, name, hit, res_obs, before, ids)
                owner[tag] = hit; muted.discard(hit)
            elif mt and len(before) >= mt:
                if res_obs != "limit":
                    return False, "limit-not-enforced", "op %d: schedule with %d tracks and max_tracks = %d returned %r" % (i, len(before), mt, res_obs)
            else:
                if res_obs != "ok" or ids != before + [created]:
                    return False, "schedule", "op %d: schedule returned %r, tracks %r -> %r (expected new id %d appended)" % (i, res_obs, before, ids, created)
                names[created] = name; owner[tag] = created; created += 1
        elif kind == "update":
            tag = stream_tag(o[2])
            if o[1] < created:
                owner[tag] = o[1]
        elif kind == "mute":
            if o[1] in ids: muted.add(o[1])
        elif kind == "unmute":
            muted.discard(o[1])
        elif kind == "unschedule":
            exp = "ok" if o[1] in before else "notfound"
            if res_obs != exp or (exp == "ok" and ids != [x for x in before if x != o[1]]):
                return False, "unschedule", "op %d: unschedule(%d) returned %r, tracks %r -> %r" % (i, o[1], res_obs, before, ids)
        elif kind == "clear":
            if ids:
                return False, "clear", "op %d: tracks after clear(): %r" % (i, ids)
        for x in before:
            if x not in ids:
                gone.add(x)
        if kind == "tick":
            for c in c_obs:
                if c[0] in ("on", "ctl", "pgm"):
                    tag = c[3] if c[0] in ("on", "ctl") else c[2]
                    own = owner.get(tag)
                    if own in gone and own not in ids:
                        return False, "event-after-removal", "op %d (tick %d): %r from a stream of track %d, which left the timeline earlier" % (i, t, c, own)
                    if own in muted:
                        return False, "event-while-muted", "op %d (tick %d): %r from a stream of track %d, which is muted" % (i, t, c, own)
            pending = any(v > 0 for v in sounding.values())
            if res_obs == "stop":
                if ids or not cfg.get("stop_when_done") or pending:
                    return False, "stop-early", "op %d (tick %d): StopIteration with tracks %r, stop_when_done=%r, notes sounding %r" % (
                        i, t, ids, cfg.get("stop_when_done"), sorted(k for k, v in sounding.items() if v > 0))
            elif res_obs == "ok" and cfg.get("stop_when_done") and not ids and not pending:
                return False, "stop-missed", "op %d (tick %d): tick returned normally with no track scheduled and nothing sounding although stop_when_done is set" % (i, t)
    return True, "", ""


def strip(sc):
    return {k: v for k, v in sc.items() if k != "_o"}


def check(run):
    rng = run.rng
    quick = run.tier == "quick"
    nP, nH, nHc = (420, 260, 160) if quick else (4500, 2500, 1500)
    scs, kinds, pits = [], [], []
    for _ in range(nP):
        scs.append(gen_planned(rng)); kinds.append("P"); pits.append(None)
    for _ in range(nH):
        sc, pit = G.gen_lifecycle(rng, H_OPTS); sc["meta"] = {"family": "history"}
        scs.append(sc); kinds.append("H"); pits.append(pit)
    for _ in range(nHc):
        sc, pit = G.gen_lifecycle(rng, H_OPTS_CB); sc["meta"] = {"family": "history+callbacks"}
        scs.append(sc); kinds.append("Hc"); pits.append(pit)
    fin = [G.finalize(strip(sc)) for sc in scs]
    results = S.run_impl(run, fin, shards=14)
    flagged = set()
    for i, (sc, kind, pit, fsc, r) in enumerate(zip(scs, kinds, pits, fin, results)):
        run.count()
        run.dist("family." + kind); run.dist("tpb.%d" % sc["tpb"])
        run.dist("max_tracks.%s" % sc["config"].get("max_tracks", 0))
        if sc["config"].get("stop_when_done"): run.dist("stop_when_done")
        if "driver_error" in r:
            flagged.add(i)
            run.violation({"kind": "driver-error", "site": "Timeline"}, {"scenario": fsc, "observed": r}, found_input=True)
            continue
        for _, _, res, _ in r["obs"]:
            if res != "ok": run.dist("result." + res)
        if kind == "P":
            for c, k, *rest in sc["meta"]["plan"]:
                run.dist("plan." + k)
                if k == "schedule":
                    run.dist("length." + rest[0]); run.dist("count.%s" % rest[1]); run.dist("rwd.%s" % rest[2])
            ok, detail = planned_oracle(sc, r)
            if ok is None:
                run.discard("planned history continues after StopIteration (judged by the model comparison only)")
                ok = True
            else:
                run.cov["oracle_evaluations"] += 1
            sig = "lifecycle"
        else:
            ok, sig, detail = history_oracle(sc, pit, r, full=(kind == "H"))
            run.cov["oracle_evaluations"] += 1
            for o in sc["ops"]:
                run.dist("op." + o[0])
        if len(r["obs"]) >= 3:
            run.nontrivial(json.dumps(fsc, sort_keys=True))
        if not ok:
            flagged.add(i)
            run.violation({"kind": sig, "site": "Timeline/Track"}, {
                "scenario": fsc, "meta": sc["meta"], "observed": detail,
                "oracle": "planned lifecycles: events performed = min(count, length) at their exact ticks, removal on the first tick with the stream exhausted "
                          "and nothing sounding, StopIteration exactly when nothing is left; histories: limit / refusal / named replace / silence / stop invariants",
                "trace_head": r["obs"][:16], "python": S.python_snippet(fsc)})
        if i % 300 == 0:
            run.sample({"meta": sc["meta"], "config": sc["config"], "first_observations": r["obs"][:5]})
    bad = S.model_disagreements(run, fin, results, chunk=30)
    run.cov["traces_validated_against_impl"] = len(fin) - len(bad)
    for i in bad:
        if i in flagged:
            continue
        S.report_disagreement(run, fin[i], results[i], "correspondence", "Timeline/Track", {"meta": scs[i]["meta"]})
    # stratum T: operations issued from another track's callback in the tick in which the target finishes / is in a transitional state
    TR.transit_part(run, 140 if quick else 1500)
    # stratum S: scene changes - one callback removes k tracks and schedules k new ones (the number of tracks is unchanged)
    SC.scene_part(run, 24 if quick else 400)
    # stratum I: lifecycle operations applied to interpolating (linear / cosine) control tracks
    I.interp_part(run, 150 if quick else 1500)
    run.cov["rule"] = ("one case = one history: (P) planned lifecycle of 1-4 schedule calls (lengths 0/1/3/endless, counts, gates to 8, rwd, names, "
                       "max_tracks, stop_when_done) with up to 3 mute/unmute/unschedule/clear/re-schedule calls; (H) random lifecycle history without and "
                       "(Hc) with callbacks, faults and deferred starts; distinct by scenario text; non-trivial = at least 3 non-empty observations")


def replay(run, doc):
    if doc.get("part") == "interp":
        return I.replay_case(run, doc)
    fsc = doc["scenario"]
    r = S.run_impl(run, [fsc], shards=1)[0]
    bad = S.model_disagreements(run, [fsc], [r]) if "driver_error" not in r else [0]
    print("replay: implementation/model agree:", not bad)
    if bad:
        print("implementation:", json.dumps(r.get("obs", r))[:1500])
        print("model:", S.model_trace(run, fsc)[:1500])
    return 1 if bad else 0

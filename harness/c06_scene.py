"""C06, stratum S: SCENE CHANGES - one action callback performs SEVERAL operations whose effects on the number of tracks cancel:
it unschedules k tracks and schedules k new ones (in either order), or clear()s the timeline and schedules as many tracks as
there were; the removed tracks sit before and after the caller in Timeline.tracks and have events due on that very tick.

Model: Sched/Model.v as it stands - exec_cb_ops runs any list of operations, tick_one looks the id up in the CURRENT list.
Theorems: C06_removed_by_callback_silent, C06_unschedule_then_anything (Sched/TransitProofs.v), C06_gone_for_good,
C07_snapshot_removed.  Generator / closed-form projection oracle: harness/c07_midphase.py (re-used); driver impl/sched_impl.py.
Oracle (C06: "an unscheduled, cleared ... track emits no further events"; C02: no stuck note): a track removed by the callback
of tick T makes no note-on / control / program call from tick T on if it is placed after the caller, from tick T+1 on otherwise,
and every note it switched on is released; every track = what it produces alone (removed tracks: with the removal applied from
outside; new tracks: scheduled after that tick)."""
from common import *
import sched_common as S
import sched_gen as G
import c07_midphase as MP
from fractions import Fraction as F
import itertools


def gen_desc(rng):
    tpb = rng.choice([1, 2, 4, 4])
    tick = F(1, tpb)
    g = tick * rng.choice([1, 1, 2])
    k = rng.choice([3, 4, 4, 5, 6])
    chans = rng.sample(range(12), k)
    caller = rng.randrange(k)
    T0 = rng.choice([0, 0, 1])
    tracks, cbs, news = [], [], []
    others = [j for j in range(k) if j != caller]
    for j in range(k):
        if j != caller:
            # endless neighbours on the grid: they are listed until somebody removes them, and are often due on the callback's tick
            tracks.append({"chan": chans[j], "role": "other", "stream": MP.plain_stream(rng, tpb, g, chans[j], long=True), "count": None, "rwd": True})
    kind = rng.choice(["swap", "swap", "swap", "swap-add-first", "clear", "clear", "unbalanced"])
    ops = []
    if kind == "clear":
        ops.append(["clear"])
        nnew = rng.choice([k, k, k - 1, 1])                 # as many as there were (the caller included) - or not
        victims = list(others)
    else:
        nv = rng.randint(1, min(3, len(others)))
        victims = rng.sample(others, nv)
        nnew = nv if kind != "unbalanced" else rng.choice([0, nv + 1, max(0, nv - 1)])
    adds = []
    for _ in range(nnew):
        ch = 12 + len(news)
        if ch > 15:
            break
        news.append({"chan": ch, "stream": MP.plain_stream(rng, tpb, g, ch), "count": rng.choice([None, 2, 3]), "rwd": True, "d": None})
        adds.append(["schedule", len(news) - 1])
    rem = [["unschedule", v] for v in victims] if kind != "clear" else []
    ops = ops + (adds + rem if kind == "swap-add-first" else rem + adds)
    cbs.append({"raise": rng.choice(["none", "none", "exc"]), "ops": ops, "owner": chans[caller]})
    items = []
    for _ in range(rng.choice([0, 1, 1, 2, 3])):            # the neighbours are in mid-flight when the scene changes
        items.append(MP.note(g * rng.choice([1, 2]), 30 + caller, chans[caller], (1, 2)))
    items.append({"k": "action", "cb": 0, "dur": g * rng.choice([1, 2])})
    items.append(MP.note(g * 2, 35 + caller, chans[caller], (1, 1)))
    callert = {"chan": chans[caller], "role": "caller", "stream": G.stream(items, False, "scripted"), "count": None, "rwd": True}
    tracks.insert(caller, callert)
    for j in victims:
        tracks[j]["role"] = "victim"
    for t in tracks:
        if t["role"] == "other":
            t["role"] = "bystander"
    horizon = T0 + rng.choice([12, 16, 24])
    return {"tpb": tpb, "g": g, "T0": T0, "horizon": horizon, "tracks": tracks, "callbacks": cbs, "news": news, "kind": kind,
            "balanced": kind != "unbalanced" and (kind != "clear" or nnew == k) and len(adds) == (len(victims) + (1 if kind == "clear" else 0) if kind == "clear" else len(victims)),
            "config": {"ignore": rng.random() < 0.5, "stop_when_done": False}}


def silence_oracle(C, desc, order, jsc, jr):
    """C06 / C02 on the joint trace alone: the removed tracks are silent from their moment on, and nothing of theirs is left sounding"""
    bad = []
    J = C.per_tick(jsc, jr)
    fate, _ = MP.fates(desc, order)
    fire = MP.firings(desc, order)
    for x, f in fate.items():
        whens = [w for w, names in f.items() if "unschedule" in names]
        if not whens:
            continue
        w = min(whens)
        ch = desc["tracks"][x]["chan"]
        sounding = {}
        for t, (calls, res, ids) in enumerate(J):
            for c in calls:
                if c[0] == "on" and c[3] == ch:
                    if t >= w:
                        bad.append(("event-after-removal", "tick %d: %r from the track on channel %d (scheduling rank %d), which the callback of tick %d removed "
                                    "(%s; the caller has rank %d; callback operations %r: %d tracks before and after the callback)"
                                    % (t, c, ch, order.index(x), fire[0][0], desc["kind"], order.index(fire[0][1]), desc["callbacks"][0]["ops"], len(order))))
                        return bad
                    sounding[c[1]] = sounding.get(c[1], 0) + 1
                elif c[0] in ("ctl", "pgm") and (c[3] if c[0] == "ctl" else c[2]) == ch and t >= w:
                    bad.append(("event-after-removal", "tick %d: %r from the removed track on channel %d" % (t, c, ch))); return bad
                elif c[0] == "off" and c[2] == ch:
                    sounding[c[1]] = sounding.get(c[1], 0) - 1
        tail = len(J) - w
        tick = F(1, desc["tpb"])
        longest = max([int(-((-F(it["dur"]) * F(it["gate"][0], it["gate"][1])) // tick)) for it in desc["tracks"][x]["stream"]["items"] if it["k"] == "note"] + [1])
        if tail > longest + 1 and any(v > 0 for v in sounding.values()):       # every note it switched on is released within its length
            bad.append(("stuck-note", "the removed track on channel %d leaves %r sounding %d ticks after its removal"
                        % (ch, sorted(n for n, v in sounding.items() if v > 0), tail)))
            return bad
    return bad


def scene_part(run, n_desc):
    import c07 as C
    import c07_coq as Q
    rng = run.rng
    descs, jobs, scs = [], [], []
    for di in range(n_desc):
        desc = gen_desc(rng)
        descs.append(desc)
        k = len(desc["tracks"])
        perms = list(itertools.permutations(range(k)))
        orders = [list(range(k)), list(rng.choice(perms[1:]))]
        for order in orders:
            sc, ids = MP.joint_scenario(desc, order)
            jobs.append((di, order, "joint", None)); scs.append(sc)
            for j in range(k):
                if desc["tracks"][j]["role"] != "bystander":          # bystanders are C07's subject (mid-phase part): victims and the caller here
                    jobs.append((di, order, "solo", j)); scs.append(MP.solo_scenario(desc, order, j))
            _, born = MP.fates(desc, order)
            for ti in sorted(set(ti for _, ti in born)):
                jobs.append((di, order, "new", ti)); scs.append(MP.solo_new_scenario(desc, order, ti))
    groups = [di for di, _, _, _ in jobs]
    first = {}
    for j, di in enumerate(groups):
        first.setdefault(di, j)
    fin = [Q.finalize_group(G, [sc], scs[first[groups[j]]])[0] for j, sc in enumerate(scs)]
    results = S.run_impl(run, fin, shards=12)
    index = {(di, tuple(order), kind, x): j for j, (di, order, kind, x) in enumerate(jobs)}
    flagged = set()
    for j, (di, order, kind, x) in enumerate(jobs):
        run.count()
        r = results[j]
        if "driver_error" in r:
            flagged.add(j)
            run.violation({"kind": "driver-error", "site": "Timeline"}, {"scenario": fin[j], "observed": r}, found_input=True)
            continue
        if kind != "joint":
            continue
        desc = descs[di]
        k = len(desc["tracks"])
        run.dist("family.S"); run.dist("S.kind." + desc["kind"])
        fire = MP.firings(desc, order)
        nrem = sum(1 for o in desc["callbacks"][0]["ops"] if o[0] == "unschedule") + (k if desc["kind"] == "clear" else 0)
        nadd = sum(1 for o in desc["callbacks"][0]["ops"] if o[0] == "schedule")
        if nrem == nadd: run.dist("S.track-count-unchanged-by-the-callback")
        J = C.per_tick(scs[j], r)
        if fire and fire[0][0] < len(J):
            at, cj, _ = fire[0]
            fate, _ = MP.fates(desc, order)
            for xj, f in fate.items():
                if any("unschedule" in names for names in f.values()):
                    after = order.index(xj) > order.index(cj)
                    run.dist("S.removed-track-%s-the-caller" % ("after" if after else "before"))
                    # would it have had an event due on that tick?  (its solo run without the removal is not run: judged from the stream grid)
                    if after: run.dist("S.removed-after-the-caller")
        solos, new_solos, broken = {}, {}, False
        for jj in range(k):
            if (di, tuple(order), "solo", jj) not in index:
                continue
            sj = index[(di, tuple(order), "solo", jj)]
            broken |= "driver_error" in results[sj]
            solos[jj] = (scs[sj], results[sj])
        _, born = MP.fates(desc, order)
        for ti in sorted(set(ti for _, ti in born)):
            sj = index[(di, tuple(order), "new", ti)]
            broken |= "driver_error" in results[sj]
            new_solos[ti] = (scs[sj], results[sj])
        if broken:
            continue
        bad = silence_oracle(C, desc, order, scs[j], r) + MP.oracle(C, desc, order, scs[j], r, solos, new_solos)
        run.cov["oracle_evaluations"] += 1
        if fire:
            run.nontrivial(json.dumps(fin[j], sort_keys=True))
        seen = set()
        for kind_, detail in bad:
            if kind_ in seen:
                continue
            seen.add(kind_); flagged.add(j)
            run.violation({"kind": kind_, "site": "Timeline.tick/scene change"}, {
                "scenario": fin[j], "observed": detail, "order": order, "meta": {"family": "scene", "kind": desc["kind"]},
                "oracle": "a track removed by a callback emits nothing from that tick on (placed after the caller) / from the next tick on (before it) and "
                          "leaves no note sounding, however many tracks the same callback schedules; every track = what it produces alone",
                "trace_head": r["obs"][:24], "python": S.python_snippet(fin[j])})
        if di % 30 == 0 and order == list(range(k)):
            run.sample({"family": "scene", "kind": desc["kind"], "tracks": [(t["chan"], t["role"]) for t in desc["tracks"]],
                        "callback": desc["callbacks"][0]["ops"], "callback_tick": fire[:1], "first_observations": r["obs"][:4]})
    bad = Q.model_disagreements_shared(run, S, fin, results, groups, target=40, name="scene")
    run.cov["traces_validated_against_impl"] += len(fin) - len(bad)
    for j in [x for x in bad if x not in flagged][:2]:
        S.report_disagreement(run, fin[j], results[j], "correspondence", "Timeline/Track (scene change)", {"meta": {"family": "scene"}})

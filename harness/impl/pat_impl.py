"""Implementation driver of engine P: builds the real isobar objects of an expression tree and runs an
operation script on them.  stdin: {"cases": [{"expr": <json tree>, "ops": [[op, handle, arg?]...]}]} or
{"signatures": [class names]}.  stdout: {"cases": [{"obs": [...], "status": null|"timeout"|"too-long"}]}.
An observation is {"y": value} | "stop" | {"r": exception class name}.  The first observation is that of
the constructor call ({"y": null} on success); if it raised, the script is not run."""
import sys, os, json, signal, inspect
sys.path.insert(0, os.path.dirname(os.path.dirname(os.path.abspath(__file__))))
sys.dont_write_bytecode = True
import pat_common as pc
import isobar as iso
from isobar.scale import Scale
from isobar.chord import Chord
from isobar.globals import Globals

OP_TIMEOUT = 2.0
MAX_LIST = 4000


class Timeout(BaseException):
    pass


def on_alarm(sig, frm):
    raise Timeout()


def observe(f):
    try:
        return {"y": pc.value_to_json(f())}
    except StopIteration:
        return "stop"
    except Timeout:
        raise
    except RecursionError:
        return {"r": "RecursionError"}
    except Exception as e:
        return {"r": type(e).__name__}


def for_loop(p, n):
    vals = []
    if n > 0:
        for x in p:
            vals.append(x)
            if len(vals) >= n:
                break
    return vals


def run_op(handles, op):
    k, h = op[0], op[1]
    p = handles[h]
    if k == "next":
        return observe(lambda: next(p))
    if k == "nextn":
        return observe(lambda: p.nextn(op[2]))
    if k == "for":
        return observe(lambda: for_loop(p, op[2]))
    if k == "all":
        return observe((lambda: p.all()) if op[2] is None else (lambda: p.all(op[2])))
    if k == "len":
        return observe(lambda: len(p))
    if k == "reset":
        return observe(lambda: p.reset())
    if k == "copy":
        def f():
            handles.append(p.copy())
        return observe(f)
    raise ValueError(op)


def too_long(o):
    return isinstance(o, dict) and isinstance(o.get("y"), dict) and len(o["y"].get("l", ())) > MAX_LIST


def run_case(case):
    expr = pc.from_json(case["expr"])
    obs, status = [], None
    signal.setitimer(signal.ITIMER_REAL, OP_TIMEOUT * 2)
    try:
        holder = {}

        def build():
            holder["p"] = pc.to_python(expr, iso)
        o = observe(build)
        obs.append(o)
        if "p" in holder:
            handles = [holder["p"]]
            for op in case["ops"]:
                signal.setitimer(signal.ITIMER_REAL, OP_TIMEOUT)
                o = run_op(handles, op)
                if too_long(o):
                    status = "too-long"
                    break
                obs.append(o)
    except Timeout:
        status = "timeout"
    finally:
        signal.setitimer(signal.ITIMER_REAL, 0)
    return {"obs": obs, "status": status}


def signatures(names):
    out = {}
    for n in names:
        c = getattr(iso, n, None)
        if c is None:
            continue
        ps = []
        for p in list(inspect.signature(c.__init__).parameters.values())[1:]:
            if p.kind == p.VAR_POSITIONAL:
                ps.append([p.name, "<*args>"])
            elif p.kind == p.VAR_KEYWORD:
                ps.append([p.name, "<**kwargs>"])
            elif p.default is p.empty:
                ps.append([p.name, "<required>"])
            else:
                d = p.default
                ps.append([p.name, d if (d is None or isinstance(d, (bool, int, float, str))) else "<%s>" % type(d).__name__])
        out[n] = ps
    return out


def main():
    req = json.load(sys.stdin)
    if "signatures" in req:
        json.dump({"signatures": signatures(req["signatures"])}, sys.stdout)
        return
    signal.signal(signal.SIGALRM, on_alarm)
    saved = (dict(Scale.dict), dict(Chord.dict), dict(Globals.dict))
    out = []
    for case in req["cases"]:
        out.append(run_case(case))
        for d, s in zip((Scale.dict, Chord.dict, Globals.dict), saved):
            if d != s:
                d.clear(); d.update(s)
    json.dump({"cases": out}, sys.stdout)


main()

"""Implementation driver for C13: evaluates Key/Scale/util functions and tonal patterns of the repository
under test.  stdin: {"keys":[{"semis":[...],"osize":o,"tonic":t,"name":str|null}], "degrees":[...], "notes":[...],
"names": {"numbers":[...], "spellings":[...]}}.  stdout: JSON."""
import sys, json
import isobar as iso
from isobar.scale import Scale
from isobar.key import Key
from isobar import util

def guard(f):
    try:
        return f()
    except Exception as e:
        return {"raise": type(e).__name__}

def main():
    req = json.load(sys.stdin)
    if req.get("list"):
        json.dump({"scales": [[n, list(s.semitones), s.octave_size] for n, s in Scale.dict.items()],
                   "note_names": util.note_names}, sys.stdout)
        return
    saved = dict(Scale.dict)
    out = {"keys": []}
    for kd in req.get("keys", []):
        if kd.get("name") is not None:
            sc = Scale.byname(kd["name"])
        else:
            sc = Scale(list(kd["semis"]), "verif-user-scale", octave_size=kd["osize"])
        key = Key(kd["tonic"], sc)
        degrees, notes = kd.get("degrees", req.get("degrees")), kd.get("notes", req.get("notes"))
        r = {}
        r["get"] = [guard(lambda: key.get(d)) for d in degrees]
        r["getitem"] = [guard(lambda: key[d]) for d in degrees[:8]]
        r["contains"] = [guard(lambda: (n in key)) for n in notes]
        r["nearest"] = [guard(lambda: key.nearest_note(n)) for n in notes]
        r["semitones"] = guard(lambda: list(key.semitones))
        r["rest"] = [guard(lambda: key.get(None)), guard(lambda: (None in key)), guard(lambda: key.nearest_note(None))]
        # the tonal patterns, over the same notes (with a rest in the middle)
        mel = list(notes[:40]) + [None] + list(notes[40:80])
        r["melody"] = mel
        r["pfilter"] = guard(lambda: list(iso.PFilterByKey(iso.PSequence(mel, 1), key).nextn(len(mel) + 1)))
        r["psnap"] = guard(lambda: list(iso.PNearestNoteInKey(iso.PSequence(mel, 1), key).nextn(len(mel) + 1)))
        dg = list(degrees[:40]) + [None]
        r["degmel"] = dg
        r["pdegree"] = guard(lambda: list(iso.PDegree(iso.PSequence(dg, 1), key).nextn(len(dg) + 1)))
        out["keys"].append(r)
        Scale.dict.clear(); Scale.dict.update(saved)
    nm = req.get("names")
    if nm:
        out["names"] = {
            "to_name": [guard(lambda: util.midi_note_to_note_name(n)) for n in nm["numbers"]],
            "to_midi": [guard(lambda: util.note_name_to_midi_note(s)) for s in nm["spellings"]],
        }
    json.dump(out, sys.stdout)

main()

"""Implementation driver for C13: evaluates Key/Scale/util functions and tonal patterns of the repository
under test.  stdin: {"keys":[{"semis":[...],"osize":o,"tonic":t,"name":str|null}], "degrees":[...], "notes":[...],
"names": {"numbers":[...], "spellings":[...]}}.  stdout: JSON."""
import sys, json
import isobar as iso
from isobar.scale import Scale
from isobar.key import Key
from isobar import util

def guard(f):
    try:
        return f()
    except Exception as e:
        return {"raise": type(e).__name__}

NOTE_NAMES = ["C", "C#", "D", "Eb", "E", "F", "F#", "G", "Ab", "A", "Bb", "B"]

def live_key(keys, sl):
    """the Key object of a slot; a slot that holds a key STRING ("D name") builds the key from the string on every use,
    as an event does"""
    k = keys[sl]
    return Key(k) if isinstance(k, str) else k

def key_source(keys, spec):
    """the KEY argument of a tonal pattern: one key object, or a PSequence of key objects (a progression)"""
    pick = (lambda sl: live_key(keys, sl).scale) if spec.get("as_scale") else (lambda sl: live_key(keys, sl))
    if "const" in spec:
        return pick(spec["const"])
    return iso.PSequence([pick(sl) for sl in spec["seq"]], spec["repeats"])

def pull(p, n, split):
    """nextn(n), or the same n values asked for in two calls on the same pattern object"""
    if split is None:
        return list(p.nextn(n))
    return list(p.nextn(split)) + list(p.nextn(n - split))

def run_session(sess):
    """one process history: scales and keys are built, copied, re-tuned IN PLACE and queried, patterns are created and
    asked for values, in the order given.  Nothing is reset between the operations (that is the point); results are
    aligned with the operations."""
    import copy as pycopy
    from isobar.timelines.event import Event, EventDefaults
    saved = dict(Scale.dict)
    scales, keys, pats, out = {}, {}, {}, []
    for op in sess["ops"]:
        kind = op["op"]
        def do():
            if kind == "scale":
                how = op["how"]
                if how == "builtin":
                    scales[op["id"]] = Scale.byname(op["name"])
                elif how == "unnamed":        # the library's default name: every such scale is called the same
                    if op["osize"] == 12:
                        scales[op["id"]] = Scale(list(op["semis"]))
                    else:
                        scales[op["id"]] = Scale(list(op["semis"]), octave_size=op["osize"])
                elif how == "weighted":       # a WeightedScale under a name (possibly one that is registered already)
                    n = len(op["semis"])
                    scales[op["id"]] = iso.WeightedScale(list(op["semis"]), [1.0 / n] * n, op["name"], octave_size=op["osize"])
                elif how == "weighted-unnamed":   # the default name of a WeightedScale is "major"
                    n = len(op["semis"])
                    scales[op["id"]] = iso.WeightedScale(list(op["semis"]), [1.0 / n] * n)
                elif how == "fromnotes":
                    scales[op["id"]] = Scale.fromnotes(list(op["semis"]), name=op["name"], octave_size=op["osize"])
                else:                         # "named" (a name shared by several scales) / "registered" (a name of its own)
                    scales[op["id"]] = Scale(list(op["semis"]), op["name"], octave_size=op["osize"])
                return None
            if kind == "scalecopy":
                src, how = scales[op["src"]], op["how"]
                if how == "copy()":
                    scales[op["id"]] = src.copy()
                elif how == "copy.copy":
                    scales[op["id"]] = pycopy.copy(src)
                elif how == "copy.deepcopy":
                    scales[op["id"]] = pycopy.deepcopy(src)
                else:
                    scales[op["id"]] = Scale(list(src.semitones), src.name, octave_size=src.octave_size)
                return None
            if kind == "key":
                keys[op["slot"]] = Key(op["tonic"], scales[op["scale"]])
                return None
            if kind == "keynamed":            # the scale is reached through the name it is registered under
                how, name, t = op["how"], op["name"], op["tonic"]
                if how == "Key(t,name)":
                    keys[op["slot"]] = Key(t, name)
                elif how == "Key(note,name)":
                    keys[op["slot"]] = Key(NOTE_NAMES[t], name)
                elif how == "Key('note name')":
                    keys[op["slot"]] = Key("%s %s" % (NOTE_NAMES[t], name))
                elif how == "Key(t,byname)":
                    keys[op["slot"]] = Key(t, Scale.byname(name))
                else:                         # "string": the slot holds the string; every use builds Key(string)
                    keys[op["slot"]] = "%s %s" % (NOTE_NAMES[t], name)
                return None
            if kind == "keycopy":
                src, how = keys[op["src"]], op["how"]
                if how == "copy.copy":
                    keys[op["slot"]] = pycopy.copy(src)
                elif how == "copy.deepcopy":
                    keys[op["slot"]] = pycopy.deepcopy(src)
                    scales[op["id"]] = keys[op["slot"]].scale
                else:
                    keys[op["slot"]] = Key(src.tonic, src.scale)
                return None
            if kind == "retune":
                keys[op["slot"]].tonic = op["tonic"]
                return None
            if kind == "rescale":
                keys[op["slot"]].scale = scales[op["scale"]]
                return None
            if kind == "setsemis":            # the Scale OBJECT is re-tuned: every key that refers to it follows
                sc, how = scales[op["scale"]], op["how"]
                if op.get("through") is not None:     # key.scale.semitones = ... : the same object, reached through a key
                    sc = keys[op["through"]].scale
                if how == "assign":
                    sc.semitones = list(op["semis"])
                elif how == "inplace":
                    sc.semitones[:] = list(op["semis"])
                else:                          # what Scale.change() does, with the two positions given
                    i, j = op["swap"]
                    sc.semitones[i], sc.semitones[j] = sc.semitones[j], sc.semitones[i]
                return None
            if kind == "setosize":
                scales[op["scale"]].octave_size = op["osize"]
                return None
            if kind == "popen":               # a pattern object that lives on: it is asked for values again later
                fn = op["fn"]
                mel = iso.PSequence(list(op["xs"]), 1)
                src = key_source(keys, op["keys"])
                pats[op["pid"]] = {"pfilter": iso.PFilterByKey, "psnap": iso.PNearestNoteInKey, "pdegree": iso.PDegree}[fn](mel, src)
                return None
            if kind == "pnext":
                return list(pats[op["pid"]].nextn(op["n"]))
            fn, xs = op["fn"], op.get("xs", [])
            if fn in ("pfilter", "psnap", "pdegree", "chain"):
                mel = iso.PSequence(list(xs), 1)
                if fn == "pfilter":
                    p = iso.PFilterByKey(mel, key_source(keys, op["keys"]))
                elif fn == "psnap":
                    p = iso.PNearestNoteInKey(mel, key_source(keys, op["keys"]))
                elif fn == "pdegree":
                    p = iso.PDegree(mel, key_source(keys, op["keys"]))
                else:
                    p = iso.PNearestNoteInKey(iso.PFilterByKey(mel, key_source(keys, op["keys"])), key_source(keys, op["keys2"]))
                return pull(p, op["n"], op.get("split"))
            if fn == "event":                 # the degree of an event dictionary: the key as an object or as its string
                karg = keys[op["slot"]]
                return [guard(lambda: Event({"degree": d, "key": karg, "octave": 0, "transpose": 0}, EventDefaults()).note) for d in xs]
            if fn == "scaleget":              # Scale.get on the key's Scale object (tonic not involved)
                sc = live_key(keys, op["slot"]).scale
                return [guard(lambda: sc.get(d)) for d in xs]
            key = live_key(keys, op["slot"])
            if fn == "get":
                return [guard(lambda: key.get(d)) for d in xs]
            if fn == "getitem":
                return [guard(lambda: key[d]) for d in xs]
            if fn == "contains":
                return [guard(lambda: (x in key)) for x in xs]
            if fn == "nearest":
                return [guard(lambda: key.nearest_note(x)) for x in xs]
            if fn == "semitones":
                return list(key.semitones)
            raise ValueError("unknown query " + fn)
        out.append(guard(do))
    Scale.dict.clear(); Scale.dict.update(saved)
    return out

def main():
    req = json.load(sys.stdin)
    if "sessions" in req:
        # every session runs in a forked child of this freshly imported interpreter: it starts from the state
        # right after `import isobar` (no key or scale of another session has ever existed in its process)
        import os
        res = []
        for sess in req["sessions"]:
            rfd, wfd = os.pipe()
            pid = os.fork()
            if pid == 0:
                os.close(rfd)
                try:
                    data = json.dumps(run_session(sess))
                except BaseException as e:
                    data = json.dumps({"driver-error": type(e).__name__})
                with os.fdopen(wfd, "w") as f:
                    f.write(data)
                os._exit(0)
            os.close(wfd)
            with os.fdopen(rfd) as f:
                data = f.read()
            os.waitpid(pid, 0)
            res.append(json.loads(data))
        json.dump({"sessions": res}, sys.stdout)
        return
    if req.get("list"):
        json.dump({"scales": [[n, list(s.semitones), s.octave_size] for n, s in Scale.dict.items()],
                   "note_names": util.note_names}, sys.stdout)
        return
    saved = dict(Scale.dict)
    out = {"keys": []}
    for kd in req.get("keys", []):
        if kd.get("name") is not None:
            sc = Scale.byname(kd["name"])
        else:
            sc = Scale(list(kd["semis"]), "verif-user-scale", octave_size=kd["osize"])
        key = Key(kd["tonic"], sc)
        degrees, notes = kd.get("degrees", req.get("degrees")), kd.get("notes", req.get("notes"))
        r = {}
        r["get"] = [guard(lambda: key.get(d)) for d in degrees]
        r["getitem"] = [guard(lambda: key[d]) for d in degrees[:8]]
        r["contains"] = [guard(lambda: (n in key)) for n in notes]
        r["nearest"] = [guard(lambda: key.nearest_note(n)) for n in notes]
        r["semitones"] = guard(lambda: list(key.semitones))
        r["rest"] = [guard(lambda: key.get(None)), guard(lambda: (None in key)), guard(lambda: key.nearest_note(None))]
        # the tonal patterns, over the same notes (with a rest in the middle)
        mel = list(notes[:40]) + [None] + list(notes[40:80])
        r["melody"] = mel
        r["pfilter"] = guard(lambda: list(iso.PFilterByKey(iso.PSequence(mel, 1), key).nextn(len(mel) + 1)))
        r["psnap"] = guard(lambda: list(iso.PNearestNoteInKey(iso.PSequence(mel, 1), key).nextn(len(mel) + 1)))
        dg = list(degrees[:40]) + [None]
        r["degmel"] = dg
        r["pdegree"] = guard(lambda: list(iso.PDegree(iso.PSequence(dg, 1), key).nextn(len(dg) + 1)))
        out["keys"].append(r)
        Scale.dict.clear(); Scale.dict.update(saved)
    nm = req.get("names")
    if nm:
        out["names"] = {
            "to_name": [guard(lambda: util.midi_note_to_note_name(n)) for n in nm["numbers"]],
            "to_midi": [guard(lambda: util.note_name_to_midi_note(s)) for s in nm["spellings"]],
        }
    json.dump(out, sys.stdout)

main()

"""Implementation driver of C12 (pattern-valued parameters).

stdin:  {"cases": [{"expr": <pat_common JSON tree>, "n": steps, "seed": int,
                    "set": null | {"attr": name, "values": [<tree>...], "schedule": [index per step]},
                    "retarget": null | [[step, <tree>], ...]}]}
stdout: {"cases": [{"obs": [ctor, step 1, ...], "calls": [[cumulative next() calls on probe k after step i] ...],
                    "ctor_calls": [...], "status": null | "timeout"}]}

The expression trees are those of pat_common (constructor calls `iso.<Class>(...)`), evaluated against a namespace that
  * builds the real isobar classes and seeds every PStochasticPattern with `seed + creation index`,
  * adds `Probe(inner)`: a counting wrapper pattern (counts next() calls; what it yields is whatever `inner` yields),
  * adds the helper constructors SCALE(name), KEY(tonic, scale name), FN(name) (a small function catalogue),
  * remembers the PRef objects it created (for `retarget`: PRef.set_pattern before the given step).
`set`: before step i the attribute `attr` of the ROOT object is overwritten with the plain value values[schedule[i]]
(the step-wise scalar reference: a parameter that is re-assigned by hand before every use).
An observation is {"y": value} | "stop" | {"r": exception class name}."""
import sys, os, json, signal
sys.path.insert(0, os.path.dirname(os.path.dirname(os.path.abspath(__file__))))
sys.dont_write_bytecode = True
import pat_common as pc
import isobar
from isobar.scale import Scale
from isobar.chord import Chord
from isobar.key import Key
from isobar.globals import Globals

OP_TIMEOUT = 1.5

FUNCS = {
    "seven": lambda: 7,
    "three": lambda: 3,
    "addmul": lambda v, a=0, b=1: (v + a) * b,
    "add": lambda v, a=0: v + a,
    "rot": lambda l: l[1:] + l[:1],
}


class Timeout(BaseException):
    pass


def on_alarm(sig, frm):
    raise Timeout()


class Probe(isobar.Pattern):
    """counts the next() calls made on the wrapped pattern"""

    def __init__(self, inner):
        self.inner = inner
        self.calls = 0

    def __repr__(self):
        return "Probe(%r)" % (self.inner,)

    def __next__(self):
        self.calls += 1
        return next(self.inner)


class Shim:
    def __init__(self, seed):
        self._seed = seed
        self._created = 0
        self.probes = []
        self.refs = []

    def _probe(self, inner):
        p = Probe(inner)
        self.probes.append(p)
        return p

    def __getattr__(self, name):
        if name == "Probe":
            return self._probe
        if name == "FN":
            return lambda nm: FUNCS[nm]
        if name == "SCALE":
            return lambda nm: Scale.byname(nm)
        if name == "KEY":
            return lambda tonic, nm: Key(tonic, nm)
        target = getattr(isobar, name)
        if isinstance(target, type) and issubclass(target, isobar.Pattern):
            def make(*a, **k):
                obj = target(*a, **k)
                if isinstance(obj, isobar.PStochasticPattern):
                    obj.seed(self._seed + self._created)       # index among the stochastic objects only
                    self._created += 1
                if target is isobar.PRef:
                    self.refs.append(obj)
                return obj
            return make
        return target


def vj(v):
    """pat_common's JSON form; Scale / Key results are identified by their content"""
    if isinstance(v, Scale):
        return {"o": "Scale%r" % (list(v.semitones),)}
    if isinstance(v, Key):
        return {"o": "Key(%r, %r)" % (v.tonic, list(v.scale.semitones))}
    return pc.value_to_json(v)


def observe(f):
    try:
        return {"y": vj(f())}
    except StopIteration:
        return "stop"
    except Timeout:
        raise
    except RecursionError:
        return {"r": "RecursionError"}
    except Exception as e:
        return {"r": type(e).__name__}


def run_case(case):
    shim = Shim(case.get("seed") or 0)
    obs, calls, status, ctor_calls = [], [], None, []
    Globals.set("g1", 11)
    Globals.set("g2", 22)
    signal.setitimer(signal.ITIMER_REAL, OP_TIMEOUT * 2)
    try:
        holder = {}

        def build():
            holder["p"] = pc.to_python(pc.from_json(case["expr"]), shim)
        obs.append(observe(build))
        ctor_calls = [p.calls for p in shim.probes]
        if "p" in holder:
            root = holder["p"]
            st = case.get("set")
            values = None
            if st:
                values = [pc.from_json(v) for v in st["values"]]
                values = [pc.to_python(v, shim) if pc.is_pat(v) else v for v in values]
            retarget = {int(s): e for s, e in (case.get("retarget") or [])}
            for i in range(case["n"]):
                signal.setitimer(signal.ITIMER_REAL, OP_TIMEOUT)
                if st is not None:
                    setattr(root, st["attr"], values[st["schedule"][i]])
                if i in retarget:
                    shim.refs[0].set_pattern(pc.to_python(pc.from_json(retarget[i]), shim))
                obs.append(observe(lambda: next(root)))
                calls.append([p.calls for p in shim.probes])
    except Timeout:
        status = "timeout"
    finally:
        signal.setitimer(signal.ITIMER_REAL, 0)
    return {"obs": obs, "calls": calls, "ctor_calls": ctor_calls, "status": status}


def main():
    req = json.load(sys.stdin)
    signal.signal(signal.SIGALRM, on_alarm)
    saved = (dict(Scale.dict), dict(Chord.dict), dict(Globals.dict))
    out = []
    for case in req["cases"]:
        out.append(run_case(case))
        for d, s in zip((Scale.dict, Chord.dict, Globals.dict), saved):
            if d != s:
                d.clear(); d.update(s)
    json.dump({"cases": out}, sys.stdout)


main()

"""The driver of engine P (pat_impl.py) with the repair of findings/C09-parrayindex-revives.diff installed at run time:
PArrayIndex stays exhausted once its __next__ has raised StopIteration (until reset()).  Used by the PArrayIndex stratum
of harness/c09.py to attribute a revival to that finding: it is the known one only if it disappears under the repair."""
import os, sys
sys.path.insert(0, os.path.dirname(os.path.dirname(os.path.abspath(__file__))))
sys.dont_write_bytecode = True
from isobar.pattern.core import PArrayIndex, Pattern

_next, _reset = PArrayIndex.__next__, PArrayIndex.reset


def __next__(self):
    if getattr(self, "exhausted", False):
        raise StopIteration
    try:
        return _next(self)
    except StopIteration:
        self.exhausted = True
        raise


def reset(self):
    _reset(self)
    self.exhausted = False


PArrayIndex.__next__ = __next__
PArrayIndex.reset = reset
here = os.path.dirname(os.path.abspath(__file__))
exec(compile(open(os.path.join(here, "pat_impl.py")).read(), os.path.join(here, "pat_impl.py"), "exec"))

"""Implementation driver for the interpolating-track stratum of C06: lifecycle calls (mute / unmute / unschedule /
stop / clear) applied between ticks to a control track scheduled with interpolate = linear | cosine on a real Timeline
(DummyClock, recording OutputDevice), optionally next to a plain note track.

stdin:  {"cases": [case]}; case = {"N": ticks per beat, "mode": "linear"|"cosine", "control": int, "channel": int,
          "values": [number, ...], "durs": [beats, ...], "form": "dict"|"seq", "count": n|null, "delay": beats|null,
          "rwd": bool, "swd": bool, "companion": null | {"n": notes, "dur": beats, "gate": x, "chan": c, "first": bool},
          "ops": [[tick, name], ...]  (applied, in order, before the tick with that index;
                  names: mute unmute unschedule stop clear), "nticks": int}
stdout: {"cases": [{"calls": [[tick, method, a, b, c], ...]  (every device call; numbers as ["i", n] / ["f", hex]),
                    "ticks": [[result, interp track present, number of tracks], ...]  (after every tick; result ok|stop|exc:<Class>),
                    "ops": [result, ...]  (ok | notfound | exc:<Class>, in the order of case["ops"])}]}
Every exception is caught per case and reported by class name."""
import sys, json, logging
logging.disable(logging.CRITICAL)
import isobar as iso
from isobar.exceptions import TrackNotFoundException


def enc(v):
    if type(v) is bool:
        return ["b", v]
    if type(v) is int:
        return ["i", v]
    if type(v) is float:
        return ["f", v.hex()]
    if v is None:
        return ["n"]
    try:
        import numpy
        if isinstance(v, numpy.floating):
            return ["f", float(v).hex()]
        if isinstance(v, numpy.integer):
            return ["i", int(v)]
    except Exception:
        pass
    return ["o", type(v).__name__]


class Recorder(iso.OutputDevice):
    def __init__(self):
        super().__init__()
        self.now = 0
        self.calls = []

    @property
    def ticks_per_beat(self):
        return None

    def control(self, control=0, value=0, channel=0):
        self.calls.append([self.now, "ctl", enc(control), enc(value), enc(channel)])

    def note_on(self, note=60, velocity=64, channel=0):
        self.calls.append([self.now, "on", enc(note), enc(velocity), enc(channel)])

    def note_off(self, note=60, channel=0):
        self.calls.append([self.now, "off", enc(note), enc(channel), ["n"]])

    def program_change(self, program=0, channel=0):
        self.calls.append([self.now, "pgm", enc(program), enc(channel), ["n"]])


def events_of(case):
    if case["form"] == "dict":
        return {"control": case["control"], "channel": case["channel"],
                "value": iso.PSequence(list(case["values"]), 1), "duration": iso.PSequence(list(case["durs"]), 1)}
    return iso.PSequence([{"control": case["control"], "channel": case["channel"], "value": v, "duration": d}
                          for v, d in zip(case["values"], case["durs"])], 1)


def run_case(case):
    dev = Recorder()
    tl = iso.Timeline(120, output_device=dev, clock_source=iso.DummyClock(ticks_per_beat=case["N"]))
    tl.stop_when_done = bool(case.get("swd"))
    comp = case.get("companion")
    ctrack = None

    def sched_comp():
        return tl.schedule({"note": iso.PSequence([60 + i for i in range(comp["n"])], 1), "duration": comp["dur"],
                            "gate": comp["gate"], "channel": comp["chan"]})
    if comp and comp.get("first"):
        ctrack = sched_comp()
    kw = {}
    if case.get("count") is not None:
        kw["count"] = case["count"]
    if case.get("delay") is not None:
        kw["delay"] = case["delay"]
    track = tl.schedule(events_of(case), interpolate=case["mode"], remove_when_done=bool(case.get("rwd", True)), **kw)
    if comp and not comp.get("first"):
        ctrack = sched_comp()
    ops = list(case["ops"])
    opres, ticks = [], []
    k = 0
    for t in range(case["nticks"]):
        dev.now = t
        while k < len(ops) and ops[k][0] <= t:
            name = ops[k][1]
            k += 1
            try:
                if name == "mute":
                    track.mute()
                elif name == "unmute":
                    track.unmute()
                elif name == "unschedule":
                    tl.unschedule(track)
                elif name == "stop":
                    track.stop()
                elif name == "clear":
                    tl.clear()
                else:
                    raise ValueError("bad op %r" % name)
                opres.append("ok")
            except TrackNotFoundException:
                opres.append("notfound")
            except Exception as e:
                opres.append("exc:" + type(e).__name__)
        try:
            tl.tick()
            res = "ok"
        except StopIteration:
            res = "stop"
        except Exception as e:
            res = "exc:" + type(e).__name__
        ticks.append([res, any(x is track for x in tl.tracks), len(tl.tracks)])
    return {"calls": dev.calls, "ticks": ticks, "ops": opres}


def main():
    req = json.load(sys.stdin)
    out = []
    import io, contextlib
    for c in req["cases"]:
        try:
            buf = io.StringIO()
            with contextlib.redirect_stdout(buf), contextlib.redirect_stderr(buf):
                out.append(run_case(c))
        except Exception as e:
            import traceback
            out.append({"driver_error": "%s: %s" % (type(e).__name__, e), "tb": traceback.format_exc()[-1500:]})
    json.dump({"cases": out}, sys.stdout)


main()

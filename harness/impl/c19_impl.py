"""Implementation driver for C19: drives the output devices of the repository under test and reports what
reached the wire.

  * MIDI / MPE devices: `mido.open_output` (and `mido.get_output_names`) are replaced in THIS process by a fake
    port that records `msg.bytes()` of every message sent;
  * OSC device: a UDP socket bound on 127.0.0.1 (ephemeral port) receives the datagrams;
  * MIDI-file device: the file is written, then read back with mido.

stdin  {"midi": [case...], "osc": [case...], "osch": [history...], "mpe": [sequence...], "file": [case...], "timeline": [case...]}
stdout {"midi": [...], ...} one result per case; every exception is caught per call and reported by class name.

Argument encoding: JSON int / float / str as is; ["np", "int64", 5] -> numpy.int64(5); ["pat", x] -> a pattern
yielding x (for OSC send parameters).

File cases: {"ops": [op...], "ndev": k}; op = ["tpb", N(, dev)] (set dev.midifile.ticks_per_beat before anything else),
["tick", n(, dev)] (n tick() calls), [request, [args](, dev)] with request in note_on / note_off / control /
program_change / pitch_bend; `dev` selects one of the k devices of the case (all alive at the same time).  The result
carries, per device, every non-meta message of the saved file with its DELTA TIME, the file's ticks_per_beat, and
which requests the device class implements itself ("supports": a request it merely inherits from OutputDevice as a
no-op, or does not have, writes nothing).
OSC histories ("osch"): {"msgs": [{"op", "args", "dev"}...], "ndev": k}: every message of one history goes out
through one of k OSCOutputDevice instances (created once per history) to one socket; one result per message.
Timeline cases on the file device run a recording subclass that logs every tick() and request the Timeline makes
(in call order) before delegating to the real method; the log comes back as file-case ops."""
import sys, json, os, socket, tempfile
import mido


class FakePort:
    name = "verif-fake-port"
    closed = False

    def __init__(self):
        self.sent = []

    def send(self, msg):
        self.sent.append([msg.type, list(msg.bytes())])

    def close(self):
        pass

    def take(self):
        out, self.sent = self.sent, []
        return out


PORTS = []


def _open_output(name=None, virtual=False, **kw):
    p = FakePort()
    PORTS.append(p)
    return p


mido.open_output = _open_output
mido.get_output_names = lambda *a, **k: ["verif-fake-port"]

import isobar as iso                                        # noqa: E402
from isobar.io.midi.output import MidiOutputDevice          # noqa: E402
from isobar.io.mpe.output import MPEOutputDevice            # noqa: E402
from isobar.io.osc.output import OSCOutputDevice            # noqa: E402
from isobar.io.midifile.output import MidiFileOutputDevice  # noqa: E402


def arg(x):
    if isinstance(x, list) and x and x[0] == "np":
        import numpy as np
        return getattr(np, x[1])(x[2])
    if isinstance(x, list) and x and x[0] == "pat":
        return iso.PSequence([arg(x[1])])
    return x


def call(f, *a, **k):
    try:
        return None, f(*a, **k)
    except Exception as e:                                   # noqa: BLE001
        return type(e).__name__, None


MIDI_KW = {"note_on": ["note", "velocity", "channel"], "note_off": ["note", "channel"],
           "control": ["control", "value", "channel"], "program_change": ["program", "channel"],
           "pitch_bend": ["pitch", "channel"], "aftertouch": ["value", "channel"]}


def invoke(dev, op, args, kw):
    args = [arg(a) for a in args]
    f = getattr(dev, op)
    if kw:
        return call(f, **dict(zip(MIDI_KW[op], args)))
    return call(f, *args)


# ---- MIDI port ---------------------------------------------------------------------------------------
def do_midi(cases):
    dev = MidiOutputDevice("verif-fake-port")
    port = dev.midi
    out = []
    for c in cases:
        port.take()
        exc, _ = invoke(dev, c["op"], c["args"], c.get("kw"))
        out.append({"raise": exc, "sent": [b for (_, b) in port.take()]})
    return out


# ---- OSC ---------------------------------------------------------------------------------------------
def do_osc(cases):
    sock = socket.socket(socket.AF_INET, socket.SOCK_DGRAM)
    sock.bind(("127.0.0.1", 0))
    dev = OSCOutputDevice("127.0.0.1", sock.getsockname()[1])
    out = []
    for c in cases:
        op = c["op"]
        if op == "send":
            params = c["args"][1]
            a = [c["args"][0]] if params == "absent" else [c["args"][0], None if params is None else [arg(p) for p in params]]
            exc, _ = call(dev.send, *a)
        else:
            exc, _ = invoke(dev, op, c["args"], False)
        dgrams = []
        # loop-back delivery is immediate; wait only when the call claims to have sent something
        sock.settimeout(2.0 if exc is None else 0.05)
        try:
            dgrams.append(sock.recv(65536).hex())
            sock.settimeout(0.0)
            while True:
                dgrams.append(sock.recv(65536).hex())
        except (socket.timeout, BlockingIOError, OSError):
            pass
        out.append({"raise": exc, "dgrams": dgrams})
    sock.close()
    return out


# ---- MPE ---------------------------------------------------------------------------------------------
def do_mpe(seqs):
    out = []
    for seq in seqs:
        dev = MPEOutputDevice("verif-fake-port")
        port = dev.midi
        handles = {}
        res = []
        for c in seq:
            k = c[0]
            port.take()
            exc, ret, chan = None, None, None
            if k == 0:
                exc, ret = call(dev.note_on, c[1], c[2])
                if ret is not None:
                    handles[c[1]] = ret
                    chan = getattr(ret, "channel", None)
            elif k == 1:
                exc, _ = call(dev.note_off, c[1])
            elif k == 5:        # release through the handle the device returned
                h = handles.get(c[1])
                exc, _ = call(h.note_off) if h is not None else call(dev.note_off, c[1])
            else:
                h = handles.get(c[1])
                if h is not None:
                    if k == 2:
                        exc, _ = call(h.pitch_bend, c[2])
                    elif k == 3:
                        exc, _ = call(h.aftertouch, c[2])
                    elif k == 4:
                        exc, _ = call(h.control, c[2], c[3])
            res.append({"raise": exc, "sent": [b for (_, b) in port.take()], "chan": chan,
                        "none": (k == 0 and exc is None and ret is None)})
        out.append(res)
    return out


# ---- MPE with note identity: handles are numbered by the note_on call that returned them ---------------------
def do_mpev(seqs):
    """call = [0, n, v] device.note_on (its handle gets the number of the note_on call, 0-based; None when the device
    returned None), [1, n] device.note_off(n), [5, i] handle i .note_off(), [2, i, x] / [3, i, x] / [4, i, k, x] handle i
    .pitch_bend / .aftertouch / .control.  A call on a handle that does not exist is skipped (nothing can be sent)."""
    out = []
    for seq in seqs:
        dev = MPEOutputDevice("verif-fake-port")
        port = dev.midi
        handles = []
        res = []
        for c in seq:
            k = c[0]
            port.take()
            exc, ret, chan = None, None, None
            if k == 0:
                exc, ret = call(dev.note_on, c[1], c[2])
                handles.append(ret if exc is None else None)
                if ret is not None:
                    chan = getattr(ret, "channel", None)
            elif k == 1:
                exc, _ = call(dev.note_off, c[1])
            else:
                h = handles[c[1]] if 0 <= c[1] < len(handles) else None
                if h is not None:
                    if k == 5:
                        exc, _ = call(h.note_off)
                    elif k == 2:
                        exc, _ = call(h.pitch_bend, c[2])
                    elif k == 3:
                        exc, _ = call(h.aftertouch, c[2])
                    elif k == 4:
                        exc, _ = call(h.control, c[2], c[3])
            res.append({"raise": exc, "sent": [b for (_, b) in port.take()], "chan": chan,
                        "none": (k == 0 and exc is None and ret is None)})
        out.append(res)
    return out


# ---- several devices alive in one process, interleaved calls ----------------------------------------------
def do_multi(cases):
    """case = {"devs": ["mpe"|"midi"|"osc", ...], "lazy": bool, "calls": [[d, call], ...]}: device d is an object of class
    devs[d] with its OWN fake port / loop-back socket; created up-front, or (lazy) at its first call — i.e. after other
    devices have been used.  call: for "mpe" the list encoding of do_mpe, for "midi" {"op","args","kw"}, for "osc"
    {"op","args"}.  One result per call in the single-device format (do_mpe / do_midi / do_osc) plus "stray": what the
    call put on the ports / sockets of the OTHER devices."""
    out = []
    for case in cases:
        kinds = case["devs"]
        devs, ports, socks, handles = {}, {}, {}, {}

        def make(d):
            k = kinds[d]
            if k == "osc":
                sock = socket.socket(socket.AF_INET, socket.SOCK_DGRAM)
                sock.bind(("127.0.0.1", 0))
                socks[d] = sock
                devs[d] = OSCOutputDevice("127.0.0.1", sock.getsockname()[1])
            else:
                devs[d] = MPEOutputDevice("verif-fake-port") if k == "mpe" else MidiOutputDevice("verif-fake-port")
                ports[d] = devs[d].midi
            handles[d] = {}

        def drain(sock, wait):
            got = []
            sock.settimeout(wait)
            try:
                got.append(sock.recv(65536).hex())
                sock.settimeout(0.0)
                while True:
                    got.append(sock.recv(65536).hex())
            except (socket.timeout, BlockingIOError, OSError):
                pass
            return got

        if not case.get("lazy"):
            for d in range(len(kinds)):
                make(d)
        res = []
        for d, c in case["calls"]:
            if d not in devs:
                make(d)
            for p in ports.values():
                p.take()
            dev, k = devs[d], kinds[d]
            r = {}
            if k == "mpe":
                kk = c[0]
                exc, ret, chan = None, None, None
                hs = handles[d]
                if kk == 0:
                    exc, ret = call(dev.note_on, c[1], c[2])
                    if ret is not None:
                        hs[c[1]] = ret
                        chan = getattr(ret, "channel", None)
                elif kk == 1:
                    exc, _ = call(dev.note_off, c[1])
                elif kk == 5:
                    h = hs.get(c[1])
                    exc, _ = call(h.note_off) if h is not None else call(dev.note_off, c[1])
                else:
                    h = hs.get(c[1])
                    if h is not None:
                        if kk == 2:
                            exc, _ = call(h.pitch_bend, c[2])
                        elif kk == 3:
                            exc, _ = call(h.aftertouch, c[2])
                        elif kk == 4:
                            exc, _ = call(h.control, c[2], c[3])
                r = {"raise": exc, "chan": chan, "none": (kk == 0 and exc is None and ret is None)}
            elif k == "midi":
                exc, _ = invoke(dev, c["op"], c["args"], c.get("kw"))
                r = {"raise": exc}
            else:
                if c["op"] == "send":
                    params = c["args"][1]
                    a = [c["args"][0]] if params == "absent" else [c["args"][0], None if params is None else [arg(p) for p in params]]
                    exc, _ = call(dev.send, *a)
                else:
                    exc, _ = invoke(dev, c["op"], c["args"], False)
                r = {"raise": exc, "dgrams": drain(socks[d], 2.0 if exc is None else 0.05)}
            stray = []
            for e, p in ports.items():
                got = [b for (_, b) in p.take()]
                if e == d:
                    r["sent"] = got
                elif got:
                    stray.append([e, got])
            for e, sk in socks.items():
                if e != d:
                    got = drain(sk, 0.0)
                    if got:
                        stray.append([e, got])
            r["stray"] = stray
            res.append(r)
        for sk in socks.values():
            sk.close()
        out.append(res)
    return out


# ---- MIDI file ---------------------------------------------------------------------------------------
def read_file(path):
    mf = mido.MidiFile(path)
    msgs = []
    for tr in mf.tracks:
        for m in tr:
            if not m.is_meta:
                msgs.append({"type": m.type, "bytes": list(m.bytes()), "time": m.time})
    return msgs


FILE_REQS = ["note_on", "note_off", "control", "program_change", "pitch_bend", "aftertouch"]


def file_supports():
    from isobar.io.output import OutputDevice
    out = {}
    for name in FILE_REQS:
        f = getattr(MidiFileOutputDevice, name, None)
        out[name] = f is not None and f is not getattr(OutputDevice, name, None)
    return out


def invoke_file(dev, op, args):
    if not hasattr(dev, op):
        return "AttributeError"
    return invoke(dev, op, args, False)[0]


def do_file(cases, tmpdir):
    out = []
    sup = file_supports()
    for i, c in enumerate(cases):
        ndev = c.get("ndev", 1)
        paths = [os.path.join(tmpdir, "c19-%d-%d.mid" % (i, k)) for k in range(ndev)]
        devs = [MidiFileOutputDevice(p) for p in paths]
        calls = []
        for op in c["ops"]:
            dev = devs[op[2] if len(op) > 2 else 0]
            if op[0] == "tick":
                for _ in range(op[1]):
                    dev.tick()
                calls.append(None)
            elif op[0] == "tpb":
                dev.midifile.ticks_per_beat = op[1]
                calls.append(None)
            else:
                calls.append(invoke_file(dev, op[0], op[1]))
        files = []
        for dev, path in zip(devs, paths):
            exc, _ = call(dev.write)
            msgs, tpb = None, None
            if exc is None:
                e2, msgs = call(read_file, path)
                exc = e2
                if e2 is None:
                    tpb = mido.MidiFile(path).ticks_per_beat
            files.append({"write": exc, "msgs": msgs, "tpb": tpb, "device_tpb": call(lambda: dev.ticks_per_beat)[1]})
            try:
                os.unlink(path)
            except OSError:
                pass
        out.append({"calls": calls, "write": files[0]["write"], "msgs": files[0]["msgs"], "files": files, "supports": sup})
    return out


# ---- OSC histories: several messages through the same device(s), one result per message ---------------
def do_osch(hists):
    out = []
    for h in hists:
        sock = socket.socket(socket.AF_INET, socket.SOCK_DGRAM)
        sock.bind(("127.0.0.1", 0))
        devs = [OSCOutputDevice("127.0.0.1", sock.getsockname()[1]) for _ in range(h.get("ndev", 1))]
        res = []
        for c in h["msgs"]:
            dev = devs[c.get("dev", 0)]
            op = c["op"]
            if op == "send":
                params = c["args"][1]
                a = [c["args"][0]] if params == "absent" else [c["args"][0], None if params is None else [arg(p) for p in params]]
                exc, _ = call(dev.send, *a)
            else:
                exc, _ = invoke(dev, op, c["args"], False)
            dgrams = []
            sock.settimeout(2.0 if exc is None else 0.05)
            try:
                dgrams.append(sock.recv(65536).hex())
                sock.settimeout(0.0)
                while True:
                    dgrams.append(sock.recv(65536).hex())
            except (socket.timeout, BlockingIOError, OSError):
                pass
            res.append({"raise": exc, "dgrams": dgrams})
        sock.close()
        out.append(res)
    return out


def jsonable(x):
    """a request argument as the Timeline passed it -> the JSON argument spec of this driver"""
    if isinstance(x, bool) or x is None:
        return ["opaque", repr(x)]
    if isinstance(x, (int, float)) and type(x) in (int, float):
        return x
    mod = type(x).__module__
    if mod == "numpy" and hasattr(x, "item") and getattr(x, "shape", None) == ():
        return ["np", type(x).__name__, x.item()]
    return ["opaque", repr(x)]


def recording_file_device(path, log):
    """MidiFileOutputDevice that logs tick() and every request (call order) and then does the real thing"""
    def wrap(name):
        base = getattr(MidiFileOutputDevice, name)

        def f(self, *a, **k):
            names = MIDI_KW[name]
            args = list(a) + [k[n] for n in names[len(a):] if n in k]
            entry = [name, [jsonable(x) for x in args]]
            if len(args) != len(names):
                entry = ["opaque-call", name]
            log.append(entry)
            return base(self, *a, **k)
        return f

    def tick(self):
        if log and log[-1][0] == "tick":
            log[-1][1] += 1
        else:
            log.append(["tick", 1])
        return MidiFileOutputDevice.tick(self)
    body = {"tick": tick}
    for name in FILE_REQS:
        if hasattr(MidiFileOutputDevice, name):
            body[name] = wrap(name)
    return type("RecordingMidiFileOutputDevice", (MidiFileOutputDevice,), body)(path)


# ---- through Timeline / Track.perform_event ----------------------------------------------------------
def do_timeline(cases, tmpdir):
    out = []
    for i, c in enumerate(cases):
        kind = c["device"]
        sock = None
        path = None
        if kind == "midi":
            dev = MidiOutputDevice("verif-fake-port")
        elif kind == "file":
            path = os.path.join(tmpdir, "c19-tl-%d.mid" % i)
            log = []
            dev = recording_file_device(path, log)
            if c.get("tpb"):
                dev.midifile.ticks_per_beat = c["tpb"]
        else:
            sock = socket.socket(socket.AF_INET, socket.SOCK_DGRAM)
            sock.bind(("127.0.0.1", 0))
            dev = OSCOutputDevice("127.0.0.1", sock.getsockname()[1])

        def go():
            tl = iso.Timeline(output_device=dev, clock_source=iso.DummyClock())
            tl.stop_when_done = True
            ev = {}
            for k, v in c["events"].items():
                ev[k] = iso.PSequence([arg(x) if k != "osc_params" else [arg(y) for y in x] for x in v], 1) if isinstance(v, list) else v
            tl.schedule(ev)
            tl.run()
        exc, _ = call(go)
        r = {"raise": exc}
        if kind == "midi":
            r["sent"] = [b for (t, b) in dev.midi.take() if t not in ("clock", "start", "stop")]
        elif kind == "file":
            e2, _ = call(dev.write)
            r["write"] = e2
            r["msgs"] = call(read_file, path)[1] if e2 is None else None
            r["log"] = log
            r["tpb"] = call(lambda: mido.MidiFile(path).ticks_per_beat)[1] if e2 is None else None
            r["supports"] = file_supports()
            try:
                os.unlink(path)
            except OSError:
                pass
        else:
            dg = []
            sock.settimeout(0.5 if exc is None else 0.05)
            try:
                dg.append(sock.recv(65536).hex())
                sock.settimeout(0.0)
                while True:
                    dg.append(sock.recv(65536).hex())
            except (socket.timeout, BlockingIOError, OSError):
                pass
            sock.close()
            r["dgrams"] = dg
        out.append(r)
    return out


def main():
    req = json.load(sys.stdin)
    out = {}
    real_stdout = sys.stdout
    sys.stdout = sys.stderr          # the Timeline prints diagnostics; keep them out of the JSON stream
    with tempfile.TemporaryDirectory(prefix="c19-") as tmpdir:
        if "midi" in req:
            out["midi"] = do_midi(req["midi"])
        if "osc" in req:
            out["osc"] = do_osc(req["osc"])
        if "osch" in req:
            out["osch"] = do_osch(req["osch"])
        if "mpe" in req:
            out["mpe"] = do_mpe(req["mpe"])
        if "mpev" in req:
            out["mpev"] = do_mpev(req["mpev"])
        if "multi" in req:
            out["multi"] = do_multi(req["multi"])
        if "file" in req:
            out["file"] = do_file(req["file"], tmpdir)
        if "timeline" in req:
            out["timeline"] = do_timeline(req["timeline"], tmpdir)
    json.dump(out, real_stdout)


main()

"""Implementation driver for C18: runs Automation / LFO scenarios of the repository under test on a manually
ticked Timeline (recording OutputDevice, DummyClock) and reports API-level observables only:
automation.value / lfo.value after every operation and tick, what bound objects received, what a scheduled
track read.  Bound targets may be plain objects, dataclass instances or instances of a class defining __eq__ (several
of them equal at bind time, never identical); every call is recorded under the target's identity.  The timeline's
resolution may be re-assigned between two operations (set_tpb).  stdin: {"autos": [...], "lfos": [...]}  stdout: JSON.  Every exception is caught per case and
reported by class name."""
import sys, json, warnings, io, contextlib
from dataclasses import dataclass
import isobar as iso

warnings.simplefilter("ignore")


class Dev(iso.OutputDevice):
    def __init__(self):
        super().__init__()
        self.log = []
        self.now = 0

    def control(self, control=0, value=0, channel=0):
        self.log.append([self.now, control, value, channel])


class AttrTarget:
    """bound in "attr" mode: the setter of .level records what it is given"""
    def __init__(self, ident, log):
        self._id, self._log, self._v = ident, log, None

    @property
    def level(self):
        return self._v

    @level.setter
    def level(self, v):
        self._v = v
        self._log.append([self._id, float(v), True])


class MethodTarget:
    """bound in "method" mode with extra keyword arguments"""
    def __init__(self, ident, log, kwargs):
        self._id, self._log, self._kw = ident, log, kwargs

    def set_level(self, value=None, **kw):
        self._log.append([self._id, None if value is None else float(value), kw == self._kw])


def f(x):
    return None if x is None else float(x)


# ---- targets that compare equal without being identical (value types, classes defining __eq__) --------------
@dataclass
class Voice:
    """a value-type synth voice bound in "attr" mode: == compares the fields (dataclass), so two voices made from the
    same preset with the same level are equal but not identical.  What it is given is recorded under its identity."""
    preset: int = 0
    level: float = 0.0

    def __setattr__(self, k, v):
        object.__setattr__(self, k, v)
        sink = self.__dict__.get("_sink")
        if k == "level" and sink is not None:
            sink.append([self.__dict__["_ident"], float(v), True])


@dataclass
class Strip:
    """a value-type mixer strip bound in "method" mode: equal whenever the bus is"""
    bus: int = 0

    def set_level(self, value=None, **kw):
        d = self.__dict__
        d["_sink"].append([d["_ident"], None if value is None else float(value), kw == d["_kw"]])


class Named:
    """a class with its own __eq__ / __hash__ (by name); used in both modes"""
    def __init__(self, name, ident, log, kwargs):
        self.name, self._id, self._log, self._kw, self._v = name, ident, log, kwargs, None

    def __eq__(self, other):
        return isinstance(other, Named) and other.name == self.name

    def __hash__(self):
        return hash(self.name)

    @property
    def level(self):
        return self._v

    @level.setter
    def level(self, v):
        self._v = v
        self._log.append([self._id, float(v), True])

    def set_level(self, value=None, **kw):
        self._log.append([self._id, None if value is None else float(value), kw == self._kw])


def make_target(mode, kind, key, ident, log, kwargs, current):
    """kind: plain (identity equality) / dc (dataclass, equal fields at bind time) / eq (class defining __eq__)"""
    if kind == "dc":
        if mode == "attr":
            t = Voice(preset=key, level=float(current))
            t.__dict__["_ident"], t.__dict__["_sink"] = ident, log
        else:
            t = Strip(bus=key)
            t.__dict__.update({"_ident": ident, "_sink": log, "_kw": kwargs})
        return t
    if kind == "eq":
        return Named("voice%d" % key, ident, log, kwargs)
    return AttrTarget(ident, log) if mode == "attr" else MethodTarget(ident, log, kwargs)


def set_resolution(tl, n, how):
    """the timeline's resolution is changed mid-run: the public setter, or a clock source with another resolution"""
    if how == "clock":
        tl.clock_source = iso.DummyClock(ticks_per_beat=n)
    else:
        tl.ticks_per_beat = n


def run_auto(sc):
    dev = Dev()
    tl = iso.Timeline(output_device=dev, clock_source=iso.DummyClock(ticks_per_beat=sc["tpb"]))
    kw = {}
    if sc.get("range") is not None:
        kw["range"] = tuple(sc["range"])
    if sc.get("initial") is not None:
        kw["initial"] = sc["initial"]
    if sc.get("boundaries") is not None:
        kw["boundaries"] = sc["boundaries"]
    if sc.get("default_duration") is not None:
        kw["default_duration"] = sc["default_duration"]
    a = tl.automation(**kw)
    log = []
    nbind = [0]
    targets = []
    out = {"init": f(a.value), "segs": [], "probe": [], "registered": a in tl.automations}
    tickno = [0]
    if sc.get("probe"):
        def probe():
            out["probe"].append([tickno[0], f(a.value)])
        tl.schedule({"action": probe, "duration": sc["probe"] / sc["tpb"]})

    def canon():
        """0: no call; 1: every binding called exactly once with automation.value and its kwargs; else the calls"""
        calls = list(log)
        del log[:]
        if not calls:
            return 0
        v = float(a.value)
        if sorted(c[0] for c in calls) == list(range(nbind[0])) and all(c[1] == v and c[2] for c in calls):
            return 1
        return calls

    for sg in sc["segs"]:
        rec = {"raise": None, "value": None, "calls": [], "ticks": []}
        out["segs"].append(rec)
        op = sg.get("op")
        try:
            if op is not None:
                if op[0] in ("move_to", "move_by"):
                    args = {"envelope": op[3]} if op[3] is not None else {}
                    if op[2] is not None:
                        args["duration"] = op[2]
                    getattr(a, op[0])(op[1], **args)
                elif op[0] == "jump_to":
                    a.jump_to(op[1])
                elif op[0] == "set_range":
                    a.range = None if op[1] is None else tuple(op[1])
                elif op[0] == "set_boundaries":
                    a.boundaries = op[1]
                elif op[0] == "set_default":
                    a.default_duration = op[1]
                elif op[0] == "set_tpb":
                    set_resolution(tl, op[1], op[2])
                elif op[0] == "bind":
                    ident = nbind[0]
                    nbind[0] += 1
                    parts = op[1].split("/")
                    mode, kind, key = parts[0], (parts[1] if len(parts) > 1 else "plain"), (int(parts[2]) if len(parts) > 2 else 0)
                    target = make_target(mode, kind, key, ident, log, op[2], a.value)
                    targets.append(target)
                    if mode == "attr":
                        a.bind_to(target, "level")
                    else:
                        a.bind_to(target, "set_level", mode="method", **op[2])
            rec["value"] = f(a.value)
            rec["calls"] = sorted(log)
            del log[:]
            for _ in range(sg.get("ticks", 0)):
                dev.now = tickno[0]
                tl.tick()
                tickno[0] += 1
                rec["ticks"].append([f(a.value), canon()])
        except Exception as e:
            rec["raise"] = type(e).__name__
            rec["message"] = str(e)[:200]
            break
    return out


def run_lfo(sc):
    dev = Dev()
    tl = iso.Timeline(output_device=dev, clock_source=iso.DummyClock(ticks_per_beat=sc["tpb"]))
    out = {"raise": None}
    try:
        lfo = tl.lfo({"shape": "sine", "frequency": sc["freq"], "min": sc["min"], "max": sc["max"]})
        out["init"] = f(lfo.value)
        out["registered"] = lfo in tl.lfos
        pat = iso.Pattern.pattern(lfo)
        out["pattern_class"] = type(pat).__name__
        out["init_pattern"] = f(next(pat))

        class Holder:
            cutoff = None
        h = Holder()
        lfo.bind(h, "cutoff")
        seen = []
        tl.schedule({"control": 7, "value": lfo, "channel": 2, "duration": sc["every"] / sc["tpb"]})
        tl.schedule({"action": lambda x: seen.append([dev.now, f(x)]), "args": {"x": pat}, "duration": sc["every"] / sc["tpb"]})
        vals, pats, bound = [], [], []
        for k in range(sc["ticks"]):
            dev.now = k
            tl.tick()
            vals.append(f(lfo.value))
            pats.append(f(next(pat)))
            bound.append(f(h.cutoff))
        out.update({"values": vals, "pattern": pats, "bound": bound,
                    "controls": [[c[0], f(c[2])] for c in dev.log if c[1] == 7 and c[3] == 2], "action_args": seen})
    except Exception as e:
        out["raise"] = type(e).__name__
        out["message"] = str(e)[:200]
    return out


def run_lfo_script(sc):
    """an LFO that is re-configured after construction, between ticks: attribute assignment, LFO.update,
    Timeline.lfo(params, name=<its name>) (documented in-place update), LFO.reset, a second LFO created under
    another name; observed after every operation and every tick: lfo.value, two reads of the same PLFO, a read
    of a PLFO made afresh, the bound attribute, what scheduled tracks read"""
    dev = Dev()
    tl = iso.Timeline(output_device=dev, clock_source=iso.DummyClock(ticks_per_beat=sc["tpb"]))
    out = {"raise": None, "segs": []}
    try:
        lfo = tl.lfo({"shape": "sine", "frequency": sc["freq"], "min": sc["min"], "max": sc["max"]}, name="mod")
        out["init"] = f(lfo.value)
        out["registered"] = lfo in tl.lfos
        pat = iso.Pattern.pattern(lfo)
        out["pattern_class"] = type(pat).__name__
        out["init_pattern"] = f(next(pat))

        class Holder:
            cutoff = None
        h = Holder()
        lfo.bind(h, "cutoff")
        seen = []
        tl.schedule({"control": 7, "value": lfo, "channel": 2, "duration": sc["every"] / sc["tpb"]})
        tl.schedule({"action": lambda x: seen.append([dev.now, f(x)]), "args": {"x": pat}, "duration": sc["every"] / sc["tpb"]})
        k = 0
        nother = 0
        for sg in sc["segs"]:
            rec = {"value": None, "pattern": None, "same": None, "n_lfos": None, "ticks": []}
            out["segs"].append(rec)
            op = sg.get("op")
            if op is not None:
                if op[0] == "set":
                    setattr(lfo, op[1], op[2])
                elif op[0] == "update":
                    lfo.update(dict(op[1]))
                elif op[0] == "tl_lfo":
                    r = tl.lfo(dict(op[1]), name="mod")
                    rec["same"] = r is lfo
                    rec["n_lfos"] = len(tl.lfos)
                elif op[0] == "tl_other":
                    nother += 1
                    r = tl.lfo(dict(op[1]), **({"name": "other%d" % nother} if op[2] else {}))
                    rec["same"] = r is lfo
                    rec["n_lfos"] = len(tl.lfos)
                elif op[0] == "reset":
                    lfo.reset()
                elif op[0] == "set_tpb":
                    set_resolution(tl, op[1], op[2])
                elif op[0] == "new_pattern":
                    pat = iso.PLFO(lfo)
                rec["value"] = f(lfo.value)
                rec["pattern"] = [f(next(pat)), f(next(pat)), f(next(iso.PLFO(lfo)))]
            for _ in range(sg.get("ticks", 0)):
                dev.now = k
                k += 1
                tl.tick()
                rec["ticks"].append([f(lfo.value), f(next(pat)), f(next(pat)), f(next(iso.Pattern.pattern(lfo))), f(h.cutoff)])
        out.update({"controls": [[c[0], f(c[2])] for c in dev.log if c[1] == 7 and c[3] == 2], "action_args": seen})
    except Exception as e:
        out["raise"] = type(e).__name__
        out["message"] = str(e)[:200]
    return out


def build_reader(spec, lfo):
    """the pattern object a reader spec stands for (coq/Auto/Readers.v rspec), children first"""
    k = spec[0]
    if k == "lfo":
        return iso.PLFO(lfo)
    if k == "const":
        return iso.PConstant(spec[1])
    if k == "bin":
        cls = {"add": iso.PAdd, "sub": iso.PSub, "mul": iso.PMul}[spec[1]]
        a = build_reader(spec[2], lfo)
        return cls(a, build_reader(spec[3], lfo))
    if k == "seq":
        return iso.PSequence(list(spec[1])) if spec[2] else iso.PSequence(list(spec[1]), 1)
    if k == "concat":
        return iso.PConcatenate([build_reader(x, lfo) for x in spec[1]])
    if k == "reset":
        r = build_reader(spec[1], lfo)
        return iso.PReset(r, build_reader(spec[2], lfo))
    if k == "pingpong":
        return iso.PPingPong(build_reader(spec[1], lfo), spec[2])
    raise ValueError("reader spec %r" % (spec,))


def run_lfo_readers(sc):
    """one LFO that keeps running while it is READ THROUGH PATTERNS: standalone readers (PLFO inside expressions,
    PConcatenate, PReset, PPingPong, finite wrappers) that are advanced / reset / drained by all() and len() / copied /
    constructed mid-cycle, tracks whose event stream reads the LFO and which are reset (Track.reset, timeline.schedule(track),
    timeline.reset) or re-scheduled by name.  Observed after every operation: what it returned, lfo.value, a witness PLFO
    nobody else touches, the bound attribute; per tick also what every track sent"""
    dev = Dev()
    tl = iso.Timeline(output_device=dev, clock_source=iso.DummyClock(ticks_per_beat=sc["tpb"]))
    out = {"raise": None, "ops": []}
    try:
        lfo = tl.lfo({"shape": "sine", "frequency": sc["freq"], "min": sc["min"], "max": sc["max"]})
        out["init"] = f(lfo.value)
        witness = iso.PLFO(lfo)

        class Holder:
            cutoff = None
        h = Holder()
        lfo.bind(h, "cutoff")
        readers, tracks, params = [], [], []
        for j, t in enumerate(sc.get("tracks", [])):
            value = lfo if t["value"] == "raw-lfo" else build_reader(t["value"], lfo)
            ev = {"control": 20 + j, "value": value, "channel": 1, "duration": t["every"] / sc["tpb"]}
            params.append(ev)
            tracks.append(tl.schedule(ev, name="reader%d" % j))
        k = 0

        def sent(tick):
            return [[c[1] - 20, f(c[2])] for c in dev.log if c[0] == tick and c[3] == 1 and c[1] >= 20]
        for op in sc["ops"]:
            rec = {"result": None, "raise": None}
            out["ops"].append(rec)
            if op[0] == "tick":
                rec["ticks"] = []
                for _ in range(op[1]):
                    dev.now = k
                    tl.tick()
                    rec["ticks"].append([f(lfo.value), f(next(witness)), f(h.cutoff), sent(k)])
                    k += 1
                continue
            try:
                if op[0] == "build":
                    readers.append(build_reader(op[1], lfo))
                elif op[0] == "next":
                    try:
                        rec["result"] = ["val", f(next(readers[op[1]]))]
                    except StopIteration:
                        rec["result"] = ["stop"]
                elif op[0] == "reset":
                    readers[op[1]].reset()
                elif op[0] == "all":
                    rec["result"] = ["list", [f(x) for x in readers[op[1]].all()]]
                elif op[0] == "len":
                    rec["result"] = ["len", len(readers[op[1]])]
                elif op[0] == "copy":
                    c = readers[op[1]].copy()
                    rec["result"] = ["copied", c is not readers[op[1]]]
                elif op[0] == "track_reset":
                    tracks[op[1]].reset()
                elif op[0] == "reschedule":
                    tl.schedule(tracks[op[1]])
                elif op[0] == "reschedule_name":
                    r = tl.schedule(dict(params[op[1]]), name="reader%d" % op[1])
                    rec["result"] = ["same", r is tracks[op[1]]]
                elif op[0] == "timeline_reset":
                    tl.reset()
            except Exception as e:
                rec["raise"] = type(e).__name__
                rec["message"] = str(e)[:160]
            rec["lfo"] = f(lfo.value)
            rec["witness"] = f(next(witness))
        out["n_lfos"] = len(tl.lfos)
    except Exception as e:
        out["raise"] = type(e).__name__
        out["message"] = str(e)[:200]
    return out


def main():
    req = json.load(sys.stdin)
    sink = io.StringIO()
    with contextlib.redirect_stdout(sink), contextlib.redirect_stderr(sink):
        res = {"autos": [run_auto(sc) for sc in req.get("autos", [])],
               "lfos": [run_lfo(sc) for sc in req.get("lfos", [])],
               "lfo_scripts": [run_lfo_script(sc) for sc in req.get("lfo_scripts", [])],
               "lfo_readers": [run_lfo_readers(sc) for sc in req.get("lfo_readers", [])]}
    res["noise"] = sink.getvalue()[-500:]
    json.dump(res, sys.stdout)


main()

"""Implementation driver for the scheduler properties (C01 C02 C05 C06 C07 C17).

stdin: {"scenarios": [scenario, ...]}; stdout: {"results": [sparse observation list or {"driver_error": ...}]}.

A scenario is {"tpb": int, "U": units per beat, "config": {...}, "callbacks": [{"raise": "none|exc|stop", "ops": [...]}],
"ops": [...]}.  All times are integers in units (1/U beat); they are converted to the correctly rounded float
of units/U, i.e. what a user typing the decimal/fraction would pass.  Optional "floats": {"<position in ops>": {"q": hex, "d": hex}}
gives the quantize / delay argument of that top-level schedule or update as the double itself (float.hex), for callers that
write a time as a float expression (a product or a sum) whose value is not the correctly rounded one.
Optional config "devices": K > 1 gives the timeline K recording output devices.  A channel number c of the scenario then means
MIDI channel c % 16 on device c // 16: a track is scheduled on the device of its stream's first channel (or on "op_device":
{"<position in ops>": d}, which also is the output_device argument of a schedule(name=..., replace=True) that meets an existing
track), events carry channel c % 16, and device d reports every call with channel + 16 * d - so the observation keeps its
format and is per device.  Stream forms "blank_none" / "blank_dict" pass None / {} as the events (a track without events).  Observation of every operation: device
calls made (recording OutputDevice), result (ok / stop = StopIteration / exc / limit / notfound), ids of the
tracks in Timeline.tracks in order.  Only operations with a non-empty observation are listed, with their index.
"""
import sys, json
from fractions import Fraction
import isobar as iso
from isobar.exceptions import TrackLimitReachedException, TrackNotFoundException


class Rec(iso.OutputDevice):
    def __init__(self, fail_at, hub=None, tag=0):
        super().__init__()
        self._calls = []
        self.n = 0
        self.fail_at = fail_at
        self.hub = hub            # the device whose call list collects the calls of all devices (None: this one)
        self.tag = tag            # added to every reported channel: 16 * device index

    @property
    def calls(self):
        return self._calls if self.hub is None else self.hub._calls

    @calls.setter
    def calls(self, v):
        if self.hub is None:
            self._calls = v
        else:
            self.hub._calls = v

    @property
    def ticks_per_beat(self):
        return None

    def _emit(self, c):
        k = self.n
        self.n += 1
        if self.fail_at is not None and k == self.fail_at:
            raise RuntimeError("device fault (scripted)")
        self.calls.append(c)

    def note_on(self, note=60, velocity=64, channel=0):
        self._emit(["on", note, velocity, channel + self.tag])

    def note_off(self, note=60, channel=0):
        self.calls.append(["off", note, channel + self.tag])

    def control(self, control=0, value=0, channel=0):
        self._emit(["ctl", control, value, channel + self.tag])

    def program_change(self, program=0, channel=0):
        self._emit(["pgm", program, channel + self.tag])


class Scripted(iso.Pattern):
    """an event stream given by an explicit script; entries may raise"""
    def __init__(self, items, cyclic):
        self.items, self.pos, self.cyclic = items, 0, cyclic

    def __next__(self):
        if self.pos >= len(self.items):
            raise StopIteration
        it = self.items[self.pos]
        self.pos += 1
        if self.cyclic and self.pos == len(self.items):
            self.pos = 0
        if it == "raise":
            raise RuntimeError("pattern fault (scripted)")
        return dict(it)

    def reset(self):
        self.pos = 0


class Driver:
    def __init__(self, sc):
        self.sc = sc
        self.U = sc["U"]
        cfg = sc["config"]
        self.dev = Rec(cfg.get("dev_fail"))
        self.tl = iso.Timeline(cfg.get("tempo", 120), output_device=self.dev,
                               clock_source=iso.DummyClock(ticks_per_beat=sc["tpb"]),
                               ignore_exceptions=bool(cfg.get("ignore")))
        self.tl.max_tracks = cfg.get("max_tracks", 0)
        self.tl.stop_when_done = bool(cfg.get("stop_when_done"))
        lat = cfg.get("latency", 0)
        if lat:
            self.dev.added_latency_seconds = self.beats(lat) * 60.0 / cfg.get("tempo", 120)
        self.created = []
        self.ndev = int(cfg.get("devices", 1))
        self.devs = [self.dev] + [Rec(None, hub=self.dev, tag=16 * i) for i in range(1, self.ndev)]
        for d in self.devs[1:]:
            self.tl.add_output_device(d)
        self.op_device = sc.get("op_device") or {}
        self.floats = sc.get("floats") or {}
        self.cb_fns = [self.make_cb(i, cb) for i, cb in enumerate(sc.get("callbacks", []))]

    def beats(self, units):
        return float(Fraction(units, self.U))

    def opt_beats(self, u):
        return None if u is None else self.beats(u)

    def make_cb(self, i, cb):
        def fn():
            self.dev.calls.append(["cb", i])
            for o in cb["ops"]:
                self.exec_op(o, inside=True)
            if cb["raise"] == "exc":
                raise ValueError("callback fault (scripted)")
            if cb["raise"] == "stop":
                raise StopIteration
        # the property quantifies over user callbacks: any callable will do, not only a plain function (a functools.partial
        # and a callable object have no __name__, a bound method is not a function) - the form varies with the callback
        form = (i + len(cb["ops"]) + len(self.sc.get("ops", []))) % 4
        if form == 1:
            import functools
            return functools.partial(lambda f: f(), fn)
        if form == 2:
            class CallableObject:
                def __call__(self_inner):
                    return fn()
            return CallableObject()
        if form == 3:
            class Holder:
                def method(self_inner):
                    return fn()
            return Holder().method
        return fn

    def frac(self, g):
        return None if g is None else float(Fraction(g[0], g[1]))

    def event_dict(self, ev):
        k = ev["k"]
        if k == "raise_eval":
            return "raise"
        d = {"duration": self.beats(ev.get("dur", self.U))}
        if "active" in ev:
            d["active"] = ev["active"]
        if k == "raise_ctor":
            d["note"] = 60
            d["degree"] = 1
        elif k == "note":
            note = ev["note"]
            d["note"] = tuple(note) if isinstance(note, list) else note
            amp, gate, chan = ev["amp"], ev["gate"], ev["chan"]
            d["amplitude"] = tuple(amp) if isinstance(amp, list) else amp
            if gate is not None and isinstance(gate[0], (list, type(None))) or gate == []:
                d["gate"] = tuple(self.frac(g) for g in gate)
            else:
                d["gate"] = self.frac(gate)
            d["channel"] = tuple(self.ch(c) for c in chan) if isinstance(chan, list) else self.ch(chan)
        elif k == "action":
            d["action"] = self.cb_fns[ev["cb"]]
        elif k == "control":
            d["control"], d["value"], d["channel"] = ev["ctl"], ev["val"], self.ch(ev["chan"])
        elif k == "program":
            d["program_change"], d["channel"] = ev["prog"], self.ch(ev["chan"])
        else:
            raise ValueError("bad event kind %r" % k)
        return d

    def ch(self, c):
        return c % 16 if self.ndev > 1 else c

    def device_of(self, s, pos):
        """the output device of a schedule(): op_device of this top-level op, else the device of the stream's first channel"""
        if self.ndev <= 1:
            return None
        if pos is not None and str(pos) in self.op_device:
            return self.devs[self.op_device[str(pos)]]
        for it in s["items"]:
            c = it.get("chan") if isinstance(it, dict) else None
            if c is not None:
                return self.devs[(c[0] if isinstance(c, list) else c) // 16]
        return None

    def stream(self, s):
        form = s.get("form", "scripted")
        if form == "blank_none":
            return None
        if form == "blank_dict":
            return {}
        items = [self.event_dict(e) for e in s["items"]]
        if form == "psequence" and "raise" not in items:
            return iso.PSequence(items, 1) if not s["cyclic"] else iso.PSequence(items)
        if form == "pdict" and "raise" not in items and items and all(set(i) == set(items[0]) for i in items):
            rep = {} if s["cyclic"] else {"repeats": 1}
            return iso.PDict(dict((key, iso.PSequence([i[key] for i in items], **rep)) for key in items[0]))
        return Scripted(items, s["cyclic"])

    def track(self, t):
        return self.created[t] if 0 <= t < len(self.created) else None

    def qd_floats(self, q, d, pos):
        ov = self.floats.get(str(pos)) if pos is not None else None
        q, d = self.opt_beats(q), self.opt_beats(d)
        if ov:
            if "q" in ov: q = float.fromhex(ov["q"])
            if "d" in ov: d = float.fromhex(ov["d"])
        return q, d

    def exec_op(self, o, inside=False, pos=None):
        kind = o[0]
        tl = self.tl
        if kind == "schedule":
            _, s, q, d, count, rwd, name, replace = o
            q, d = self.qd_floats(q, d, pos)
            try:
                kw = {}
                dev = self.device_of(s, pos)
                if dev is not None:
                    kw["output_device"] = dev
                tr = tl.schedule(self.stream(s), quantize=q, delay=d, count=count,
                                 remove_when_done=rwd, name=None if name is None else "n%d" % name, replace=replace, **kw)
            except TrackLimitReachedException:
                if inside:
                    raise
                return "limit"
            if not any(tr is c for c in self.created):
                self.created.append(tr)
            return "ok"
        if kind == "update":
            _, t, s, q, d, count = o
            tr = self.track(t)
            q, d = self.qd_floats(q, d, pos)
            if tr is not None:
                tr.update(self.stream(s), quantize=q, delay=d, count=count)
            return "ok"
        if kind == "unschedule":
            tr = self.track(o[1])
            if tr is None:
                return "notfound"
            try:
                tl.unschedule(tr)
            except TrackNotFoundException:
                if inside:
                    raise
                return "notfound"
            return "ok"
        if kind == "clear":
            tl.clear(); return "ok"
        if kind == "mute":
            tr = self.track(o[1])
            if tr is not None: tr.mute()
            return "ok"
        if kind == "unmute":
            tr = self.track(o[1])
            if tr is not None: tr.unmute()
            return "ok"
        if kind == "nudge":
            tr = self.track(o[1])
            if tr is not None: tr.nudge(self.beats(o[2]))
            return "ok"
        if kind == "defaults":
            tl.defaults.quantize = self.beats(o[1])
            tl.defaults.delay = self.beats(o[2])
            return "ok"
        raise ValueError("bad op %r" % (o,))

    def ids(self):
        out = []
        for tr in self.tl.tracks:
            for i, c in enumerate(self.created):
                if c is tr:
                    out.append(i); break
            else:
                out.append(-1)
        return out

    def run(self):
        sparse, prev, idx = [], [], 0
        times_ok = True
        for pos, o in enumerate(self.sc["ops"]):
            reps = o[1] if o[0] == "tick" else 1
            for _ in range(reps):
                self.dev.calls = []
                if o[0] == "tick":
                    try:
                        self.tl.tick(); res = "ok"
                    except StopIteration:
                        res = "stop"
                    except Exception:
                        res = "exc"
                else:
                    res = self.exec_op(o, pos=pos)
                ids = self.ids()
                if self.dev.calls or res != "ok" or ids != prev:
                    sparse.append([idx, self.dev.calls, res, ids])
                prev = ids
                idx += 1
        # Timeline.current_time expressed as a tick count (C01/C17: one tick per tick)
        t = self.tl.current_time * self.sc["tpb"]
        return {"obs": sparse, "now_ticks": t, "track_times": [tr.current_time * self.sc["tpb"] for tr in self.tl.tracks]}


def main():
    req = json.load(sys.stdin)
    out = []
    import io, contextlib
    for sc in req["scenarios"]:
        try:
            buf = io.StringIO()
            with contextlib.redirect_stdout(buf), contextlib.redirect_stderr(buf):
                r = Driver(sc).run()
            out.append(r)
        except Exception as e:
            import traceback
            out.append({"driver_error": "%s: %s" % (type(e).__name__, e), "tb": traceback.format_exc()[-1500:]})
    json.dump({"results": out}, sys.stdout)


main()

"""Implementation driver for C16: writes MIDI files with the repository under test (PDict.save, a Timeline
with a MidiFileOutputDevice, or the device driven call by call), builds foreign files directly with mido,
parses every file independently with mido and reads it with MidiFileInputDevice.read().

stdin : {"dir": <scratch dir>, "cases": [case, ...]}
  case = {"kind": "events", "via": "save"|"timeline"|"manual", "clock_tpb": N, "file_tpb": M|null,
          "events": [{"notes": [[pitch, vel, len_ticks], ...], "dur": ticks, "shape": "tuple"|"scalar"}, ...]}
       | {"kind": "device", "ops": [["t", n] | ["on", note, vel, ch] | ["off", note, ch]], "file_tpb": M|null}
       | {"kind": "foreign", "tpb": N, "type": 0|1, "tracks": [[[delta, kind, ...], ...], ...]}
       | {"kind": "history", ...}   (see run_history: long-lived reader objects across rewrites of their files)
stdout: {"cases": [{"file": {"tpb":..,"tracks":[[[delta, kind, ...]]]}, "read": {...}|{"raise": cls}, "write_error": cls|null}]}
Durations/gates are given in ticks by the harness and converted to beats (floats) here, as a user would."""
import sys, json, os
from fractions import Fraction
import mido
import isobar as iso
from isobar.io.midifile import MidiFileOutputDevice, MidiFileInputDevice


def plain(x):
    if isinstance(x, (tuple, list)):
        return [plain(y) for y in x]
    if x is None or isinstance(x, (int, float, str, bool)):
        return x
    try:
        return float(x)
    except Exception:
        return repr(type(x).__name__)


def seq_to_list(p):
    s = getattr(p, "sequence", None)
    if s is None:
        s = p.nextn(100000)
    return [tuple(v) if isinstance(v, (tuple, list)) else v for v in s]


def do_read(path, dev=None, quantize=None):
    """read() through a fresh reader object, or through the given (long-lived) one"""
    try:
        if dev is None:
            dev = MidiFileInputDevice(path)
        d = dev.read() if quantize is None else dev.read(quantize=quantize)
        out = {}
        for k in (iso.EVENT_NOTE, iso.EVENT_AMPLITUDE, iso.EVENT_GATE, iso.EVENT_DURATION):
            out[k] = [{"t": plain(v)} if isinstance(v, tuple) else plain(v) for v in seq_to_list(d[k])]
        out["is_psequence"] = all(isinstance(d[k], iso.PSequence) for k in d)
        out["keys"] = sorted(str(k) for k in d.keys())
        return out
    except Exception as e:
        return {"raise": type(e).__name__}


def do_load(path):
    """the same through PDict.load"""
    try:
        pd = iso.PDict({})
        pd.load(path)
        out = {}
        for k in (iso.EVENT_NOTE, iso.EVENT_AMPLITUDE, iso.EVENT_GATE, iso.EVENT_DURATION):
            out[k] = [{"t": plain(v)} if isinstance(v, tuple) else plain(v) for v in seq_to_list(pd[k])]
        return out
    except Exception as e:
        return {"raise": type(e).__name__}


def parse(path):
    """independent parse of the file with mido"""
    mf = mido.MidiFile(path)
    tracks = []
    for tr in mf.tracks:
        ms = []
        for m in tr:
            if m.type == "note_on":
                ms.append([m.time, "note_on", m.channel, m.note, m.velocity])
            elif m.type == "note_off":
                ms.append([m.time, "note_off", m.channel, m.note, m.velocity])
            else:
                ms.append([m.time, m.type])
        tracks.append(ms)
    return {"tpb": mf.ticks_per_beat, "type": mf.type, "tracks": tracks}


def event_dict(events, tpb):
    notes, amps, gates, durs = [], [], [], []
    for e in events:
        d = e["dur"]
        durs.append(float(Fraction(d, tpb)))
        vs = e["notes"]
        if not vs:
            notes.append(None); amps.append(64); gates.append(1.0)
        elif len(vs) == 1 and e.get("shape") != "tuple1":
            notes.append(vs[0][0]); amps.append(vs[0][1]); gates.append(float(Fraction(vs[0][2], d)))
        else:
            notes.append(tuple(v[0] for v in vs))
            if e.get("shape") == "scalar" and len({v[1] for v in vs}) == 1 and len({v[2] for v in vs}) == 1:
                amps.append(vs[0][1]); gates.append(float(Fraction(vs[0][2], d)))
            else:
                amps.append(tuple(v[1] for v in vs)); gates.append(tuple(float(Fraction(v[2], d)) for v in vs))
    return {iso.EVENT_NOTE: iso.PSequence(notes, 1), iso.EVENT_DURATION: iso.PSequence(durs, 1),
            iso.EVENT_GATE: iso.PSequence(gates, 1), iso.EVENT_AMPLITUDE: iso.PSequence(amps, 1)}


def write_events(case, path):
    via = case["via"]
    if via == "save":
        iso.PDict(event_dict(case["events"], 480)).save(path)
        return
    ftpb = case.get("file_tpb") or 480
    dev = MidiFileOutputDevice(path)
    if case.get("file_tpb"):
        dev.midifile.ticks_per_beat = ftpb
    tl = iso.Timeline(120, output_device=dev, clock_source=iso.DummyClock(ticks_per_beat=case["clock_tpb"]))
    tl.stop_when_done = True
    tl.schedule(event_dict(case["events"], ftpb))
    if via == "timeline":
        tl.run()
    else:
        try:
            for _ in range(10 ** 7):
                tl.tick()
        except StopIteration:
            pass
    dev.write()


def write_device(case, path):
    dev = MidiFileOutputDevice(path)
    if case.get("file_tpb"):
        dev.midifile.ticks_per_beat = case["file_tpb"]
    for o in case["ops"]:
        if o[0] == "t":
            for _ in range(o[1]):
                dev.tick()
        elif o[0] == "on":
            dev.note_on(o[1], o[2], o[3])
        else:
            dev.note_off(o[1], o[2])
    dev.write()


def build_foreign(case, path):
    mf = mido.MidiFile(ticks_per_beat=case["tpb"], type=case.get("type", 1))
    for tr in case["tracks"]:
        t = mido.MidiTrack()
        for m in tr:
            d, k = m[0], m[1]
            if k == "note_on":
                t.append(mido.Message("note_on", channel=m[2], note=m[3], velocity=m[4], time=d))
            elif k == "note_off":
                t.append(mido.Message("note_off", channel=m[2], note=m[3], velocity=m[4], time=d))
            elif k == "control_change":
                t.append(mido.Message("control_change", channel=m[2], control=m[3], value=m[4], time=d))
            elif k == "pitchwheel":
                t.append(mido.Message("pitchwheel", channel=m[2], pitch=m[3], time=d))
            elif k == "program_change":
                t.append(mido.Message("program_change", channel=m[2], program=m[3], time=d))
            elif k == "aftertouch":
                t.append(mido.Message("aftertouch", channel=m[2], value=m[3], time=d))
            elif k == "polytouch":
                t.append(mido.Message("polytouch", channel=m[2], note=m[3], value=m[4], time=d))
            elif k == "set_tempo":
                t.append(mido.MetaMessage("set_tempo", tempo=m[2], time=d))
            elif k == "track_name":
                t.append(mido.MetaMessage("track_name", name=m[2], time=d))
            elif k == "time_signature":
                t.append(mido.MetaMessage("time_signature", numerator=m[2], denominator=4, time=d))
            elif k == "marker":
                t.append(mido.MetaMessage("marker", text=m[2], time=d))
            elif k == "end_of_track":
                t.append(mido.MetaMessage("end_of_track", time=d))
            else:
                raise ValueError("unknown message kind %r" % (k,))
        mf.tracks.append(t)
    mf.save(path)


def run_history(case, d, tag):
    """one or more paths, ONE reader object per path created before anything is written and used for every read of
    that path, while the files are rewritten (isobar's writers or mido), removed and read with several quantize values.
    case = {"kind": "history", "paths": k, "steps": [["foreign"|"events"|"device", p, subcase] | ["remove", p] | ["read", p, quantize|null]]}
    -> {"steps": [{"write_error":..,"file":..} | {"file": parse now | null, "read": .., "fresh": ..}]}"""
    paths = [os.path.join(d, "h%s_%d.mid" % (tag, k)) for k in range(case["paths"])]
    readers = [MidiFileInputDevice(pth) for pth in paths]
    out = []
    try:
        for st in case["steps"]:
            kind, p = st[0], st[1]
            path = paths[p]
            if kind == "read":
                r = {"file": None}
                if os.path.exists(path):
                    try:
                        r["file"] = parse(path)
                    except Exception as e:
                        r["file"] = {"error": type(e).__name__}
                r["read"] = do_read(path, readers[p], st[2])
                r["fresh"] = do_read(path, None, st[2])
                out.append(r)
            elif kind == "remove":
                try:
                    os.unlink(path)
                except OSError:
                    pass
                out.append({})
            else:
                r = {"write_error": None, "file": None}
                try:
                    if kind == "events":
                        write_events(st[2], path)
                    elif kind == "device":
                        write_device(st[2], path)
                    else:
                        build_foreign(st[2], path)
                    r["file"] = parse(path)
                except Exception as e:
                    r["write_error"] = type(e).__name__ + ": " + str(e)[:200]
                out.append(r)
    finally:
        for pth in paths:
            try:
                os.unlink(pth)
            except OSError:
                pass
    return {"steps": out}


def main():
    req = json.load(sys.stdin)
    os.makedirs(req["dir"], exist_ok=True)
    out = []
    for i, case in enumerate(req["cases"]):
        path = os.path.join(req["dir"], "c%d_%d.mid" % (os.getpid(), i))
        r = {"write_error": None, "file": None, "read": None}
        if case["kind"] == "history":
            try:
                out.append(run_history(case, req["dir"], "%d_%d" % (os.getpid(), i)))
            except Exception as e:
                out.append({"error": type(e).__name__ + ": " + str(e)[:200]})
            continue
        try:
            if case["kind"] == "events":
                write_events(case, path)
            elif case["kind"] == "device":
                write_device(case, path)
            else:
                build_foreign(case, path)
        except Exception as e:
            r["write_error"] = type(e).__name__ + ": " + str(e)[:200]
        if r["write_error"] is None:
            try:
                r["file"] = parse(path)
            except Exception as e:
                r["write_error"] = "parse: " + type(e).__name__
            r["read"] = do_read(path)
            if case.get("also_load"):
                r["load"] = do_load(path)
        try:
            os.unlink(path)
        except OSError:
            pass
        out.append(r)
    json.dump({"cases": out}, sys.stdout)


main()

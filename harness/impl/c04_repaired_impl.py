"""The driver of engine P (pat_impl.py) with the repair of findings/C04-reset-tuples.diff installed at run time:
Pattern.reset also resets the patterns held inside (nested) tuples.  Used by the tuple stratum of harness/c04.py to
attribute a reset deviation to that finding: it is the known one only if it disappears under the repair."""
import os, sys
sys.path.insert(0, os.path.dirname(os.path.dirname(os.path.abspath(__file__))))
sys.dont_write_bytecode = True
from isobar.pattern.core import Pattern


def reset(self):
    def reset_value(value):
        if isinstance(value, Pattern):
            value.reset()
        elif isinstance(value, tuple):
            for element in value:
                reset_value(element)
    for name, field in list(vars(self).items()):
        if isinstance(field, list):
            for item in field:
                reset_value(item)
        elif isinstance(field, dict):
            for item in list(field.values()):
                reset_value(item)
        else:
            reset_value(field)


Pattern.reset = reset
here = os.path.dirname(os.path.abspath(__file__))
exec(compile(open(os.path.join(here, "pat_impl.py")).read(), os.path.join(here, "pat_impl.py"), "exec"))

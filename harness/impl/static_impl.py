"""Implementation driver for the shared-state part of C07: PStaticPattern / PCurrentTime / PGlobals read by several
tracks of one timeline and by direct reads made from action callbacks (a static pattern can only be read while its
timeline is ticking: it finds the timeline on the call stack), globals set from action callbacks.

stdin: {"programs": [program]}; program = {"tpb", "static": {"vals", "cyclic", "durs": [[num, den], ...]}, "default",
"tracks": [{"period": ticks, "offset": ticks, "reads": "static"|"global", "direct": bool, "sets": bool, "count": n|null}],
"ticks": N}.  stdout: {"results": [{"log": [[kind, tick, track, value], ...]}]} in the order things happened; kinds:
"read" (the shared static pattern, as an event argument), "get" (PGlobals as an event argument), "time" (PCurrentTime as an
event argument), "direct" (next(static) inside the callback), "set" (Globals.set inside the callback)."""
import sys, json
from fractions import Fraction
import isobar as iso
from isobar.globals import Globals


class Dev(iso.OutputDevice):
    @property
    def ticks_per_beat(self):
        return None


def run(p):
    saved = dict(Globals.dict)
    Globals.dict.clear()
    try:
        tpb = p["tpb"]
        tl = iso.Timeline(120, output_device=Dev(), clock_source=iso.DummyClock(ticks_per_beat=tpb))
        st = p["static"]
        durs = [float(Fraction(a, b)) for a, b in st["durs"]]
        inner = iso.PSequence(st["vals"]) if st["cyclic"] else iso.PSequence(st["vals"], 1)
        S = iso.PStaticPattern(inner, durs[0] if len(durs) == 1 else iso.PSequence(durs))
        log = []
        state = {"tick": 0}
        counters = [0] * len(p["tracks"])

        def make(k, t):
            def cb(v, t_):
                log.append(["read" if t["reads"] == "static" else "get", state["tick"], k, v])
                log.append(["time", state["tick"], k, t_])
                if t.get("direct"):
                    try:
                        log.append(["direct", state["tick"], k, next(S)])
                    except StopIteration:
                        log.append(["direct", state["tick"], k, "stop"])
                if t.get("sets"):
                    val = 0 if counters[k] % 3 == 2 else 100 * (k + 1) + counters[k]
                    # both documented forms of Globals.set: one key, or a dict of several keys at once (on a key that
                    # already holds a value, too: the latest value set is what a read must return)
                    form = (counters[k] + k) % 3
                    if form == 0:
                        Globals.set("x", val)
                    elif form == 1:
                        Globals.set({"x": val})
                    else:
                        Globals.set({"unrelated-%d" % k: counters[k], "x": val})
                    log.append(["set", state["tick"], k, val])
                counters[k] += 1
            return cb
        for k, t in enumerate(p["tracks"]):
            src = S if t["reads"] == "static" else iso.PGlobals("x", p["default"])
            tl.schedule({"action": make(k, t), "duration": float(Fraction(t["period"], tpb)),
                         "args": {"v": src, "t_": iso.PCurrentTime()}},
                        delay=float(Fraction(t["offset"], tpb)), count=t.get("count"))
        for i in range(p["ticks"]):
            state["tick"] = i
            tl.tick()
        return {"log": log}
    finally:
        Globals.dict.clear()
        Globals.dict.update(saved)


def main():
    req = json.load(sys.stdin)
    out = []
    import io, contextlib
    for p in req["programs"]:
        try:
            buf = io.StringIO()
            with contextlib.redirect_stdout(buf), contextlib.redirect_stderr(buf):
                out.append(run(p))
        except Exception as e:
            import traceback
            out.append({"driver_error": "%s: %s" % (type(e).__name__, e), "tb": traceback.format_exc()[-1500:]})
    json.dump({"results": out}, sys.stdout)


main()

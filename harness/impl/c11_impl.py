"""Implementation driver for C11 (stochastic patterns).  stdin: {"cases": [case, ...]}; stdout: {"results": [...]}.

case kinds
  {"kind": "script", "spec": SPEC, "seed": s0, "ops": [OP...], "refs": {"seeds": [...], "n": N}}
      builds the pattern, substitutes a recording random.Random for pattern.rng (public attribute), seeds it with s0,
      runs the operations.  Returns the events of every "next", the primitive draws of every epoch (an epoch starts at every
      rng.seed()), the same events from an un-instrumented twin, reference runs of fresh instances for the listed seeds,
      and whether Python's global generator state changed.
  {"kind": "world", "pats": [{"spec": SPEC, "seed": s}...], "sched": [WOP...]}
      several patterns + the global generator driven by one schedule; WOP = ["p", id, OP] | ["gunit"] | ["gbelow", n] | ["gseed", s]
  {"kind": "freq", "spec": SPEC, "seed": s, "n": N}   -> histogram of N outputs (JSON-encoded values as keys)
  {"kind": "util", "fn": name, "weights": [...], "values": [...]|None, "us": [u...]}  -> results with rng.uniform stubbed to return u
  {"kind": "family", "spec": SPEC, "wrap": null | ["add", k] | ["stutter", n], "seed": s, "record": bool,
   "sched": [["p", id, OP] | ["copy", src, dst] | ["gunit"] | ["gbelow", n] | ["gseed", s]...], "solo": {id: [OP...]}}
      an original (member 0, possibly nested inside a deterministic wrapper) and copies taken with Pattern.copy(),
      driven side by side; returns the events of every member, the recorded draws of every member's generator
      (record: the stochastic pattern's rng is a recording random.Random, which copy.deepcopy duplicates together
      with the log of its current epoch) and, per member, the events of a FRESH instance driven alone by "solo"[id]
  a script may carry "seedv": SEEDV instead of "seed" and ["seedv", SEEDV] operations: seed values of every kind
  random.seed accepts; "refsv": [[SEEDV, key]...] asks for reference runs of fresh instances seeded with the value
  and with the int `key`
SEEDV = {"k": "int"|"bool"|"str", "v": value} | {"k": "float", "v": [num, den]} | {"k": "bytes"|"bytearray", "v": [byte...]}
  {"kind": "nested", "levels": [SPEC, OUTER...], "seeds": [s...], "order": [level...], "ops": ["next" | "reset" | ["seed", level, s]...],
   "record": bool}   OUTER = {"cls": "PSkip"|"PShuffleInput"|"PSwitchOne"|"PCoin", "args": {...}}
      a seeded stochastic pattern (level 0) nested as the input of seeded stochastic patterns with other seeds (levels 1..), seeded
      in the given order, then driven from the top (seed on any level through the reference the caller kept).  Returns the events,
      the events of the REFERENCE composition - every level a stand-alone instance with its own seed whose input is an opaque
      callable (PFunc) pulling from the stand-alone level below - and the values pulled from the stand-alone level 0, per reset segment
OP = "next" | "reset" | ["seed", s] | ["seedv", SEEDV]
Values are encoded {"i": int} | {"f": float} | null | {"l": [...]} | {"o": typename}; outcomes "stop" | {"x": ExceptionName}."""
import sys, json, random, hashlib
import isobar as iso
from isobar import util

TWO53 = 9007199254740992


class Rec(random.Random):
    """random.Random that records the results of its two primitives: random() and _randbelow(n)"""
    def __init__(self):
        self.log = None
        super().__init__()
        self.epochs = []
        self.log = []

    def seed(self, a=None, version=2):
        super().seed(a, version)
        if self.log is not None:
            self.log = []
            self.epochs.append(self.log)

    def __reduce__(self):
        # copy.deepcopy / pickle: random.Random reduces to (class, (), getstate()) and would drop the log; a copy
        # of a recording generator is a recording generator in the same state whose current epoch has the same
        # log so far (earlier epochs are not the copy's)
        return (_rebuild_rec, (self.__class__, self.getstate(), [list(x) for x in self.log]))

    def random(self):
        r = super().random()
        self.log.append([0, int(r * TWO53)])
        return r

    def _randbelow(self, n):
        r = super()._randbelow(n)
        self.log.append([n, r])
        return r


def _rebuild_rec(cls, state, log):
    r = cls()
    r.setstate(state)
    r.log = log
    r.epochs = [r.log]
    return r


class Forced(Rec):
    """generator whose primitive results are dictated by the harness (boundary draws): the i-th primitive call after a
    seed() returns data[i] reduced into the legal range"""
    def __init__(self, data):
        self.data = list(data) or [0]
        self.pos = 0
        super().__init__()

    def seed(self, a=None, version=2):
        self.pos = 0
        super().seed(a, version)

    def _take(self):
        v = self.data[self.pos % len(self.data)]
        self.pos += 1
        return v

    def random(self):
        k = self._take() % TWO53
        self.log.append([0, k])
        return k / TWO53

    def _randbelow(self, n):
        r = self._take() % n
        self.log.append([n, r])
        return r


class StubRng:
    def __init__(self, u):
        self.u = u
        self.calls = 0

    def uniform(self, a, b):
        self.calls += 1
        return a + (b - a) * self.u


def enc(v):
    if v is None:
        return None
    if type(v) is bool:
        return {"o": "bool:%s" % v}
    if type(v) is int:
        return {"i": v}
    if type(v) is float:
        return {"f": v} if v == v and abs(v) != float("inf") else {"o": "float:%r" % v}
    if type(v) is list:
        return {"l": [enc(x) for x in v]}
    return {"o": type(v).__name__}


def build(spec):
    c, a = spec["cls"], spec["args"]
    seq = lambda l: iso.PSequence(list(l), 1)
    if c == "PWhite":
        return iso.PWhite(a["min"], a["max"], a.get("length", 0))
    if c == "PBrown":
        if "min" in a:
            return iso.PBrown(a["init"], a["step"], a["min"], a["max"])
        return iso.PBrown(a["init"], a["step"])
    if c == "PCoin":
        return iso.PCoin(a["p"], a.get("regular", False))
    if c == "PRandomWalk":
        return iso.PRandomWalk(list(a["values"]), a["min"], a["max"], a.get("wrap", True))
    if c == "PChoice":
        return iso.PChoice(list(a["values"]), None if a.get("weights") is None else list(a["weights"]))
    if c == "PSample":
        return iso.PSample(list(a["values"]), a["count"], None if a.get("weights") is None else list(a["weights"]))
    if c == "PShuffle":
        if a.get("repeats") is None:
            return iso.PShuffle(list(a["values"]))
        return iso.PShuffle(list(a["values"]), a["repeats"])
    if c == "PShuffleInput":
        return iso.PShuffleInput(seq(a["input"]), a["every"])
    if c == "PSkip":
        return iso.PSkip(seq(a["input"]), a["play"], a.get("regular", False))
    if c == "PFlipFlop":
        return iso.PFlipFlop(a["init"], a["p_on"], a["p_off"])
    if c == "PSwitchOne":
        return iso.PSwitchOne(seq(a["input"]), a["length"])
    if c == "PMarkov":
        if "seq" in a:
            return iso.PMarkov(list(a["seq"]))
        return iso.PMarkov({k: list(v) for k, v in a["nodes"]})
    if c == "PRandomExponential":
        return iso.PRandomExponential(a["min"], a["max"])
    if c == "PRandomImpulseSequence":
        p = iso.PRandomImpulseSequence(a["p"], a["length"])
        if a.get("every"):
            p.every(a["every"], a["action"])
        return p
    if c == "PArpeggiator":
        return iso.PArpeggiator(list(a["notes"]), iso.PArpeggiator.RANDOM, a.get("loop", False))
    raise ValueError("unknown class " + c)


def decode_seed(j):
    k, v = j["k"], j["v"]
    if k == "float":
        return v[0] / v[1]
    if k == "bytes":
        return bytes(v)
    if k == "bytearray":
        return bytearray(v)
    if k == "bool":
        return bool(v)
    return v


def do(p, op):
    """returns None for reset/seed, else the encoded outcome of next()"""
    if op == "next":
        try:
            return {"v": enc(next(p))}
        except StopIteration:
            return "stop"
        except Exception as e:
            return {"x": type(e).__name__}
    if op == "reset":
        p.reset()
        return None
    p.seed(decode_seed(op[1]) if op[0] == "seedv" else op[1])
    return None


def gstate():
    return hashlib.sha1(repr(random.getstate()).encode()).hexdigest()


def run_ops(p, ops):
    ev = []
    for op in ops:
        r = do(p, op)
        if op == "next":
            ev.append(r)
    return ev


def case_script(c):
    out = {}
    g0 = gstate()
    forced = c.get("forced")
    p = build(c["spec"])
    rec = Rec() if forced is None else Forced(forced)
    p.rng = rec
    seed0 = decode_seed(c["seedv"]) if "seedv" in c else c["seed"]
    p.seed(seed0)
    rec.epochs[:] = [rec.log]
    out["events"] = run_ops(p, c["ops"])
    out["epochs"] = rec.epochs
    out["global_touched"] = gstate() != g0
    q = build(c["spec"])
    if forced is not None:
        q.rng = Forced(forced)
    q.seed(decode_seed(c["seedv"]) if "seedv" in c else c["seed"])
    out["plain"] = run_ops(q, c["ops"])
    refs = {}
    for s in c.get("refs", {}).get("seeds", []):
        f = build(c["spec"])
        if forced is not None:
            f.rng = Forced(forced)
        f.seed(s)
        refs[str(s)] = run_ops(f, ["next"] * c["refs"]["n"])
    out["refs"] = refs
    if "refsv" in c:
        rv = []
        for sv, key in c["refsv"]:
            f = build(c["spec"])
            f.seed(decode_seed(sv))
            a = run_ops(f, ["next"] * c["refs"]["n"])
            f = build(c["spec"])
            f.seed(key)
            rv.append([a, run_ops(f, ["next"] * c["refs"]["n"])])
        out["refsv"] = rv
    out["global_touched_total"] = gstate() != g0
    return out


def wrap(inner, w):
    if not w:
        return inner
    if w[0] == "add":
        return inner + w[1]
    if w[0] == "stutter":
        return iso.PStutter(inner, w[1])
    raise ValueError(w)


def inner_of(top, w):
    """the stochastic pattern nested inside member `top` (public attributes of the wrapper classes)"""
    if not w:
        return top
    return top.a if w[0] == "add" else top.pattern


def build_outer(spec, src):
    c, a = spec["cls"], spec["args"]
    if c == "PSkip":
        return iso.PSkip(src, a["play"])
    if c == "PShuffleInput":
        return iso.PShuffleInput(src, a["every"])
    if c == "PSwitchOne":
        return iso.PSwitchOne(src, a["length"])
    if c == "PCoin":
        return iso.PCoin(src)
    raise ValueError("unknown outer class " + c)


def case_nested(c):
    g0 = gstate()
    levels = c["levels"]
    # the nest as users write it: Outer(Inner(...).seed(a), ...).seed(b)
    objs = [build(levels[0])]
    for sp in levels[1:]:
        objs.append(build_outer(sp, objs[-1]))
    rec = None
    if c.get("record"):
        rec = Rec()
        objs[-1].rng = rec
    for lvl in c["order"]:
        objs[lvl].seed(c["seeds"][lvl])
    if rec is not None:
        rec.epochs[:] = [rec.log]
    ev = []
    for op in c["ops"]:
        if op == "next" or op == "reset":
            r = do(objs[-1], op)
            if op == "next":
                ev.append(r)
        else:
            objs[op[1]].seed(op[2])
    out = {"events": ev, "global_touched": gstate() != g0}
    if rec is not None:
        out["epochs"] = rec.epochs
    # the reference: stand-alone instances, each with its own seed, composed through opaque callables
    refs = [build(levels[0])]
    pulls = [[]]

    def puller(k):
        def pull():
            try:
                v = next(refs[k])
            except StopIteration:
                if k == 0:
                    pulls[-1].append("stop")
                raise
            except Exception:
                if k == 0:
                    pulls[-1].append("raise")
                raise
            if k == 0:
                pulls[-1].append(enc(v))
            return v
        return pull
    for k, sp in enumerate(levels[1:]):
        refs.append(build_outer(sp, iso.PFunc(puller(k))))
    for lvl in c["order"]:
        refs[lvl].seed(c["seeds"][lvl])
    rev = []
    for op in c["ops"]:
        if op == "next":
            rev.append(do(refs[-1], "next"))
        elif op == "reset":
            for r in refs:
                r.reset()
            pulls.append([])
        else:
            refs[op[1]].seed(op[2])
    out["ref_events"] = rev
    out["pulls"] = pulls
    return out


def case_family(c):
    w = c.get("wrap")
    inner = build(c["spec"])
    if c.get("record"):
        rec = Rec()
        inner.rng = rec
    inner.seed(c["seed"])
    if c.get("record"):
        rec.epochs[:] = [rec.log]
    members = {0: wrap(inner, w)}
    outs = {0: []}
    touched = []
    for k, op in enumerate(c["sched"]):
        if op[0] == "p":
            g0 = random.getstate()
            m = members[op[1]]
            o = op[2]
            r = do(m if o in ("next", "reset") else inner_of(m, w), o)
            if random.getstate() != g0:
                touched.append(k)
            if o == "next":
                outs[op[1]].append(r)
        elif op[0] == "copy":
            g0 = random.getstate()
            members[op[2]] = members[op[1]].copy()
            outs[op[2]] = []
            if random.getstate() != g0:
                touched.append(k)
        elif op[0] == "gunit":
            random.random()
        elif op[0] == "gbelow":
            random.randrange(op[1])
        elif op[0] == "gseed":
            random.seed(op[1])
    res = {"outs": {str(i): o for i, o in outs.items()}, "touched": touched}
    if c.get("record"):
        res["epochs"] = {str(i): getattr(inner_of(m, w).rng, "epochs", None) for i, m in members.items()}
    solo = {}
    for i, ops in c.get("solo", {}).items():
        f_inner = build(c["spec"])
        f_inner.seed(c["seed"])
        f = wrap(f_inner, w)
        ev = []
        for o in ops:
            r = do(f if o in ("next", "reset") else f_inner, o)
            if o == "next":
                ev.append(r)
        solo[i] = ev
    res["solo"] = solo
    return res


def case_world(c):
    pats = []
    for pd in c["pats"]:
        p = build(pd["spec"])
        p.seed(pd["seed"])
        pats.append(p)
    outs = [[] for _ in pats]
    touched = []
    for k, w in enumerate(c["sched"]):
        if w[0] == "p":
            g0 = random.getstate()
            r = do(pats[w[1]], w[2])
            if random.getstate() != g0:
                touched.append(k)
            if w[2] == "next":
                outs[w[1]].append(r)
        elif w[0] == "gunit":
            random.random()
        elif w[0] == "gbelow":
            random.randrange(w[1])
        elif w[0] == "gseed":
            random.seed(w[1])
    return {"outs": outs, "touched": touched}


def case_freq(c):
    p = build(c["spec"])
    wlist = None
    if c.get("weights2") is not None:
        # the caller keeps the weights list it passed and edits it IN PLACE half-way through
        a = c["spec"]["args"]
        wlist = list(a["weights"])
        p = iso.PChoice(list(a["values"]), wlist)
    p.seed(c["seed"])
    h = {}
    n = 0
    for i in range(c["n"]):
        if wlist is not None and i == c["n"] // 2:
            wlist[:] = list(c["weights2"])
            h1, h = h, {}
        try:
            v = next(p)
        except StopIteration:
            break
        key = json.dumps(enc(v if not (isinstance(v, list) and c.get("first")) else v[0]), sort_keys=True)
        h[key] = h.get(key, 0) + 1
        n += 1
    if wlist is not None:
        return {"hist": h, "n": n - c["n"] // 2, "hist_before": h1}
    return {"hist": h, "n": n}


def case_util(c):
    res = []
    fn = getattr(util, c["fn"])
    for u in c["us"]:
        rng = StubRng(u)
        try:
            if c["fn"] in ("windex", "wnindex"):
                r = fn(list(c["weights"]), rng=rng)
            else:
                r = fn(list(c["values"]), list(c["weights"]), rng=rng)
            res.append({"v": enc(r), "calls": rng.calls})
        except Exception as e:
            res.append({"x": type(e).__name__, "calls": rng.calls})
    try:
        nz = util.normalize(list(c["weights"]))
        nz = [enc(x) for x in nz]
    except Exception as e:
        nz = {"x": type(e).__name__}
    return {"res": res, "normalize": nz}


def main():
    req = json.load(sys.stdin)
    results = []
    for c in req["cases"]:
        gs = random.getstate()
        try:
            r = {"script": case_script, "world": case_world, "freq": case_freq, "util": case_util,
                 "family": case_family, "nested": case_nested}[c["kind"]](c)
        except Exception as e:
            r = {"driver_exception": type(e).__name__, "detail": str(e)[:300]}
        random.setstate(gs)
        results.append(r)
    json.dump({"results": results}, sys.stdout)


main()

"""Implementation driver of C04 for SEEDED / CONFIGURED patterns (the deterministic expressions of engine P go through
pat_impl.py).  One case = one object X built from Python source, configured through its public methods, optionally
nested inside a deterministic wrapper expression, then driven by a script.

stdin  {"enumerate": true}                       -> {"classes": [{name, stochastic, exported}...]} (live isobar.pattern)
       {"cases": [{"inner": SRC, "objs": [[name, SRC]...] | absent, "wrap": SRC-using-X | null, "setup": [OP...], "ops": [OP...],
                   "refs": [{"setup": [OP...], "n": N}...], "record": bool, "global_seed": int | absent}]}
       "objs": named objects built in order, each source may use the names before it (a stochastic pattern that CONTAINS
       stochastic patterns: [["I0", "iso.PWhite(0, 9)"], ["X", "iso.PSkip(I0, 0.5)"]]); the last one is X.  Without
       "objs": X = eval(inner).
OP     "next" | ["reset"] | ["all", m] | ["copy", n, reset] (q = p.copy(); [q.reset()]; n values of q -> {"c": [obs...]}) | ["call", method, [argument sources...]] | ["callon", name, method, [argument sources...]]
       next / reset / all act on the outer pattern (the wrapper, or X itself), "call" on X (X.seed(3), X.every(5, 'generate'),
       X.set_pattern(iso.PSeries(0, 1)) ...), "callon" on a named object (I0.seed(7)).
stdout {"cases": [{"build": obs, "events": [obs per op], "refs": [[obs...]...], "epochs": [[[request, result]...]...] | null,
                   "opened": [[epochs before, epochs after] per setup+script op] | null, "global_touched": bool, "status": null | "timeout"}]}
obs    {"y": value} | "stop" | {"r": exception class name}   (as in pat_impl.py; reset / call give {"y": null})
With "record" a recording random.Random is substituted for the public `rng` of X and of every named stochastic object
BEFORE the setup calls are made.  Epochs are numbered program-wide: one per recorder at its creation (what is drawn before the
object's first rng.seed()), then one per rng.seed() of any object, in the order they happen; "owners" names the object of
each epoch.
Only API-level observables are read: return values, exception classes, the draws X asks of its public generator."""
import sys, os, json, signal, random, hashlib
sys.path.insert(0, os.path.dirname(os.path.dirname(os.path.abspath(__file__))))
sys.dont_write_bytecode = True
import pat_common as pc
import isobar as iso
from isobar.scale import Scale
from isobar.chord import Chord
from isobar.globals import Globals

OP_TIMEOUT = 2.0
TWO53 = 9007199254740992


class Timeout(BaseException):
    pass


def on_alarm(sig, frm):
    raise Timeout()


class Rec(random.Random):
    """random.Random that records the results of its two primitives, random() and _randbelow(n), per epoch; the epochs of
    all recorders of one case are kept in one list (`book`)"""
    def __init__(self, book, owner):
        self.log = None
        super().__init__()
        self.book, self.owner = book, owner
        self.log = []
        book.append((owner, self.log))

    def seed(self, a=None, version=2):
        super().seed(a, version)
        if self.log is not None:
            self.log = []
            self.book.append((self.owner, self.log))

    def random(self):
        r = super().random()
        self.log.append([0, int(r * TWO53)])
        return r

    def _randbelow(self, n):
        r = super()._randbelow(n)
        self.log.append([n, r])
        return r


def noop():
    return None


NS = {"iso": iso, "noop": noop}


def observe(f):
    try:
        return {"y": pc.value_to_json(f())}
    except StopIteration:
        return "stop"
    except Timeout:
        raise
    except RecursionError:
        return {"r": "RecursionError"}
    except Exception as e:
        return {"r": type(e).__name__}


def call(x, method, args):
    getattr(x, method)(*[eval(a, dict(NS)) for a in args])
    return None


class Built:
    def __init__(self, case, setup, record):
        self.book = None
        self.opened = []
        self.names = {}
        if case.get("objs"):
            for name, src in case["objs"]:
                self.names[name] = eval(src, dict(NS, **self.names))
            self.x = self.names[case["objs"][-1][0]]
        else:
            self.x = eval(case["inner"], dict(NS))
        self.names["X"] = self.x
        if record:
            self.book = []
            done = set()
            for name, obj in self.names.items():
                if isinstance(obj, iso.PStochasticPattern) and id(obj) not in done:
                    done.add(id(obj))
                    obj.rng = Rec(self.book, name)
        for op in setup:
            self.mark(lambda: self.call(op))
        self.p = eval(case["wrap"], dict(NS, X=self.x)) if case.get("wrap") else self.x

    def call(self, op):
        if op[0] == "callon":
            return call(self.names[op[1]], op[2], op[3])
        return call(self.x, op[1], op[2])

    def mark(self, f):
        before = len(self.book) if self.book is not None else 0
        try:
            return f()
        finally:
            self.opened.append([before, len(self.book) if self.book is not None else 0])

    def do(self, op):
        p = self.p
        if op == "next":
            return self.mark(lambda: observe(lambda: next(p)))
        if op[0] == "reset":
            return self.mark(lambda: observe(lambda: p.reset()))
        if op[0] == "all":
            return self.mark(lambda: observe(lambda: p.all(op[1])))
        if op[0] in ("call", "callon"):
            return self.mark(lambda: observe(lambda: self.call(op)))
        if op[0] == "copy":
            # ["copy", n, reset first?]: q = p.copy() (public API), optionally q.reset(), then n values of q; p is left alone
            def fork():
                q = p.copy()
                if op[2]:
                    q.reset()
                return q
            holder = {}

            def mk():
                holder["q"] = fork()
            o = observe(mk)
            if "q" not in holder:
                return {"c": [o]}
            return {"c": [observe(lambda: next(holder["q"])) for _ in range(op[1])]}
        raise ValueError(op)


def gstate():
    return hashlib.sha1(repr(random.getstate()).encode()).hexdigest()


def run_case(case):
    out = {"build": None, "events": [], "refs": [], "epochs": None, "owners": None, "opened": None, "global_touched": False, "status": None}
    if case.get("global_seed") is not None:
        # argument-less seed() takes its seed from the module-level generator: pinned per case so that a run can be repeated
        random.seed(case["global_seed"])
    g0 = gstate()
    signal.setitimer(signal.ITIMER_REAL, OP_TIMEOUT * 2)
    try:
        holder = {}

        def build():
            holder["b"] = Built(case, case["setup"], case.get("record"))
        out["build"] = observe(build)
        if "b" in holder:
            b = holder["b"]
            for op in case["ops"]:
                signal.setitimer(signal.ITIMER_REAL, OP_TIMEOUT)
                out["events"].append(b.do(op))
            if b.book is not None:
                out["epochs"] = [log for _, log in b.book]
                out["owners"] = [owner for owner, _ in b.book]
                out["opened"] = b.opened
        out["global_touched"] = gstate() != g0
        for ref in case.get("refs", []):
            signal.setitimer(signal.ITIMER_REAL, OP_TIMEOUT * 2)
            h2 = {}

            def build2():
                h2["b"] = Built(case, ref["setup"], False)
            o = observe(build2)
            obs = [o]
            if "b" in h2:
                for _ in range(ref["n"]):
                    obs.append(h2["b"].do("next"))
            out["refs"].append(obs)
    except Timeout:
        out["status"] = "timeout"
    finally:
        signal.setitimer(signal.ITIMER_REAL, 0)
    return out


def all_subclasses(c):
    seen, todo = [], list(c.__subclasses__())
    while todo:
        s = todo.pop(0)
        if s not in seen:
            seen.append(s)
            todo.extend(s.__subclasses__())
    return seen


def enumerate_classes():
    import pkgutil, importlib, isobar.pattern
    for m in pkgutil.walk_packages(isobar.pattern.__path__, "isobar.pattern."):
        try:
            importlib.import_module(m.name)
        except Exception:
            pass
    out = []
    for c in all_subclasses(iso.Pattern):
        if c.__module__.startswith("isobar.pattern"):
            out.append({"name": c.__name__, "exported": getattr(iso, c.__name__, None) is c,
                        "stochastic": issubclass(c, iso.PStochasticPattern)})
    return sorted(out, key=lambda d: d["name"])


def main():
    req = json.load(sys.stdin)
    if req.get("enumerate"):
        json.dump({"classes": enumerate_classes()}, sys.stdout)
        return
    signal.signal(signal.SIGALRM, on_alarm)
    saved = (dict(Scale.dict), dict(Chord.dict), dict(Globals.dict))
    out = []
    for case in req["cases"]:
        gs = random.getstate()
        out.append(run_case(case))
        random.setstate(gs)
        for d, s in zip((Scale.dict, Chord.dict, Globals.dict), saved):
            if d != s:
                d.clear(); d.update(s)
    json.dump({"cases": out}, sys.stdout)


main()

"""Implementation driver for C20, protocol stratum: a pattern built by the string-notation parser of the repository under
test is used through the pattern protocol (next / for / reset / all / len / copy) by a script, or played by a Timeline
that is rewound.

stdin:  {"cases": [{"s": str, "how": "parse"|"pattern"|"pseq"|"pdict"|"timeline", "ops": [OP, ...]}, ...]}
        OP (objects[0] is the pattern built from s; copies are appended):
          ["next", i, k]   objects[i].nextn(k)                      -> values
          ["step", i, k]   k times next(objects[i])                 -> values (stops at StopIteration)
          ["for", i, k]    for v in objects[i]: ... break after k   -> values
          ["reset", i]     objects[i].reset()                       -> []
          ["all", i, m]    objects[i].all(m)                        -> values
          ["len", i]       len(objects[i])                          -> ["n", int]
          ["copy", i]      objects.append(objects[i].copy())        -> []
          ["deepcopy", i]  objects.append(copy.deepcopy(objects[i]))-> []
        how = "timeline": Timeline at 1 tick per beat, track = schedule({"note": s, "duration": 1}); ops
          ["tick", k]      k ticks                                  -> the notes of the note_on calls
          ["tl_reset"]     timeline.reset()
          ["track_reset"]  track.reset()
          ["reschedule"]   timeline.unschedule(track); timeline.schedule(track)
stdout: {"cases": [{"outs": [per op: [VAL...] | ["n", int]]} | {"raise": class name, "at": op index, "outs": [...]}]}
        VAL = ["i", int] | ["f", float.hex()] | ["s", str] | ["?", type name]
how = "pdict": objects[0] = PDict({"x": s, "y": 7}); the values reported are those of key "x".
Only API-level observables; every exception is caught per case and reported by class name."""
import sys, json, copy, logging
logging.disable(logging.CRITICAL)
import isobar as iso
from isobar.notation import parse_notation
from isobar.pattern import PSequence, PDict, Pattern


def enc(v):
    if type(v) is bool:
        return ["?", "bool"]
    if type(v) is int:
        return ["i", v]
    if type(v) is float:
        return ["f", v.hex()]
    if type(v) is str:
        return ["s", v]
    return ["?", type(v).__name__]


class Rec(iso.OutputDevice):
    def __init__(self):
        super().__init__()
        self.notes = []

    @property
    def ticks_per_beat(self):
        return None

    def note_on(self, note=60, velocity=64, channel=0):
        self.notes.append(note)

    def note_off(self, note=60, channel=0):
        pass


def build(s, how):
    if how == "parse":
        return parse_notation(s)
    if how == "pattern":
        return Pattern.pattern(s)
    if how == "pseq":
        return PSequence(s)
    if how == "pdict":
        return PDict({"x": s, "y": 7})
    raise ValueError(how)


def run_script(case):
    how = case["how"]
    objs = [build(case["s"], how)]
    outs = []
    pick = (lambda v: enc(v["x"]) if isinstance(v, dict) and "x" in v else ["?", type(v).__name__]) if how == "pdict" else enc
    at = 0
    try:
        for at, op in enumerate(case["ops"]):
            k = op[0]
            o = objs[op[1]]
            if k == "next":
                outs.append([pick(v) for v in o.nextn(op[2])])
            elif k == "step":
                vs = []
                try:
                    for _ in range(op[2]):
                        vs.append(pick(next(o)))
                except StopIteration:
                    pass
                outs.append(vs)
            elif k == "for":
                vs = []
                if op[2] > 0:
                    for v in o:
                        vs.append(pick(v))
                        if len(vs) >= op[2]:
                            break
                outs.append(vs)
            elif k == "reset":
                o.reset(); outs.append([])
            elif k == "all":
                outs.append([pick(v) for v in o.all(op[2])])
            elif k == "len":
                outs.append(["n", len(o)])
            elif k == "copy":
                objs.append(o.copy()); outs.append([])
            elif k == "deepcopy":
                objs.append(copy.deepcopy(o)); outs.append([])
            else:
                raise ValueError("bad op %r" % (op,))
    except Exception as e:
        return {"raise": type(e).__name__, "at": at, "outs": outs}
    return {"outs": outs}


def run_timeline(case):
    dev = Rec()
    outs = []
    at = 0
    try:
        tl = iso.Timeline(output_device=dev, clock_source=iso.DummyClock(ticks_per_beat=1))
        track = tl.schedule({"note": case["s"], "duration": 1}, remove_when_done=False)
        for at, op in enumerate(case["ops"]):
            dev.notes = []
            k = op[0]
            if k == "tick":
                for _ in range(op[1]):
                    tl.tick()
            elif k == "tl_reset":
                tl.reset()
            elif k == "track_reset":
                track.reset()
            elif k == "reschedule":
                tl.unschedule(track)
                tl.schedule(track)
            else:
                raise ValueError("bad op %r" % (op,))
            outs.append([enc(v) for v in dev.notes])
    except Exception as e:
        return {"raise": type(e).__name__, "at": at, "outs": outs}
    return {"outs": outs}


def main():
    req = json.load(sys.stdin)
    out = []
    for case in req["cases"]:
        try:
            out.append(run_timeline(case) if case["how"] == "timeline" else run_script(case))
        except Exception as e:
            out.append({"raise": type(e).__name__, "at": -1, "outs": []})
    json.dump({"cases": out}, sys.stdout)


main()

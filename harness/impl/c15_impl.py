"""Implementation driver for C15: runs interpolated control tracks of the repository under test on a Timeline
driven tick by tick, with a recording OutputDevice, and reports every device call stamped with the tick index.

stdin:  {"info": true}  -> the defaults the harness needs (read from isobar.constants)
        {"cases": [case, ...]} with
          case = {"N": ticks_per_beat, "mode": "linear"|"cosine", "pre": ticks run before schedule(), "nticks": total ticks,
                  "quantize": x|null, "delay": x|null, "count": n|null, "ignore_exceptions": bool,
                  "changes": [{"tick": k, "N": n, "how": "set"|"swap"|"clock"}, ...]   (optional; made after schedule(), before tick k:
                              timeline.ticks_per_beat = n | timeline.clock_source = DummyClock(ticks_per_beat=n) |
                              timeline.clock_source.ticks_per_beat = n),
                  "form": "dict", "fields": {key: {"seq": [v, ...], "loop": bool} | {"const": v}}      (dict of patterns)
                | "form": "seq",  "events": [{key: v, ...}, ...]}                                     (pattern of dicts)
                  optional "supply" (how the event stream is handed to schedule()), with "order" = indices into events / the
                  field sequences making up ONE pass and "passes" = number of passes (null: endless, limited by count):
                    "dict"  dict of patterns, PSequence(values, passes)       "pdict"  the same wrapped in iso.PDict(...)
                    "pdict-list"  iso.PDict([dict, ...])  (array of dicts)    "fresh"  a Pattern building a NEW dict per event
                    "shared" / "shared-endless" / "shared-in-pass"  PSequence([d0, d1, ...], passes): the SAME dict objects are
                                                                    yielded again on every pass (or twice within one pass)
                    "shared-ploop"  PLoop(PSequence([d0, d1, ...], 1), passes)
        values: JSON ints / floats / strings / null / bools are passed to isobar as they are.
stdout: {"cases": [{"calls": [[tick, control, value, channel], ...], "other": [[tick, method], ...],
                    "exc": [tick, class name] | null}]}
        numbers are encoded ["i", n] / ["f", float.hex()], other values ["s", str] / ["n"] / ["b", bool] / ["o", type name].
Every exception is caught per case and reported by class name."""
import sys, json, logging
logging.disable(logging.CRITICAL)
import isobar as iso


def enc(v):
    if type(v) is bool:
        return ["b", v]
    if type(v) is int:
        return ["i", v]
    if type(v) is float:
        return ["f", v.hex()]
    if v is None:
        return ["n"]
    if type(v) is str:
        return ["s", v]
    try:
        import numpy
        if isinstance(v, numpy.floating):
            return ["f", float(v).hex()]
        if isinstance(v, numpy.integer):
            return ["i", int(v)]
    except Exception:
        pass
    return ["o", type(v).__name__]


class Recorder(iso.OutputDevice):
    def __init__(self):
        super().__init__()
        self.now = 0
        self.calls = []
        self.other = []

    @property
    def ticks_per_beat(self):
        return None

    def control(self, control=0, value=0, channel=0):
        self.calls.append([self.now, enc(control), enc(value), enc(channel)])

    def note_on(self, note=60, velocity=64, channel=0):
        self.other.append([self.now, "note_on"])

    def note_off(self, note=60, channel=0):
        self.other.append([self.now, "note_off"])

    def program_change(self, program=0, channel=0):
        self.other.append([self.now, "program_change"])

    def send(self, *a, **k):
        self.other.append([self.now, "send"])


class FreshDicts(iso.Pattern):
    """a pattern of event dicts that builds a NEW dict object for every event it yields"""
    def __init__(self, events, order, passes):
        self.events, self.order, self.passes = events, order, passes
        self.pos = 0

    def reset(self):
        super().reset()
        self.pos = 0

    def __next__(self):
        n = len(self.order)
        if self.passes is not None and self.pos >= n * self.passes:
            raise StopIteration
        e = dict(self.events[self.order[self.pos % n]])
        self.pos += 1
        return e


def build_events(case):
    supply = case.get("supply")
    passes = case.get("passes")
    rep = () if passes is None else (passes,)
    if case["form"] == "dict":
        d = {}
        for k, spec in case["fields"].items():
            if "const" in spec:
                d[k] = spec["const"]
            elif supply:
                d[k] = iso.PSequence(list(spec["seq"]), *rep)
            elif spec.get("loop"):
                d[k] = iso.PSequence(list(spec["seq"]))
            else:
                d[k] = iso.PSequence(list(spec["seq"]), 1)
        return iso.PDict(d) if supply == "pdict" else d
    if not supply:
        return iso.PSequence([dict(e) for e in case["events"]], 1)
    dicts = [dict(e) for e in case["events"]]
    seq = [dicts[i] for i in case["order"]]          # the same object wherever an index recurs
    if supply == "fresh":
        return FreshDicts(dicts, case["order"], passes)
    if supply == "pdict-list":
        return iso.PDict(seq)
    if supply == "shared-ploop":
        return iso.PLoop(iso.PSequence(seq, 1), *rep)
    if supply in ("shared", "shared-endless", "shared-in-pass"):
        return iso.PSequence(seq, *rep)
    raise ValueError("unknown supply %r" % (supply,))


def run_case(case):
    dev = Recorder()
    out = {"calls": dev.calls, "other": dev.other, "exc": None}
    t = 0
    try:
        tl = iso.Timeline(output_device=dev, clock_source=iso.DummyClock(ticks_per_beat=case["N"]),
                          ignore_exceptions=bool(case.get("ignore_exceptions")))
        for t in range(case["pre"]):
            dev.now = t
            tl.tick()
        t = case["pre"]
        dev.now = t
        kw = {}
        for k in ("quantize", "delay", "count"):
            if case.get(k) is not None:
                kw[k] = case[k]
        tl.schedule(build_events(case), interpolate=case["mode"], **kw)
        changes = case.get("changes") or []
        for t in range(case["pre"], case["nticks"]):
            dev.now = t
            for ch in changes:
                if ch["tick"] == t:
                    if ch["how"] == "set":
                        tl.ticks_per_beat = ch["N"]
                    elif ch["how"] == "swap":
                        tl.clock_source = iso.DummyClock(ticks_per_beat=ch["N"])
                    else:
                        tl.clock_source.ticks_per_beat = ch["N"]
            tl.tick()
    except Exception as e:
        out["exc"] = [t, type(e).__name__]
    return out


def main():
    req = json.load(sys.stdin)
    if req.get("info"):
        from isobar import constants as c
        json.dump({"default_channel": enc(c.DEFAULT_EVENT_CHANNEL), "default_duration": enc(c.DEFAULT_EVENT_DURATION),
                   "linear": c.INTERPOLATION_LINEAR, "cosine": c.INTERPOLATION_COSINE}, sys.stdout)
        return
    json.dump({"cases": [run_case(c) for c in req["cases"]]}, sys.stdout)


main()

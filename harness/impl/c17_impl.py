"""Implementation driver for C17 (fault containment).  Same scenario format and observations as sched_impl.py (whose
Driver / recording device it reuses, loaded from the source file because that script runs on import), plus
  * "times": Timeline.current_time * ticks_per_beat after every tick operation (one entry per tick);
  * the operation ["run", budget]: Timeline.run(stop_when_done=True) driven by the DummyClock; the recording device
    marks the tick boundaries (OutputDevice.tick is called once per timeline tick), so the result lists the calls
    tick by tick, and how run() ended: "returned" / "exc:<class>" / "budget" (more than [budget] ticks);
  * the operation ["set_ignore", b]: `timeline.ignore_exceptions = b` on the existing Timeline (config "ignore" is what the
    constructor was given); it is an operation like any other in the observation list (no calls, "ok");
  * the CLASS of the exception at every fault site: a stream item {"k": "raise_eval", "expr": name} evaluates a real failing
    pattern expression of the catalogue FAULT_EXPRS inside next(event_stream) (TypeError from PAdd over a str, 60 + None,
    ZeroDivisionError from PDiv, KeyError, a user-defined class ...); {"k": "raise_ctor", "variant": name} returns an event
    dict that makes Event(...) raise (InvalidEventException / ValueError / TypeError); config "dev_fail_exc" and a
    callback's "exc" name the class raised by the device / the callback; {"k": "raise_stop"} raises a subclass of
    StopIteration from the pattern (the iterator protocol's end of stream);
  * "escaped": [[operation index, class name, [names of the classes in its MRO]]] for every exception that left tick().
"""
import sys, os, json

_here = os.path.dirname(os.path.abspath(__file__))
_src = open(os.path.join(_here, "sched_impl.py")).read()
_src = _src[:_src.rindex("\nmain()")]
_ns = {"__name__": "sched_impl_lib"}
_saved_stdin = sys.stdin
exec(compile(_src, os.path.join(_here, "sched_impl.py"), "exec"), _ns)
Driver = _ns["Driver"]
Rec = _ns["Rec"]
iso = _ns["iso"]


class Budget(BaseException):
    pass


class UserFault(Exception):
    """a user's own exception class"""


class UserTypeError(TypeError):
    """a user's subclass of TypeError"""


class UserLookup(KeyError):
    pass


class UserStop(StopIteration):
    """a subclass of StopIteration: still the end-of-stream signal"""


EXC_CLASSES = {c.__name__: c for c in (
    RuntimeError, TypeError, ValueError, ZeroDivisionError, KeyError, IndexError, AttributeError, AssertionError, OverflowError,
    NotImplementedError, UnicodeDecodeError, OSError, ArithmeticError, LookupError, NameError, UserFault, UserTypeError, UserLookup)}


def raise_class(name, what):
    c = EXC_CLASSES[name]
    if c is UnicodeDecodeError:
        raise UnicodeDecodeError("utf-8", b"\xff", 0, 1, what)
    raise c(what)


def _raiser(name):
    def fn():
        raise_class(name, "pattern fault (scripted)")
    return fn


# failing pattern expressions: each builds, from real isobar classes, a pattern whose evaluation raises
FAULT_EXPRS = {
    "padd-str": lambda: iso.PSequence(["x"], 1) + 12,                               # TypeError: str + int inside PAdd.__next__
    "add-none": lambda: iso.PFunc(lambda: 60 + None),                               # TypeError: the commonest live-coding fault
    "pdiv-zero": lambda: iso.PConstant(60) / iso.PSequence([0]),                    # ZeroDivisionError inside PDiv
    "pmod-zero": lambda: iso.PConstant(60) % iso.PConstant(0),                      # ZeroDivisionError inside PMod
    "int-str": lambda: iso.PFunc(lambda: int("sixty")),                             # ValueError
    "dict-key": lambda: iso.PFunc(lambda: {"a": 60}["b"]),                          # KeyError
    "pdictkey": lambda: iso.PDictKey({"a": 60}, iso.PConstant("b")),                # KeyError inside PDictKey
    "list-index": lambda: iso.PFunc(lambda: [60, 62][5]),                           # IndexError
    "parrayindex": lambda: iso.PArrayIndex([60, 62], iso.PConstant(7)),             # IndexError inside PArrayIndex
    "attr-none": lambda: iso.PFunc(lambda: None.pitch),                             # AttributeError
    "pabs-str": lambda: iso.PAbs(iso.PConstant("x")),                               # TypeError inside PAbs
    "pow-overflow": lambda: iso.PConstant(10.0) ** iso.PConstant(100000),           # OverflowError inside PPow
    "pdegree-str": lambda: iso.PDegree(iso.PConstant("a"), iso.Scale.major),        # TypeError inside Scale.get
    "name-error": lambda: iso.PFunc(lambda: undefined_name_of_the_live_coder),      # NameError   # noqa: F821
    "decode": lambda: iso.PFunc(lambda: b"\xff".decode("utf-8")),                   # UnicodeDecodeError (a ValueError)
    "assert": lambda: iso.PFunc(_raiser("AssertionError")),
    "not-implemented": lambda: iso.PFunc(_raiser("NotImplementedError")),           # a RuntimeError
    "oserror": lambda: iso.PFunc(_raiser("OSError")),
    "runtime": lambda: iso.PFunc(_raiser("RuntimeError")),
    "user-class": lambda: iso.PFunc(_raiser("UserFault")),
    "user-typeerror": lambda: iso.PFunc(_raiser("UserTypeError")),
    "user-keyerror": lambda: iso.PFunc(_raiser("UserLookup")),
}
# event dicts that make Event(...) raise
CTOR_VARIANTS = {
    "note+degree": lambda d: dict(d, note=60, degree=1),                            # InvalidEventException
    "bad-key": lambda d: dict(d, note=60, not_an_event_key=1),                      # ValueError
    "degree-str": lambda d: dict(d, degree="a"),                                    # ValueError: int("a")
    "octave-none": lambda d: dict(d, note=60, octave=None),                         # TypeError: int(None)
    "key-int": lambda d: dict(d, degree=2, key=5),                                  # TypeError: an int is not a Key
    "transpose-list": lambda d: dict(d, note=60, transpose=[1]),                    # TypeError: int([1])
}


class Rec17(Rec):
    fail_exc = "RuntimeError"

    def _emit(self, c):
        k = self.n
        self.n += 1
        if self.fail_at is not None and k == self.fail_at:
            raise_class(self.fail_exc, "device fault (scripted)")
        self.calls.append(c)


class Scripted17(iso.Pattern):
    """an event stream given by an explicit script; an entry may be a failing pattern expression, evaluated - as a field of
    a PDict, the way a track's event dict is evaluated - when the entry is reached"""
    def __init__(self, items, cyclic):
        self.items, self.pos, self.cyclic = items, 0, cyclic

    def __next__(self):
        if self.pos >= len(self.items):
            raise StopIteration
        it = self.items[self.pos]
        self.pos += 1
        if self.cyclic and self.pos == len(self.items):
            self.pos = 0
        if isinstance(it, tuple):
            if it[0] == "expr":
                field = ("note", "duration", "amplitude", "channel")[len(it[1]) % 4]
                return next(iso.PDict({"note": 60, "duration": 1, field: FAULT_EXPRS[it[1]]()}))
            if it[0] == "stop":
                raise UserStop()
        if it == "raise":
            raise RuntimeError("pattern fault (scripted)")
        return dict(it)

    def reset(self):
        self.pos = 0


class Driver17(Driver):
    def __init__(self, sc):
        super().__init__(sc)
        self.dev.__class__ = Rec17
        self.dev.fail_exc = sc["config"].get("dev_fail_exc", "RuntimeError")

    FORMS = ("function", "partial", "callable-object", "bound-method")

    def make_cb(self, i, cb):
        """the callback in the callable form the scenario names (cb["form"]); without one, the form varies with the callback as in
        sched_impl.Driver.make_cb.  A functools.partial and a callable object have no __name__, a bound method is not a function"""
        def fn():
            self.dev.calls.append(["cb", i])
            for o in cb["ops"]:
                self.exec_op(o, inside=True)
            if cb["raise"] == "exc":
                raise_class(cb.get("exc") or "ValueError", "callback fault (scripted)")
            if cb["raise"] == "stop":
                raise StopIteration
        form = cb.get("form")
        if form is None:
            form = self.FORMS[(i + len(cb["ops"]) + len(self.sc.get("ops", []))) % 4]
        if form == "partial":
            import functools
            return functools.partial(lambda f: f(), fn)
        if form == "callable-object":
            class CallableObject:
                def __call__(self_inner):
                    return fn()
            return CallableObject()
        if form == "bound-method":
            class Holder:
                def method(self_inner):
                    return fn()
            return Holder().method
        if form != "function":
            raise ValueError("bad callback form %r" % (form,))
        return fn

    def event_dict(self, ev):
        k = ev["k"]
        if k == "raise_eval" and ev.get("expr"):
            return ("expr", ev["expr"])
        if k == "raise_stop":
            return ("stop",)
        if k == "raise_ctor" and ev.get("variant"):
            return CTOR_VARIANTS[ev["variant"]]({"duration": self.beats(ev.get("dur", self.U))})
        return super().event_dict(ev)

    def stream(self, s):
        items = [self.event_dict(e) for e in s["items"]]
        if any(isinstance(i, tuple) for i in items):
            return Scripted17(items, s["cyclic"])
        return super().stream(s)

    def run(self):
        sparse, prev, idx = [], [], 0
        times = []
        escaped = []
        run_result = None
        runs = []
        for o in self.sc["ops"]:
            if o[0] in ("run", "background"):
                # one run of the timeline's life: in the foreground (the exception, if any, reaches this caller) or on the thread
                # background() creates (joined before the life goes on; what leaves run() there goes to threading.excepthook)
                dev = self.dev
                ticks = [[]]
                budget = o[1]
                dev.calls = ticks[-1]

                def dev_tick():
                    if len(ticks) > budget:
                        raise Budget()
                    ticks.append([])
                    dev.calls = ticks[-1]
                dev.tick = dev_tick
                if o[0] == "run":
                    try:
                        self.tl.run(stop_when_done=True)
                        how = "returned"
                    except Budget:
                        how = "budget"
                    except Exception as e:
                        how = "exc:" + type(e).__name__
                else:
                    import threading
                    left = []
                    saved_hook = threading.excepthook
                    threading.excepthook = lambda a: left.append(a.exc_type)
                    before = set(threading.enumerate())
                    self.tl.stop_when_done = True
                    try:
                        self.tl.background()
                        for t in threading.enumerate():
                            if t not in before:
                                t.join(30)
                                if t.is_alive():
                                    left.append(Budget)
                    finally:
                        threading.excepthook = saved_hook
                    how = "returned" if not left else ("budget" if left[0] is Budget else "exc:" + left[0].__name__)
                del dev.tick
                dev.calls = []
                result = {"mode": o[0], "ticks": ticks, "how": how, "now_ticks": self.tl.current_time * self.sc["tpb"],
                          "n_tracks": len(self.tl.tracks), "ids": self.ids()}
                runs.append(result)
                if run_result is None:
                    run_result = result
                continue
            if o[0] == "hand_run":
                # the same run made by hand: tick() until it raises - what run() must turn into "returned" / a raised exception
                self.tl.stop_when_done = True
                ticks, how = [], "budget"
                for _ in range(o[1]):
                    self.dev.calls = []
                    try:
                        self.tl.tick()
                        ticks.append(self.dev.calls)
                    except StopIteration:
                        ticks.append(self.dev.calls); how = "returned"; break
                    except Exception as e:
                        ticks.append(self.dev.calls); how = "exc:" + type(e).__name__; break
                self.dev.calls = []
                result = {"mode": "hand", "ticks": ticks, "how": how, "now_ticks": self.tl.current_time * self.sc["tpb"],
                          "n_tracks": len(self.tl.tracks), "ids": self.ids()}
                runs.append(result)
                if run_result is None:
                    run_result = result
                continue
            if o[0] == "stop":
                self.tl.stop()
                self.dev.calls = []          # OutputDevice.all_notes_off(): 16 x 128 note-offs on the device, not part of any run
                continue
            if o[0] == "reset":
                self.tl.reset()
                continue
            reps = o[1] if o[0] == "tick" else 1
            for _ in range(reps):
                self.dev.calls = []
                if o[0] == "tick":
                    try:
                        self.tl.tick(); res = "ok"
                    except StopIteration:
                        res = "stop"
                    except Exception as e:
                        res = "exc"
                        escaped.append([idx, type(e).__name__, [c.__name__ for c in type(e).__mro__ if c is not object]])
                    times.append(self.tl.current_time * self.sc["tpb"])
                elif o[0] == "set_ignore":
                    self.tl.ignore_exceptions = bool(o[1])
                    res = "ok"
                else:
                    res = self.exec_op(o)
                ids = self.ids()
                if self.dev.calls or res != "ok" or ids != prev:
                    sparse.append([idx, self.dev.calls, res, ids])
                prev = ids
                idx += 1
        out = {"obs": sparse, "now_ticks": self.tl.current_time * self.sc["tpb"], "times": times, "escaped": escaped}
        if run_result is not None:
            out["run"] = run_result
            out["runs"] = runs
        return out


# ---- real, stateful output devices behind the scheduler ------------------------------------------------------------------
class FakePort:
    """what mido.open_output returns: records the bytes of every message sent"""
    name = "verif-fake-port"

    def __init__(self):
        self.sent = []

    def send(self, msg):
        self.sent.append(list(msg.bytes()))

    def close(self):
        pass


class DriverReal(Driver17):
    """config "device": "file" = MidiFileOutputDevice writing a temporary file that is read back with mido at the end;
    "port" = MidiOutputDevice on a fake mido port.  The data of the scenario goes to the device as it is: a note / velocity /
    control value / program outside 0..127 is refused by mido.Message inside the device call (ValueError).
    Result: "res": per tick "ok" / "stop" / "exc", "ids": scheduled tracks after every tick, "times", "escaped",
    "file": [[delta, bytes]] of every non-meta message of the saved file / "port": per tick the byte lists sent."""
    def __init__(self, sc):
        import tempfile, mido
        self.sc = sc
        self.U = sc["U"]
        cfg = sc["config"]
        self.kind = cfg["device"]
        if self.kind == "file":
            from isobar.io.midifile import MidiFileOutputDevice
            self.tmpdir = tempfile.mkdtemp(prefix="c17dev")
            self.filename = os.path.join(self.tmpdir, "out.mid")
            self.dev = MidiFileOutputDevice(self.filename)
        else:
            from isobar.io.midi import MidiOutputDevice
            self.port = FakePort()
            saved = mido.open_output
            mido.open_output = lambda *a, **k: self.port
            try:
                self.dev = MidiOutputDevice("verif-fake-port")
            finally:
                mido.open_output = saved
        self.dev.calls = []          # the callbacks of the scenario log themselves here
        self.ndev, self.devs = 1, [self.dev]   # one real device (sched_impl's multi-device mode is not used here)
        self.tl = iso.Timeline(cfg.get("tempo", 120), output_device=self.dev,
                               clock_source=iso.DummyClock(ticks_per_beat=sc["tpb"]),
                               ignore_exceptions=bool(cfg.get("ignore")))
        self.tl.max_tracks = cfg.get("max_tracks", 0)
        self.tl.stop_when_done = bool(cfg.get("stop_when_done"))
        self.created = []
        self.cb_fns = [self.make_cb(i, cb) for i, cb in enumerate(sc.get("callbacks", []))]

    def run(self):
        import mido
        res, ids, times, escaped, port_ticks, idx = [], [], [], [], [], 0
        for o in self.sc["ops"]:
            reps = o[1] if o[0] == "tick" else 1
            for _ in range(reps):
                if o[0] == "tick":
                    before = len(self.port.sent) if self.kind == "port" else 0
                    try:
                        self.tl.tick(); r = "ok"
                    except StopIteration:
                        r = "stop"
                    except Exception as e:
                        r = "exc"
                        escaped.append([idx, type(e).__name__, [c.__name__ for c in type(e).__mro__ if c is not object]])
                    res.append(r)
                    ids.append(self.ids())
                    times.append(self.tl.current_time * self.sc["tpb"])
                    if self.kind == "port":
                        port_ticks.append(self.port.sent[before:])
                elif o[0] == "set_ignore":
                    self.tl.ignore_exceptions = bool(o[1])
                else:
                    self.exec_op(o)
                idx += 1
        out = {"res": res, "ids": ids, "times": times, "escaped": escaped, "device_tpb": self.dev.ticks_per_beat}
        if self.kind == "file":
            self.dev.write()
            msgs = []
            for m in mido.MidiFile(self.filename).tracks[0]:
                if not m.is_meta:
                    msgs.append([m.time, list(m.bytes())])
            out["file"] = msgs
            os.remove(self.filename)
            os.rmdir(self.tmpdir)
        else:
            out["port"] = port_ticks
        return out


def fault_classes():
    """what each catalogue entry raises: {name: [class name, MRO names]} - measured, not declared"""
    out = {}
    for name, mk in FAULT_EXPRS.items():
        try:
            next(iso.PDict({"note": mk(), "duration": 1}))
            out["expr:" + name] = None
        except Exception as e:
            out["expr:" + name] = [type(e).__name__, [c.__name__ for c in type(e).__mro__ if c is not object]]
    dev = Rec(None)
    tl = iso.Timeline(120, output_device=dev, clock_source=iso.DummyClock(ticks_per_beat=4))
    probe_track = tl.schedule({"note": 60})
    for name, mk in CTOR_VARIANTS.items():
        try:
            from isobar.timelines.event import Event
            Event(mk({"duration": 1.0}), tl.defaults, track=probe_track)
            out["ctor:" + name] = None
        except Exception as e:
            out["ctor:" + name] = [type(e).__name__, [c.__name__ for c in type(e).__mro__ if c is not object]]
    for name, c in EXC_CLASSES.items():
        out["class:" + name] = [name, [k.__name__ for k in c.__mro__ if k is not object]]
    out["class:UserStop"] = ["UserStop", [k.__name__ for k in UserStop.__mro__ if k is not object]]
    return out


def main():
    req = json.load(sys.stdin)
    out = []
    import io, contextlib
    for sc in req["scenarios"]:
        try:
            buf = io.StringIO()
            with contextlib.redirect_stdout(buf), contextlib.redirect_stderr(buf):
                r = (DriverReal(sc) if sc["config"].get("device") else Driver17(sc)).run()
            out.append(r)
        except Exception as e:
            import traceback
            out.append({"driver_error": "%s: %s" % (type(e).__name__, e), "tb": traceback.format_exc()[-1500:]})
    res = {"results": out}
    if req.get("catalogue"):
        import io, contextlib
        with contextlib.redirect_stdout(io.StringIO()), contextlib.redirect_stderr(io.StringIO()):
            res["catalogue"] = fault_classes()
    json.dump(res, sys.stdout)


main()

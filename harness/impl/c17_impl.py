"""Implementation driver for C17 (fault containment).  Same scenario format and observations as sched_impl.py (whose
Driver / recording device it reuses, loaded from the source file because that script runs on import), plus
  * "times": Timeline.current_time * ticks_per_beat after every tick operation (one entry per tick);
  * the operation ["run", budget]: Timeline.run(stop_when_done=True) driven by the DummyClock; the recording device
    marks the tick boundaries (OutputDevice.tick is called once per timeline tick), so the result lists the calls
    tick by tick, and how run() ended: "returned" / "exc:<class>" / "budget" (more than [budget] ticks).
"""
import sys, os, json

_here = os.path.dirname(os.path.abspath(__file__))
_src = open(os.path.join(_here, "sched_impl.py")).read()
_src = _src[:_src.rindex("\nmain()")]
_ns = {"__name__": "sched_impl_lib"}
_saved_stdin = sys.stdin
exec(compile(_src, os.path.join(_here, "sched_impl.py"), "exec"), _ns)
Driver = _ns["Driver"]


class Budget(BaseException):
    pass


class Driver17(Driver):
    def run(self):
        sparse, prev, idx = [], [], 0
        times = []
        run_result = None
        for o in self.sc["ops"]:
            if o[0] == "run":
                dev = self.dev
                ticks = [[]]
                budget = o[1]
                dev.calls = ticks[-1]

                def dev_tick():
                    if len(ticks) > budget:
                        raise Budget()
                    ticks.append([])
                    dev.calls = ticks[-1]
                dev.tick = dev_tick
                try:
                    self.tl.run(stop_when_done=True)
                    how = "returned"
                except Budget:
                    how = "budget"
                except Exception as e:
                    how = "exc:" + type(e).__name__
                run_result = {"ticks": ticks, "how": how, "now_ticks": self.tl.current_time * self.sc["tpb"],
                              "n_tracks": len(self.tl.tracks)}
                continue
            reps = o[1] if o[0] == "tick" else 1
            for _ in range(reps):
                self.dev.calls = []
                if o[0] == "tick":
                    try:
                        self.tl.tick(); res = "ok"
                    except StopIteration:
                        res = "stop"
                    except Exception:
                        res = "exc"
                    times.append(self.tl.current_time * self.sc["tpb"])
                else:
                    res = self.exec_op(o)
                ids = self.ids()
                if self.dev.calls or res != "ok" or ids != prev:
                    sparse.append([idx, self.dev.calls, res, ids])
                prev = ids
                idx += 1
        out = {"obs": sparse, "now_ticks": self.tl.current_time * self.sc["tpb"], "times": times}
        if run_result is not None:
            out["run"] = run_result
        return out


def main():
    req = json.load(sys.stdin)
    out = []
    import io, contextlib
    for sc in req["scenarios"]:
        try:
            buf = io.StringIO()
            with contextlib.redirect_stdout(buf), contextlib.redirect_stderr(buf):
                r = Driver17(sc).run()
            out.append(r)
        except Exception as e:
            import traceback
            out.append({"driver_error": "%s: %s" % (type(e).__name__, e), "tb": traceback.format_exc()[-1500:]})
    json.dump({"results": out}, sys.stdout)


main()

"""Implementation driver of C12, part "through a timeline track" (PRef re-targeting observed at the output device).

stdin:  {"cases": [{"tpb": ticks per beat, "ops": [...]}]}
   ["schedule", name | null, spec, channel]   timeline.schedule(event dict, name=..)   - a fresh track, or (name given and a track of
                                               that name running; replace defaults to True) new events for the running track
   ["update", track index, spec, channel]     timeline.tracks[i].update(event dict)
   ["beats", n]                               n beats of timeline.tick()
   ["retarget", label, tree]                  the PRef created with that label: set_pattern(tree)
 spec = {"note": tree, "amplitude": tree}; trees are pat_common JSON; the node PRefL(label, inner) builds iso.PRef(inner) and
 remembers the object under the label - the caller's handle.  The driver adds "duration": 1 and "channel".
stdout: {"cases": [{"beats": [[[note, velocity, channel], ...] per beat], "tracks": number of tracks at the end} | {"error": ...}]}
"""
import sys, os, json
sys.path.insert(0, os.path.dirname(os.path.dirname(os.path.abspath(__file__))))
sys.dont_write_bytecode = True
import pat_common as pc
import isobar
from isobar.globals import Globals


class Rec(isobar.OutputDevice):
    def __init__(self):
        super().__init__()
        self.calls = []

    @property
    def ticks_per_beat(self):
        return None

    def note_on(self, note=60, velocity=64, channel=0):
        self.calls.append([note, velocity, channel])

    def note_off(self, note=60, channel=0):
        pass


class Shim:
    def __init__(self):
        self.refs = {}

    def __getattr__(self, name):
        if name == "PRefL":
            def make(label, inner):
                r = isobar.PRef(inner)
                self.refs[label] = r
                return r
            return make
        return getattr(isobar, name)


def run_case(case):
    shim = Shim()
    dev = Rec()
    tpb = case["tpb"]
    tl = isobar.Timeline(120, output_device=dev, clock_source=isobar.DummyClock(ticks_per_beat=tpb))

    def events(spec, chan):
        d = {}
        for k, tree in spec.items():
            x = pc.from_json(tree)
            d[k] = pc.to_python(x, shim) if pc.is_pat(x) else x
        d["duration"] = 1
        d["channel"] = chan
        return d
    beats = []
    for o in case["ops"]:
        if o[0] == "schedule":
            tl.schedule(events(o[2], o[3]), name=None if o[1] is None else "n%d" % o[1])
        elif o[0] == "update":
            tl.tracks[o[1]].update(events(o[2], o[3]))
        elif o[0] == "retarget":
            x = pc.from_json(o[2])
            shim.refs[o[1]].set_pattern(pc.to_python(x, shim))
        elif o[0] == "beats":
            for _ in range(o[1]):
                dev.calls = []
                for _ in range(tpb):
                    tl.tick()
                beats.append(dev.calls)
        else:
            raise ValueError("bad op %r" % (o,))
    return {"beats": beats, "tracks": len(tl.tracks)}


def main():
    req = json.load(sys.stdin)
    out = []
    import io, contextlib
    for case in req["cases"]:
        try:
            with contextlib.redirect_stdout(io.StringIO()), contextlib.redirect_stderr(io.StringIO()):
                out.append(run_case(case))
        except Exception as e:
            import traceback
            out.append({"error": "%s: %s" % (type(e).__name__, e), "tb": traceback.format_exc()[-1200:]})
    json.dump({"cases": out}, sys.stdout)


main()

"""Implementation driver of C10: evaluates Python source text of a pattern expression against the repository and
records the constructor observation followed by n observations of next().
stdin:  {"cases": [{"src": "iso.PStutter(iso.PSeries(0, 1, 3), 2)", "n": 80}]}
      | {"euclid": N}    -> PEuclidean._euclidean(n, k) for all 0 <= k <= n <= N (n >= 1), through the public next() too
      | {"arp": [[notes, type], ...]}
      | {"sessions": [{"programs": [src...], "sched": [["new" | "next" | "reset", i]...]}]}
            a SESSION: several programs built, stepped and reset in the interleaved order of `sched` inside ONE interpreter
            (every session runs in a forked child of this driver, so nothing is carried over from an earlier session);
            -> {"sessions": [{"obs": [[observations of program 0 in order]...], "status": null|"timeout"|"crash"}]}
stdout: {"cases": [{"obs": [...], "status": null|"timeout"}]} with observations as in pat_impl.py:
        {"y": value} | "stop" | {"r": exception class name}
The names available to the source text: iso (the package), FN (the function catalogue shared with the oracle)."""
import sys, os, json, signal
sys.path.insert(0, os.path.dirname(os.path.dirname(os.path.abspath(__file__))))
sys.dont_write_bytecode = True
import pat_common as pc
import isobar as iso
from isobar.scale import Scale
from isobar.chord import Chord
from isobar.globals import Globals

OP_TIMEOUT = 2.0

FN = {
    "sq": lambda v: None if v is None else v * v,
    "addc": lambda v, c: None if v is None else v + c,
    "neg": lambda v: None if v is None else -v,
    "isnone": lambda v: 1 if v is None else 0,
    "mulk": lambda v, k=2: None if v is None else v * k,
}


class Timeout(BaseException):
    pass


def on_alarm(sig, frm):
    raise Timeout()


def observe(f):
    try:
        return {"y": pc.value_to_json(f())}
    except StopIteration:
        return "stop"
    except Timeout:
        raise
    except RecursionError:
        return {"r": "RecursionError"}
    except Exception as e:
        return {"r": type(e).__name__}


def run_case(case):
    obs, status = [], None
    signal.setitimer(signal.ITIMER_REAL, OP_TIMEOUT * 2)
    try:
        holder = {}

        def build():
            holder["p"] = eval(case["src"], {"iso": iso, "FN": FN})
        obs.append(observe(build))
        if "p" in holder:
            p = holder["p"]
            for _ in range(case["n"]):
                signal.setitimer(signal.ITIMER_REAL, OP_TIMEOUT)
                obs.append(observe(lambda: next(p)))
    except Timeout:
        status = "timeout"
    finally:
        signal.setitimer(signal.ITIMER_REAL, 0)
    return {"obs": obs, "status": status}


def euclid(nmax):
    out = []
    for n in range(1, nmax + 1):
        for k in range(0, n + 1):
            try:
                seq = iso.PEuclidean(k, n)._euclidean(n, k)
                direct = [1 if x == 1 else 0 if x is None else 9 for x in seq]
            except Exception as e:
                direct = type(e).__name__
            try:
                p = iso.PEuclidean(k, n)
                vals = [next(p) for _ in range(2 * n + 1)]
                pub = [1 if (x == 1 and x is not True) else 0 if x is None else 9 for x in vals]
            except Exception as e:
                pub = type(e).__name__
            out.append({"n": n, "k": k, "direct": direct, "next": pub})
    return out


def arp(cases):
    out = []
    for notes, ty, loop in cases:
        try:
            p = iso.PArpeggiator(list(notes), ty, loop)
            vals = []
            for _ in range(80):
                try:
                    vals.append(next(p))
                except StopIteration:
                    vals.append("stop")
                    break
            out.append(vals)
        except Exception as e:
            out.append(type(e).__name__)
    return out


def run_session(sess):
    objs, obs = {}, [[] for _ in sess["programs"]]
    status = None
    signal.setitimer(signal.ITIMER_REAL, OP_TIMEOUT * 4)
    try:
        for op, i in sess["sched"]:
            signal.setitimer(signal.ITIMER_REAL, OP_TIMEOUT * 2)
            if op == "new":
                def build():
                    objs[i] = eval(sess["programs"][i], {"iso": iso, "FN": FN})
                obs[i].append(observe(build))
            elif i in objs:
                p = objs[i]
                obs[i].append(observe((lambda: next(p)) if op == "next" else (lambda: p.reset())))
    except Timeout:
        status = "timeout"
    finally:
        signal.setitimer(signal.ITIMER_REAL, 0)
    return {"obs": obs, "status": status}


def forked_session(sess):
    r, w = os.pipe()
    pid = os.fork()
    if pid == 0:
        try:
            os.close(r)
            out = json.dumps(run_session(sess)).encode()
            with os.fdopen(w, "wb") as f:
                f.write(out)
        finally:
            os._exit(0)
    os.close(w)
    with os.fdopen(r, "rb") as f:
        data = f.read()
    os.waitpid(pid, 0)
    try:
        return json.loads(data.decode())
    except ValueError:
        return {"obs": [[] for _ in sess["programs"]], "status": "crash"}


def main():
    req = json.load(sys.stdin)
    if "sessions" in req:
        signal.signal(signal.SIGALRM, on_alarm)
        json.dump({"sessions": [forked_session(s) for s in req["sessions"]]}, sys.stdout)
        return
    if "euclid" in req:
        json.dump({"euclid": euclid(req["euclid"])}, sys.stdout)
        return
    if "arp" in req:
        json.dump({"arp": arp(req["arp"])}, sys.stdout)
        return
    signal.signal(signal.SIGALRM, on_alarm)
    saved = (dict(Scale.dict), dict(Chord.dict), dict(Globals.dict))
    out = []
    for case in req["cases"]:
        out.append(run_case(case))
        for d, s in zip((Scale.dict, Chord.dict, Globals.dict), saved):
            if d != s:
                d.clear(); d.update(s)
    json.dump({"cases": out}, sys.stdout)


main()

"""implementation driver: the float time of Timeline and Track after every tick, as float.hex() bit patterns.
stdin: {"cases": [{"tpb": int, "ticks": int, "start_after": int, "sample": int}]}.  For each case a timeline with a
DummyClock at that resolution and one sparse track scheduled after `start_after` ticks is ticked `ticks` times; the driver
compares, at EVERY tick, timeline.current_time with k / tpb and track.current_time with (k - start) / tpb (int / int true
division: the correctly rounded quotient, which is what Base/FloatGrid.v's RN (IZR k / IZR tpb) denotes) and returns the
first mismatch, plus every `sample`-th value verbatim."""
import json, sys


def main():
    import isobar as iso
    from isobar.io import OutputDevice

    class Dev(OutputDevice):
        def __init__(self):
            super().__init__()
        @property
        def ticks_per_beat(self):
            return None
        def note_on(self, note=60, velocity=64, channel=0): pass
        def note_off(self, note=60, channel=0): pass

    out = []
    for c in json.load(sys.stdin)["cases"]:
        tpb, n, sa, sample = c["tpb"], c["ticks"], c["start_after"], max(1, c["sample"])
        try:
            tl = iso.Timeline(120, output_device=Dev(), clock_source=iso.DummyClock(ticks_per_beat=tpb))
            tl.stop_when_done = False
            tr = None
            first_bad, samples = None, []
            for k in range(n + 1):
                if k == sa:
                    tr = tl.schedule({"note": 60, "duration": 64, "gate": 0.001}, quantize=0, delay=0)
                t = tl.current_time
                exp = k / tpb
                bad = (t != exp)
                tt = None
                if tr is not None and k > sa:
                    tt = tr.current_time
                    bad = bad or (tt != (k - sa) / tpb)
                if bad and first_bad is None:
                    first_bad = {"tick": k, "timeline": float(t).hex(), "expected": float(exp).hex(),
                                 "track": None if tt is None else float(tt).hex(),
                                 "track_expected": None if tt is None else float((k - sa) / tpb).hex()}
                if k % sample == 0:
                    samples.append([k, float(t).hex()])
                if k < n:
                    tl.tick()
            out.append({"first_bad": first_bad, "samples": samples})
        except Exception as e:
            out.append({"driver_error": "%s: %s" % (type(e).__name__, e)})
    json.dump(out, sys.stdout)


if __name__ == "__main__":
    main()

"""Implementation driver for the several-timelines stratum of C07: the SAME PStaticPattern / PCurrentTime / PGlobals
objects - event dictionaries built once - scheduled on several Timeline objects of one process, which are ticked one
after the other (a second performance on a fresh timeline) or alternately.

stdin:  {"programs": [program]}; program = {"tls": [ticks_per_beat, ...], "static": {"vals", "cyclic", "durs": [[num, den], ...]},
          "default": d, "shared_time": bool (one PCurrentTime object for all dictionaries, or one per dictionary),
          "tracks": [{"period": [num, den] beats, "offset": [num, den] beats, "reads": "static"|"global", "direct": bool,
                      "sets": bool, "count": n|null, "on": [timeline index, ...]}],
          "phases": [[timeline index, ticks], ...]}
        A timeline is created when its first phase begins; every dictionary whose "on" names it is scheduled on it then.
stdout: {"results": [{"log": [[kind, timeline, tick of that timeline, track, value], ...]}]} in the order things happened; kinds as in
        static_impl.py: read / get / time (event arguments), direct (next(static) inside the callback), set (Globals.set)."""
import sys, json
from fractions import Fraction
import isobar as iso
from isobar.globals import Globals


class Dev(iso.OutputDevice):
    @property
    def ticks_per_beat(self):
        return None


def run(p):
    saved = dict(Globals.dict)
    Globals.dict.clear()
    try:
        st = p["static"]
        durs = [float(Fraction(a, b)) for a, b in st["durs"]]
        inner = iso.PSequence(st["vals"]) if st["cyclic"] else iso.PSequence(st["vals"], 1)
        S = iso.PStaticPattern(inner, durs[0] if len(durs) == 1 else iso.PSequence(durs))
        log = []
        cur = {"k": None, "tick": None}
        counters = [0] * len(p["tracks"])
        shared_T = iso.PCurrentTime()

        def make(j, t):
            def cb(v, t_):
                k, tick = cur["k"], cur["tick"]
                log.append(["read" if t["reads"] == "static" else "get", k, tick, j, v])
                log.append(["time", k, tick, j, t_])
                if t.get("direct"):
                    try:
                        log.append(["direct", k, tick, j, next(S)])
                    except StopIteration:
                        log.append(["direct", k, tick, j, "stop"])
                if t.get("sets"):
                    val = 0 if counters[j] % 3 == 2 else 100 * (j + 1) + counters[j]
                    Globals.set("x", val)
                    log.append(["set", k, tick, j, val])
                counters[j] += 1
            return cb
        # the event dictionaries are built ONCE
        dicts = []
        for j, t in enumerate(p["tracks"]):
            src = S if t["reads"] == "static" else iso.PGlobals("x", p["default"])
            dicts.append({"action": make(j, t), "duration": float(Fraction(*t["period"])),
                          "args": {"v": src, "t_": shared_T if p.get("shared_time") else iso.PCurrentTime()}})
        tls, ticks = {}, {}
        for k, n in p["phases"]:
            if k not in tls:
                tls[k] = iso.Timeline(120, output_device=Dev(), clock_source=iso.DummyClock(ticks_per_beat=p["tls"][k]))
                ticks[k] = 0
                for j, t in enumerate(p["tracks"]):
                    if k in t["on"]:
                        tls[k].schedule(dicts[j], delay=float(Fraction(*t["offset"])), count=t.get("count"))
            for _ in range(n):
                cur["k"], cur["tick"] = k, ticks[k]
                tls[k].tick()
                ticks[k] += 1
        return {"log": log}
    finally:
        Globals.dict.clear()
        Globals.dict.update(saved)


def run_globals(p):
    """globals whose values are patterns: program = {"kind": "globals", "tpb", "ticks", "default", "objs": [{"vals": [...]}] (cyclic
    PSequence objects, built once), "tracks": [{"role": "setter", "period", "offset", "groups": [[[name, ["s", v] | ["p", obj], form], ...], ...]}
    | {"role": "reader", "period", "offset", "name", "direct": bool, "count": n|null}]}; names are indices ("g0", "g1", ...);
    log: ["get", tick, track, name, value] (PGlobals as an event argument), ["direct", tick, track, name, value | "keyerror"]
    (Globals.get inside the callback), ["set", tick, track, name, spec]"""
    saved = dict(Globals.dict)
    Globals.dict.clear()
    try:
        tpb = p["tpb"]
        tl = iso.Timeline(120, output_device=Dev(), clock_source=iso.DummyClock(ticks_per_beat=tpb))
        objs = [iso.PSequence(list(o["vals"])) for o in p["objs"]]
        log = []
        state = {"tick": 0}
        counters = [0] * len(p["tracks"])

        def value_of(spec):
            return spec[1] if spec[0] == "s" else objs[spec[1]]

        def make_setter(j, t):
            def cb():
                group = t["groups"][counters[j] % len(t["groups"])]
                counters[j] += 1
                for name, spec, form in group:
                    key = "g%d" % name
                    if form == "kv":
                        Globals.set(key, value_of(spec))
                    elif form == "dict":
                        Globals.set({key: value_of(spec)})
                    else:
                        Globals.set({"unrelated-%d" % j: counters[j], key: value_of(spec)})
                    log.append(["set", state["tick"], j, name, spec])
            return cb

        def make_reader(j, t):
            def cb(v):
                log.append(["get", state["tick"], j, t["name"], v])
                if t.get("direct"):
                    try:
                        log.append(["direct", state["tick"], j, t["name"], Globals.get("g%d" % t["name"])])
                    except KeyError:
                        log.append(["direct", state["tick"], j, t["name"], "keyerror"])
            return cb
        for j, t in enumerate(p["tracks"]):
            ev = {"duration": float(Fraction(t["period"], tpb))}
            if t["role"] == "setter":
                ev["action"] = make_setter(j, t)
            else:
                ev["action"] = make_reader(j, t)
                ev["args"] = {"v": iso.PGlobals("g%d" % t["name"], p["default"])}
            tl.schedule(ev, delay=float(Fraction(t["offset"], tpb)), count=t.get("count"))
        for i in range(p["ticks"]):
            state["tick"] = i
            tl.tick()
        return {"log": log}
    finally:
        Globals.dict.clear()
        Globals.dict.update(saved)


class Rec(iso.OutputDevice):
    def __init__(self):
        super().__init__()
        self.calls = []

    @property
    def ticks_per_beat(self):
        return None

    def note_on(self, note=60, velocity=64, channel=0):
        self.calls.append(["on", note, velocity, channel])

    def note_off(self, note=60, channel=0):
        self.calls.append(["off", note, channel])


def run_notation(p):
    """tracks whose event values are written in string shorthand: program = {"kind": "notation", "tpb", "gate": [num, den],
    "tracks": [{"note": str, "dur": str, "amp": str, "chan": c, "delay": [num, den] beats | null, "count": n | null,
                "form": "dict" | "pdict" | "pseq"}],
    "rounds": [[["schedule", track index] | ["tick", n], ...], ...]}: every round is played on a NEW Timeline of the same process;
    every schedule call builds its event dictionary anew from the strings.
    result: {"rounds": [sparse observation as in sched_impl.py: [op index, calls, result, ids of Timeline.tracks]]}"""
    out = []
    gate = float(Fraction(*p["gate"]))
    for ops in p["rounds"]:
        dev = Rec()
        tl = iso.Timeline(120, output_device=dev, clock_source=iso.DummyClock(ticks_per_beat=p["tpb"]))
        created = []
        sparse, prev, idx = [], [], 0
        for o in ops:
            for _ in range(o[1] if o[0] == "tick" else 1):
                dev.calls = []
                res = "ok"
                if o[0] == "tick":
                    try:
                        tl.tick()
                    except StopIteration:
                        res = "stop"
                    except Exception:
                        res = "exc"
                else:
                    t = p["tracks"][o[1]]
                    d = {"note": t["note"], "duration": t["dur"], "amplitude": t["amp"], "gate": gate, "channel": t["chan"]}
                    if t["form"] == "pseq":
                        d = {k: (iso.PSequence(v) if isinstance(v, str) else v) for k, v in d.items()}
                    elif t["form"] == "pdict":
                        d = iso.PDict(d)
                    kw = {}
                    if t.get("delay") is not None:
                        kw["delay"] = float(Fraction(*t["delay"]))
                    created.append(tl.schedule(d, count=t.get("count"), **kw))
                ids = [next((i for i, c in enumerate(created) if c is tr), -1) for tr in tl.tracks]
                if dev.calls or res != "ok" or ids != prev:
                    sparse.append([idx, dev.calls, res, ids])
                prev = ids
                idx += 1
        out.append(sparse)
    return {"rounds": out}


def main():
    req = json.load(sys.stdin)
    out = []
    import io, contextlib
    for p in req["programs"]:
        try:
            buf = io.StringIO()
            with contextlib.redirect_stdout(buf), contextlib.redirect_stderr(buf):
                out.append(run_globals(p) if p.get("kind") == "globals" else run_notation(p) if p.get("kind") == "notation" else run(p))
        except Exception as e:
            import traceback
            out.append({"driver_error": "%s: %s" % (type(e).__name__, e), "tb": traceback.format_exc()[-1500:]})
    json.dump({"results": out}, sys.stdout)


main()

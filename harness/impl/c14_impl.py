"""Implementation driver for C14 (clock domains / internal clock / external MIDI clock).
stdin: {"mult": [...], "timeline": [...], "clock": [...], "midi_in": [...], "midi_tl": [...], "midi_wired": [...]}; stdout: the same keys
with one result per case.  Every case is run inside try/except; an unexpected exception is reported by class name.
Only API-level observables are recorded: values yielded by the multiplier generator, device.tick() calls (and MIDI
'clock' messages on a fake mido port) per Timeline.tick(), clock_target.tick() counts against a scripted virtual
clock, calls made on the clock target / user callback / queue by MidiInputDevice._callback."""
import sys, json
import mido

# ---- fake MIDI ports (no real device is ever opened) ---------------------------------------------------------
class FakeOutPort:
    name = "verif-fake-out"
    def __init__(self):
        self.log = None
        self.index = None
    def send(self, msg):
        if self.log is not None and msg.type == "clock":
            self.log.append(self.index)

class FakeInPort:
    name = "verif-fake-in"
    def __init__(self, callback=None):
        self.callback = callback

_last_out = []
def _open_output(name=None, virtual=False, **kw):
    p = FakeOutPort(); _last_out.append(p); return p
def _open_input(name=None, callback=None, virtual=False, **kw):
    return FakeInPort(callback)
mido.open_output = _open_output
mido.open_input = _open_input
mido.get_input_names = lambda *a, **k: ["verif-fake-in"]
mido.get_output_names = lambda *a, **k: ["verif-fake-out"]

import isobar as iso
import isobar.timelines.clock as clock_module
from isobar.util import make_clock_multiplier
from isobar.exceptions import ClockException
from isobar.io.midi.input import MidiInputDevice
from isobar.io.midi.output import MidiOutputDevice


def err_code(e):
    if isinstance(e, ClockException):
        return -1
    if isinstance(e, StopIteration):
        return -2
    return type(e).__name__


def sparse(codes, dflt):
    return [[i, c] for i, c in enumerate(codes) if c != dflt]


# ---- 1. the multiplier generator -----------------------------------------------------------------------------
def run_mult(case):
    codes = []
    g = make_clock_multiplier(case["out"], case["in"])
    for _ in range(case["steps"]):
        try:
            v = next(g)
        except Exception as e:
            codes.append(err_code(e))
            break
        if type(v) is not int:
            codes.append("non-int:%r" % (v,))
            break
        codes.append(v)
    bad = [c for c in codes if not isinstance(c, int)]
    if bad:
        return {"error": str(bad[0])}
    return {"len": len(codes), "sparse": sparse(codes, case["dflt"]), "total": sum(c for c in codes if c > 0)}


# ---- 2. Timeline.tick with recording devices -----------------------------------------------------------------
class Rec(iso.OutputDevice):
    """recording output device with a chosen ticks_per_beat (None = no clock rate)"""
    def __init__(self, rate, index, log):
        super().__init__()
        self._rate, self.index, self.log = rate, index, log
        self.on_tick = None
    @property
    def ticks_per_beat(self):
        return self._rate
    def tick(self):
        self.log.append(self.index)
        if self.on_tick:
            self.on_tick()


def make_device(spec, index, log):
    if spec == "midi":          # a real MidiOutputDevice (24 PPQN) on a fake port, sending MIDI clock
        d = MidiOutputDevice(send_clock=True)
        d.midi.log, d.midi.index = log, index
        return d
    return Rec(spec, index, log)


def enc_calls(calls):
    v = 0
    for c in calls:
        v = v * 4 + (c + 1)
    return v


def run_timeline(case):
    log = []
    devs = [make_device(s, i, log) for i, s in enumerate(case["devs"])]
    tl = iso.Timeline(output_device=devs[0], clock_source=iso.DummyClock(ticks_per_beat=case["rate"]))
    for d in devs[1:]:
        tl.add_output_device(d)
    per_tick, code = [], 0
    for _ in range(case["ticks"]):
        del log[:]
        try:
            tl.tick()
        except Exception as e:
            code = err_code(e)
            per_tick.append(enc_calls(log))
            break
        per_tick.append(enc_calls(log))
    if not isinstance(code, int):
        return {"error": code}
    return {"len": len(per_tick), "sparse": sparse(per_tick, case["dflt"]), "code": code,
            "ticks_per_beat": tl.ticks_per_beat}


# ---- 3. Clock.run against a scripted virtual clock -----------------------------------------------------------
class VirtualTime:
    """stands in for the `time` module inside isobar.timelines.clock: time() returns the scripted reading,
    sleep() records the tick count reached, applies a tempo change made 'by another thread' and moves on to the
    next reading; when the script is over it stops the clock."""
    def __init__(self, readings, between, counter, set_tempo, stop):
        self.readings, self.between = readings, between
        self.i = 0
        self.counts = []
        self.counter, self.set_tempo, self.stop = counter, set_tempo, stop
        self.time_calls = 0
    def time(self):
        self.time_calls += 1
        return self.readings[self.i]
    def sleep(self, d):
        self.counts.append(self.counter())
        if self.i + 1 < len(self.readings):
            self.i += 1
            t = self.between.get(str(self.i))
            if t is not None:
                self.set_tempo(t)
        else:
            self.stop()


def run_clock(case):
    cb = case.get("cb", {})
    state = {"n": 0}
    if case["target"] == "timeline":
        log = []
        dev = Rec(None, 0, log)
        rep = case.get("replace")
        if rep:
            # the timeline is built on an internal clock of ANOTHER rate; then its clock source is replaced by a Clock made
            # without a target (the documented way), which is the one that runs
            tl = iso.Timeline(rep["old_tempo"], output_device=dev, ticks_per_beat=rep["old_tpb"])
            tl.clock_source = iso.Clock(tempo=case["tempo"], ticks_per_beat=case["tpb"])
        else:
            tl = iso.Timeline(case["tempo"], output_device=dev, ticks_per_beat=case["tpb"])
        clock = tl.clock_source
        def on_tick():
            i = state["n"]; state["n"] += 1
            t = cb.get(str(i))
            if t is not None:
                tl.tempo = t
        dev.on_tick = on_tick
        runner = tl.run
        set_tempo = lambda t: setattr(tl, "tempo", t)
    elif case["target"] == "midi_late":
        # a real MidiOutputDevice opened WITHOUT clock output is the clock's target; clock output is switched on afterwards
        dev = MidiOutputDevice()
        class CountPort:
            name = "verif-fake-out"
            def send(self, msg):
                if msg.type == "clock":
                    i = state["n"]; state["n"] += 1
                    t = cb.get(str(i))
                    if t is not None:
                        clock.tempo = t
        dev.midi = CountPort()
        clock = iso.Clock(dev, case["tempo"], case["tpb"])
        dev.send_clock = True
        runner = clock.run
        set_tempo = lambda t: setattr(clock, "tempo", t)
    else:
        class Target:
            ticks_per_beat = case.get("target_rate")
            def tick(self):
                i = state["n"]; state["n"] += 1
                t = cb.get(str(i))
                if t is not None:
                    clock.tempo = t
        clock = iso.Clock(Target(), case["tempo"], case["tpb"])
        runner = clock.run
        set_tempo = lambda t: setattr(clock, "tempo", t)
    if "accelerate" in case:
        clock.accelerate = case["accelerate"]
    vt = VirtualTime(case["readings"], case.get("between", {}), lambda: state["n"], set_tempo, clock.stop)
    saved = clock_module.time
    clock_module.time = vt
    code = 0
    try:
        runner()
    except Exception as e:
        code = err_code(e)
        vt.counts.append(state["n"])
    finally:
        clock_module.time = saved
    if not isinstance(code, int):
        return {"error": code}
    return {"counts": vt.counts, "code": code}


# ---- 3b. ONE Clock run several times (run, stop, virtual time passes, run again) ---------------------------------------
class SegmentTime:
    """the `time` module seen by isobar.timelines.clock during ONE run of a multi-run script: like VirtualTime; when the
    run is to be ended from a tick callback (`stop_tick`) the readings go on into `spare` ones, which a clock that has
    really stopped reads once and never acts on; the end of the spare readings stops the clock in any case."""
    def __init__(self, readings, spare, between, counter, set_tempo, stop, by_callback):
        self.all, self.n_main, self.between = list(readings) + list(spare), len(readings), between
        self.i = 0
        self.counts = []
        self.counter, self.set_tempo, self.stop, self.by_callback = counter, set_tempo, stop, by_callback
    def time(self):
        return self.all[self.i]
    def sleep(self, d):
        self.counts.append(self.counter())
        if self.i + 1 < self.n_main:
            self.i += 1
            t = self.between.get(str(self.i))
            if t is not None:
                self.set_tempo(t)
        elif self.by_callback and self.i + 1 < len(self.all):
            self.i += 1
        else:
            self.stop()


def run_rerun(case):
    cb = case.get("cb", {})
    state = {"n": 0, "stop_tick": None}
    if case["target"] == "timeline":
        log = []
        dev = Rec(None, 0, log)
        tl = iso.Timeline(case["tempo"], output_device=dev, ticks_per_beat=case["tpb"])
        clock = tl.clock_source
        def on_tick():
            i = state["n"]; state["n"] += 1
            t = cb.get(str(i))
            if t is not None:
                tl.tempo = t
            if i == state["stop_tick"]:
                tl.stop()
        dev.on_tick = on_tick
        runner, stopper = tl.run, tl.stop
        set_tempo = lambda t: setattr(tl, "tempo", t)
    else:
        class Target:
            ticks_per_beat = case.get("target_rate")
            def tick(self):
                i = state["n"]; state["n"] += 1
                t = cb.get(str(i))
                if t is not None:
                    clock.tempo = t
                if i == state["stop_tick"]:
                    clock.stop()
        clock = iso.Clock(Target(), case["tempo"], case["tpb"])
        runner, stopper = clock.run, clock.stop
        set_tempo = lambda t: setattr(clock, "tempo", t)
    saved = clock_module.time
    all_counts, code = [], 0
    try:
        for seg in case["segments"]:
            if seg.get("pre_tempo") is not None:
                set_tempo(seg["pre_tempo"])                   # while the clock is stopped
            state["stop_tick"] = seg.get("stop_tick")
            vt = SegmentTime(seg["readings"], seg.get("spare", []), seg.get("between", {}), lambda: state["n"], set_tempo, stopper,
                             seg.get("stop_tick") is not None)
            clock_module.time = vt
            try:
                runner()
            except Exception as e:
                code = err_code(e)
                vt.counts.append(state["n"])
            all_counts.append(vt.counts)
            if code != 0:
                break
    finally:
        clock_module.time = saved
    if not isinstance(code, int):
        return {"error": code}
    return {"counts": all_counts, "code": code}


# ---- 4. MidiInputDevice._callback -----------------------------------------------------------------------------
def make_msg(m):
    kind = m[0]
    if kind == "songpos":
        return mido.Message("songpos", pos=m[1])
    if kind == "note_on":
        return mido.Message("note_on", note=m[1] % 128, velocity=64)
    if kind == "note_off":
        return mido.Message("note_off", note=m[1] % 128)
    if kind == "control_change":
        return mido.Message("control_change", control=m[1] % 128, value=1)
    if kind == "pitchwheel":
        return mido.Message("pitchwheel", pitch=m[1] % 8192)
    if kind == "program_change":
        return mido.Message("program_change", program=m[1] % 128)
    if kind == "aftertouch":
        return mido.Message("aftertouch", value=m[1] % 128)
    if kind == "polytouch":
        return mido.Message("polytouch", note=m[1] % 128, value=1)
    if kind == "song_select":
        return mido.Message("song_select", song=m[1] % 128)
    if kind == "sysex":
        return mido.Message("sysex", data=[m[1] % 128])
    return mido.Message(kind)      # clock start stop continue active_sensing reset tune_request


UNIT = 2 ** 20          # virtual instants are integers in units of 2^-20 s: every reading is an exact float

import time as _real_time
import isobar.io.midi.input as midi_input_module


class MidiVirtualTime:
    """stands in for the `time` module seen by isobar.io.midi.input (and, while a callback runs, for time.time /
    monotonic / perf_counter of the real module): every reading is the instant scripted for the message being
    handled, plus `intra` units per reading already taken (time passing inside the callback)."""
    def __init__(self):
        self.now, self.intra, self.reads = 0, 0, 0
    def _read(self):
        v = self.now
        self.now += self.intra
        self.reads += 1
        return v
    def time(self):
        return self._read() / UNIT
    monotonic = perf_counter = time
    def time_ns(self):
        return self._read() * 10 ** 9 // UNIT
    monotonic_ns = perf_counter_ns = time_ns
    def sleep(self, seconds):
        pass
    def __getattr__(self, name):
        return getattr(_real_time, name)


_PATCHED = ("time", "monotonic", "perf_counter", "time_ns", "monotonic_ns", "perf_counter_ns")

def timed_call(vt, instant, intra, fn):
    """fn() with the wall clock standing at `instant` (units); returns the exception or None"""
    vt.now, vt.intra = instant, intra
    saved_mod = midi_input_module.time
    saved = {n: getattr(_real_time, n) for n in _PATCHED}
    midi_input_module.time = vt
    for n in _PATCHED:
        setattr(_real_time, n, getattr(vt, n))
    try:
        fn()
        return None
    except Exception as e:
        return e
    finally:
        for n in _PATCHED:
            setattr(_real_time, n, saved[n])
        midi_input_module.time = saved_mod


def timed_callback(dev, vt, message, instant, intra):
    """dev._callback(message) with the wall clock standing at `instant` (units); returns the exception or None"""
    return timed_call(vt, instant, intra, lambda: dev._callback(message))


def tempo_obs(dev):
    """MidiInputDevice.tempo as an exact ratio [num, den], None, or a string for anything else"""
    try:
        t = dev.tempo
    except Exception as e:
        return "raises " + type(e).__name__
    if t is None:
        return None
    if isinstance(t, (int, float)) and t == t and t not in (float("inf"), float("-inf")):
        n, d = float(t).as_integer_ratio()
        return [n, d]
    return repr(t)[:40]


def run_midi_in(case):
    calls = []
    class Target:
        ticks_per_beat = 24
        def tick(self): calls.append(0)
        def start(self): calls.append(1)
        def stop(self): calls.append(2)
        def reset(self): calls.append(3)
    dev = MidiInputDevice(clock_target=Target() if case["has_target"] else None)
    msgs = [make_msg(m) for m in case["msgs"]]
    ident = {id(m): i for i, m in enumerate(msgs)}
    user = []
    if case["has_cb"]:
        dev.callback = lambda m: user.append(ident.get(id(m), -1))
    vt = MidiVirtualTime()
    per_msg, exc, tempos = [], [], []
    for j, m in enumerate(msgs):
        n0 = len(calls)
        e = timed_callback(dev, vt, m, case["times"][j], case.get("intra", 0))
        if e is not None:
            exc.append([j, type(e).__name__])
        per_msg.append(calls[n0:])
        if case["msgs"][j][0] == "clock":
            tempos.append(tempo_obs(dev))
    queue = []
    while True:
        m = dev.poll()
        if m is None:
            break
        queue.append(ident.get(id(m), -1))
    return {"calls": calls, "per_msg": per_msg, "user": user, "queue": queue, "ticks_per_beat": dev.ticks_per_beat,
            "exc": exc, "tempos": tempos}


def run_midi_tl(case):
    log = []
    devs = [make_device(s, i, log) for i, s in enumerate(case["devs"])]
    midi_in = MidiInputDevice()
    tl = iso.Timeline(output_device=devs[0], clock_source=midi_in)
    for d in devs[1:]:
        tl.add_output_device(d)
    vt = MidiVirtualTime()
    obs, code, exc = [], 0, []
    for j, m in enumerate(case["msgs"]):
        del log[:]
        e = timed_callback(midi_in, vt, make_msg(m), case["times"][j], case.get("intra", 0))
        obs.append([list(log), round(tl.current_time * 24)])
        if e is not None:
            code = err_code(e)
            if not isinstance(code, int):        # not a ClockException / StopIteration: recorded, the run goes on
                exc.append([j, code])
                code = 0
                continue
            break
    return {"obs": obs, "code": code, "ticks_per_beat": tl.ticks_per_beat, "exc": exc}


# ---- 5. MidiInputDevice wired to a REAL Timeline (clock_target = the timeline, clock_source = the device) ------
# start / stop / songpos messages travel MidiInputDevice._callback -> Timeline.start/stop/reset -> (devices, and back:)
# clock_source.run()/stop(); user-level timeline.stop()/start()/reset() between messages.  Timeline.start() spawns a
# thread that runs Timeline.run() -> clock_source.run(), which sleeps for ever: the thread is started for real, the main
# thread waits until it has reached its first time.sleep() (where it is parked for good) or has ended, so that every
# call it makes is recorded before the next event is fed in — a deterministic schedule.
import threading as _threading
import isobar.timelines.timeline as timeline_module


class WiredTime(MidiVirtualTime):
    """the virtual wall clock; sleep() called from a thread spawned by the timeline parks that thread for ever"""
    def __init__(self):
        super().__init__()
        self.spawned = {}                      # thread ident -> Event set when the thread is parked
        self.never = _threading.Event()
    def sleep(self, seconds):
        ev = self.spawned.get(_threading.get_ident())
        if ev is not None:
            ev.set()
            self.never.wait()                  # parked: MidiInputDevice.run() never returns


class WiredThreading:
    """stands in for the `threading` module seen by isobar.timelines.timeline"""
    def __init__(self, vt, problems):
        self.vt, self.problems = vt, problems
        outer = self
        class Thread:
            def __init__(self, target=None, args=(), kwargs=None, **kw):
                self.target, self.args, self.kwargs, self.daemon = target, args, kwargs or {}, True
            def start(self):
                done = _threading.Event()
                def body():
                    outer.vt.spawned[_threading.get_ident()] = done
                    try:
                        self.target(*self.args, **self.kwargs)
                    except BaseException as e:
                        outer.problems.append("thread raised " + type(e).__name__)
                    finally:
                        done.set()
                t = _threading.Thread(target=body)
                t.daemon = True
                t.start()
                if not done.wait(20):
                    outer.problems.append("thread neither parked nor ended")
            def join(self, timeout=None):
                pass
        self.Thread = Thread
    def __getattr__(self, name):
        return getattr(_threading, name)


class WiredPort:
    """fake mido output port of a MidiOutputDevice(send_clock=True): clock -> tick, a block of note_off -> all_notes_off,
    stop / start"""
    name = "verif-fake-out"
    def __init__(self, log, index):
        self.log, self.index, self.offs = log, index, 0
    def send(self, msg):
        if msg.type == "note_off":
            self.offs += 1
            if self.offs == 16 * 128:
                self.offs = 0
                self.log.append(10 + self.index)
            return
        if self.offs:
            self.log.append("partial all_notes_off")
            self.offs = 0
        if msg.type == "clock":
            self.log.append(self.index)
        elif msg.type == "stop":
            self.log.append(20 + self.index)
        elif msg.type == "start":
            self.log.append(30 + self.index)
        else:
            self.log.append("port message " + msg.type)


class WiredRec(Rec):
    def all_notes_off(self):
        self.log.append(10 + self.index)
    def stop(self):
        self.log.append(20 + self.index)
    def start(self):
        self.log.append(30 + self.index)


def run_midi_wired(case):
    log = []
    devs = []
    for i, spec in enumerate(case["devs"]):
        if spec == "midi":
            d = MidiOutputDevice(send_clock=True)
            d.midi = WiredPort(log, i)
        else:
            d = WiredRec(spec, i, log)
        devs.append(d)

    class WiredMidiIn(MidiInputDevice):          # records the calls the timeline makes back on its clock source
        def stop(self):
            log.append(40)
            return super().stop()
        def run(self):
            log.append(41)
            return super().run()

    class CountingTimeline(iso.Timeline):
        n_ticks = 0
        def tick(self):
            self.n_ticks += 1
            super().tick()

    midi_in = WiredMidiIn()
    tl = CountingTimeline(output_device=devs[0], clock_source=midi_in)
    for d in devs[1:]:
        tl.add_output_device(d)
    vt = WiredTime()
    problems = []
    saved_threading = timeline_module.threading
    timeline_module.threading = WiredThreading(vt, problems)
    saved_stdout = sys.stdout
    sys.stdout = sys.stderr                       # Timeline.run prints when its thread dies
    obs, code, exc = [], 0, []
    try:
        for j, ev in enumerate(case["evs"]):
            del log[:]
            kind = ev[0]
            if kind == "user_stop":
                fn = tl.stop
            elif kind == "user_start":
                fn = tl.start
            elif kind == "user_reset":
                fn = tl.reset
            else:
                msg = make_msg(ev)
                fn = lambda: midi_in._callback(msg)
            e = timed_call(vt, case["times"][j], case.get("intra", 0), fn)
            obs.append([list(log), round(tl.current_time * 24), tl.n_ticks])
            if e is not None:
                code = err_code(e)
                if not isinstance(code, int):
                    exc.append([j, code])
                    code = 0
                    continue
                break
    finally:
        timeline_module.threading = saved_threading
        sys.stdout = saved_stdout
    return {"obs": obs, "code": code, "ticks_per_beat": tl.ticks_per_beat, "exc": exc, "problems": problems}


# ---- 6. a timeline that is re-configured after construction ---------------------------------------------------
class RecMidi(MidiOutputDevice):
    """a real MidiOutputDevice on a fake port; every tick() call is logged, and every 'clock' message on the port"""
    def __init__(self, index, log, send_clock):
        super().__init__(send_clock=send_clock)
        self.index, self.log = index, log
        outer = self
        class Port:
            name = "verif-fake-out"
            def send(self, msg):
                if msg.type == "clock":
                    outer.log.append(["p", outer.index])
        self.midi = Port()
    def tick(self):
        self.log.append(["t", self.index])
        super().tick()


class RecBoth(Rec):
    def tick(self):
        self.log.append(["t", self.index])
        self.log.append(["p", self.index])


def reconfig_device(spec, index, log):
    if spec == "midi_on":
        return RecMidi(index, log, True)
    if spec == "midi_off":
        return RecMidi(index, log, False)
    return RecBoth(spec, index, log)


def enc_obs(log):
    """base-8 digits 2 * device + pulse + 1, one per device.tick() call in call order"""
    v, k = 0, 0
    while k < len(log):
        kind, i = log[k]
        pulse = 1 if k + 1 < len(log) and log[k + 1] == ["p", i] else 0
        if kind != "t":
            return "stray pulse"
        v = v * 8 + (2 * i + pulse + 1)
        k += 1 + pulse
    return v


def run_reconfig(case):
    log = []
    devs = [reconfig_device(s, i, log) for i, s in enumerate(case["devs"])]
    if case.get("clock") == "internal":
        tl = iso.Timeline(120, output_device=devs[0], ticks_per_beat=case["rate"])
    else:
        tl = iso.Timeline(output_device=devs[0], clock_source=iso.DummyClock(ticks_per_beat=case["rate"]))
    for d in devs[1:]:
        tl.add_output_device(d)
    per_tick, code, rates = [], 0, []
    for ev in case["events"]:
        k = ev[0]
        if k == "tick":
            for _ in range(ev[1]):
                del log[:]
                try:
                    tl.tick()
                except Exception as e:
                    code = err_code(e)
                per_tick.append(enc_obs(log))
                if code:
                    break
            if code:
                break
        elif k == "replace_clock":
            kind, n = ev[1], ev[2]
            if kind == "clock":
                tl.clock_source = iso.Clock(tempo=ev[3] if len(ev) > 3 else 120, ticks_per_beat=n)
            elif kind == "dummy":
                tl.clock_source = iso.DummyClock(ticks_per_beat=n)
            else:
                tl.clock_source = MidiInputDevice()
            rates.append(tl.ticks_per_beat)
        elif k == "set_tpb":
            tl.ticks_per_beat = ev[1]
            rates.append(tl.ticks_per_beat)
        elif k == "add_device":
            d = reconfig_device(ev[1], len(tl.output_devices), log)
            tl.add_output_device(d)
        elif k == "set_device":
            tl.output_device = reconfig_device(ev[1], 0, log)
        elif k == "send_clock":
            tl.output_devices[ev[1]].send_clock = bool(ev[2])
    if not isinstance(code, int):
        return {"error": code}
    bad = [x for x in per_tick if not isinstance(x, int)]
    if bad:
        return {"error": str(bad[0])}
    return {"len": len(per_tick), "sparse": sparse(per_tick, case["dflt"]), "code": code, "rates": rates}


def guarded(f, case):
    try:
        return f(case)
    except Exception as e:
        return {"error": type(e).__name__ + ": " + str(e)[:200]}


def main():
    req = json.load(sys.stdin)
    out = {}
    real_stdout = sys.stdout
    sys.stdout = sys.stderr          # Timeline.run prints when its clock dies; keep that out of the JSON stream
    for key, f in (("mult", run_mult), ("timeline", run_timeline), ("clock", run_clock), ("rerun", run_rerun),
                   ("midi_in", run_midi_in), ("midi_tl", run_midi_tl), ("midi_wired", run_midi_wired), ("reconfig", run_reconfig)):
        if key in req:
            out[key] = [guarded(f, c) for c in req[key]]
    sys.stdout = real_stdout
    json.dump(out, sys.stdout)

main()

"""Implementation driver of C09 for pattern classes written as Python source (every class of the library, not only the
deep embedding of engine P): enumerates the Pattern subclasses of isobar.pattern, and runs on ONE source string
  ref / ref2 : repeated next() on two fresh instances (constructor first), `refn` calls each
  script     : next / nextn / for / all / len / copy on up to 4 handles of a third fresh instance
  track      : a fourth fresh instance scheduled as the "note" of a Track whose notes outlast the stream (gate > 1);
               the timeline is ticked until the track has left Timeline.tracks (or the tick budget is used up).
stdin {"enumerate": true} | {"cases": [{"src", "refn", "script": [[op, handle, arg?]...] | null, "track": {...} | null}]}.
Script operations: next / nextn / for / all / len / reset / copy on a handle, and ["new", 0]: a further instance built from the same
source (equal arguments) becomes the next handle.
Observations are those of pat_impl: {"y": value} | "stop" | {"r": exception class name}.  Only API-level observables are
read: return values, exception classes, device calls, Timeline.tracks."""
import sys, os, json, signal, inspect
sys.path.insert(0, os.path.dirname(os.path.dirname(os.path.abspath(__file__))))
sys.dont_write_bytecode = True
import pat_common as pc
import isobar as iso
from isobar.scale import Scale
from isobar.chord import Chord
from isobar.globals import Globals

OP_TIMEOUT = 2.0
MAX_LIST = 4000

# ---- callables a recipe may name (source of the same definitions is printed in replay snippets: HELPERS_SOURCE in c09.py)
HELPERS_SOURCE = '''
def dbl(x):
    return None if x is None else x * 2
def rot(l):
    return list(l[1:]) + list(l[:1])
def enum_sum(i, x):
    return i + x
class Batches:
    """callable that hands out `k` finite patterns, then None (its state is part of the object: deepcopy separates it)"""
    def __init__(self, k, values):
        self.k, self.values, self.n = k, values, 0
    def __call__(self):
        if self.n >= self.k:
            return None
        self.n += 1
        return iso.PSequence([v + self.n for v in self.values], 1)
'''


class Timeout(BaseException):
    pass


def on_alarm(sig, frm):
    raise Timeout()


def namespace():
    ns = {"iso": iso}
    exec(HELPERS_SOURCE, ns)
    return ns


def observe(f):
    try:
        return {"y": pc.value_to_json(f())}
    except StopIteration:
        return "stop"
    except Timeout:
        raise
    except RecursionError:
        return {"r": "RecursionError"}
    except Exception as e:
        return {"r": type(e).__name__}


def build(src):
    holder = {}

    def f():
        holder["p"] = eval(src, namespace())
    o = observe(f)
    return holder.get("p"), o


def for_loop(p, n):
    vals = []
    if n > 0:
        for x in p:
            vals.append(x)
            if len(vals) >= n:
                break
    return vals


def run_op(handles, op):
    k, h = op[0], op[1]
    p = handles[h]
    if k == "next":
        return observe(lambda: next(p))
    if k == "nextn":
        return observe(lambda: p.nextn(op[2]))
    if k == "for":
        return observe(lambda: for_loop(p, op[2]))
    if k == "all":
        return observe((lambda: p.all()) if op[2] is None else (lambda: p.all(op[2])))
    if k == "len":
        return observe(lambda: len(p))
    if k == "copy":
        def f():
            handles.append(p.copy())
        return observe(f)
    if k == "reset":
        return observe(lambda: p.reset())
    raise ValueError(op)


def too_long(o):
    return isinstance(o, dict) and isinstance(o.get("y"), dict) and len(o["y"].get("l", ())) > MAX_LIST


def run_ops(src, ops):
    p, o = build(src)
    obs = [o]
    if p is None or not isinstance(p, iso.Pattern):
        return obs
    handles = [p]
    for op in ops:
        signal.setitimer(signal.ITIMER_REAL, OP_TIMEOUT)
        if op[0] == "new":                       # another instance built from the same source (equal arguments)
            q, o = build(src)
            if q is None:
                obs.append(o)
                break
            handles.append(q)
            obs.append(o)
            continue
        o = run_op(handles, op)
        if too_long(o):
            raise Timeout()
        obs.append(o)
    return obs


class Rec(iso.OutputDevice):
    def __init__(self):
        super().__init__()
        self.calls = []

    @property
    def ticks_per_beat(self):
        return None

    def note_on(self, note=60, velocity=64, channel=0):
        self.calls.append(["on", pc.value_to_json(note)])

    def note_off(self, note=60, channel=0):
        self.calls.append(["off", pc.value_to_json(note)])


class Tap:
    """records every value the track pulled out of the pattern and turns it into a playable note"""
    def __init__(self):
        self.seen = []

    def __call__(self, v):
        self.seen.append(pc.value_to_json(v))
        return 36 + len(self.seen) % 48


def playable(ref):
    """the values before the first StopIteration can be used as MIDI notes as they are"""
    vals = []
    for o in ref[1:]:
        if o == "stop":
            break
        if not isinstance(o, dict) or "y" not in o:
            return False
        vals.append(o["y"])
    return bool(vals) and all(isinstance(v, int) and not isinstance(v, bool) and 0 <= v <= 127 for v in vals)


def run_track(src, cfg, ref):
    p, o = build(src)
    if p is None or not isinstance(p, iso.Pattern):
        return {"error": "constructor"}
    mode = "direct" if (playable(ref) and not cfg.get("force_tap")) else "tap"
    tap = Tap()
    dev = Rec()
    tl = iso.Timeline(120, output_device=dev, clock_source=iso.DummyClock(ticks_per_beat=cfg["tpb"]))
    tl.stop_when_done = False
    note = p if mode == "direct" else iso.PMap(p, tap)
    tl.schedule({"note": note, "duration": cfg["dur"][0] / cfg["dur"][1], "gate": cfg["gate"][0] / cfg["gate"][1]})
    budget = cfg.get("budget")
    if budget is None:                      # long enough for the values of the reference run, the last note, and a margin
        n = 0
        for o in ref[1:]:
            if o == "stop":
                break
            n += 1
        beats = n * cfg["dur"][0] / cfg["dur"][1] + cfg["dur"][0] * cfg["gate"][0] / (cfg["dur"][1] * cfg["gate"][1])
        budget = int((beats + 3) * cfg["tpb"]) + 8
    ticks, err = 0, None
    signal.setitimer(signal.ITIMER_REAL, OP_TIMEOUT * 2)
    try:
        while ticks < budget and len(tl.tracks) > 0:
            tl.tick()
            ticks += 1
    except Timeout:
        raise
    except StopIteration:
        err = "StopIteration"
    except Exception as e:
        err = type(e).__name__
    return {"mode": mode, "ticks": ticks, "ended": len(tl.tracks) == 0, "error": err,
            "ons": [c[1] for c in dev.calls if c[0] == "on"], "offs": [c[1] for c in dev.calls if c[0] == "off"],
            "pulled": tap.seen if mode == "tap" else None}


# ---- clock-dependent patterns (static.py: PStaticPattern ...): histories of (advance the clock by dt, next()) steps ---------
UNIT = 32          # clock readings are multiples of 1/32 beat (exact in binary floating point; round(t, 5) is the identity)


def make_stub_timeline():
    class Timeline:                      # Pattern.timeline finds "the" timeline by the class NAME of a `self` on the call stack
        """stub timeline: a settable clock"""
        def __init__(self):
            self.current_time = 0.0
            self.ticks_per_beat = UNIT
            self.tick_duration = 1.0 / UNIT

        def advance(self, units):
            self.current_time = (round(self.current_time * UNIT) + units) / UNIT

        def poll(self, p):
            return observe(lambda: next(p))
    return Timeline()


def make_real_timeline(tpb):
    class Timeline(iso.Timeline):
        def advance(self, units):
            for _ in range(units * (tpb // UNIT)):
                self.tick()

        def poll(self, p):
            return observe(lambda: next(p))
    tl = Timeline(120, output_device=Rec(), clock_source=iso.DummyClock(ticks_per_beat=tpb))
    tl.stop_when_done = False
    return tl


def run_clocked(case):
    """case: {"src", "inner": [sources whose plain next() values are wanted], "timeline": "stub" | tpb, "t0": units,
    "steps": [dt in units ...], "track": cfg | None}"""
    out = {"status": None}
    signal.setitimer(signal.ITIMER_REAL, OP_TIMEOUT * 4)
    try:
        out["inner"] = [run_ops(src, [["next", 0]] * 40) for src in case.get("inner", [])]
        p, o = build(case["src"])
        obs = [o]
        if p is not None and isinstance(p, iso.Pattern):
            tl = make_stub_timeline() if case["timeline"] == "stub" else make_real_timeline(case["timeline"])
            tl.advance(case["t0"])
            for dt in case["steps"]:
                tl.advance(dt)
                obs.append(tl.poll(p))
        out["obs"] = obs
        if case.get("track") is not None:
            out["track"] = run_track(case["src"], case["track"], [None] + [{"y": 60}])
    except Timeout:
        out["status"] = "timeout"
    finally:
        signal.setitimer(signal.ITIMER_REAL, 0)
    return out


def run_case(case):
    out = {"status": None}
    signal.setitimer(signal.ITIMER_REAL, OP_TIMEOUT * 2)
    try:
        refops = [["next", 0]] * case.get("refn", 40)
        out["ref"] = run_ops(case["src"], refops)
        out["ref2"] = run_ops(case["src"], refops)
        if case.get("script") is not None:
            out["script"] = run_ops(case["src"], case["script"])
        if case.get("track") is not None:
            out["track"] = run_track(case["src"], case["track"], out["ref"])
    except Timeout:
        out["status"] = "timeout"
    finally:
        signal.setitimer(signal.ITIMER_REAL, 0)
    return out


def all_subclasses(c):
    seen, todo = [], list(c.__subclasses__())
    while todo:
        s = todo.pop(0)
        if s not in seen:
            seen.append(s)
            todo.extend(s.__subclasses__())
    return seen


def enumerate_classes():
    import pkgutil, importlib, isobar.pattern
    for m in pkgutil.walk_packages(isobar.pattern.__path__, "isobar.pattern."):
        try:
            importlib.import_module(m.name)
        except Exception:
            pass
    out = []
    for c in all_subclasses(iso.Pattern):
        if not c.__module__.startswith("isobar.pattern"):
            continue
        try:
            params = [p.name for p in list(inspect.signature(c.__init__).parameters.values())[1:]]
        except (TypeError, ValueError):
            params = None
        out.append({"name": c.__name__, "module": c.__module__, "exported": getattr(iso, c.__name__, None) is c,
                    "stochastic": issubclass(c, iso.PStochasticPattern), "params": params})
    return sorted(out, key=lambda d: d["name"])


def main():
    req = json.load(sys.stdin)
    if req.get("enumerate"):
        json.dump({"classes": enumerate_classes()}, sys.stdout)
        return
    signal.signal(signal.SIGALRM, on_alarm)
    saved = (dict(Scale.dict), dict(Chord.dict), dict(Globals.dict))
    out = []
    for case in req["cases"]:
        out.append(run_clocked(case["clocked"]) if "clocked" in case else run_case(case))
        for d, s in zip((Scale.dict, Chord.dict, Globals.dict), saved):
            if d != s:
                d.clear(); d.update(s)
    json.dump({"cases": out}, sys.stdout)


main()

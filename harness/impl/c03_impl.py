"""Implementation driver for C03: builds Event objects and one-track timelines of the repository under test from
encoded event dictionaries and records what the library does with them.

stdin:  {"cases": [case, ...]}  (see harness/c03.py for the case format), or {"list": true}
        a case may carry "changes": [[after_tick, [[default name, value], ...]], ...]: assignments to timeline.defaults.<name>
        performed between two ticks of the running track (after_tick -1 = after schedule(), before the first tick)
        a case may carry "held": [[slot, tonic, semitones, octave_size, share | null], ...]: Key objects built before the track is
        scheduled (on a Scale object of their own, or on the Scale object of the key in slot `share`) and referred to from the
        event dictionaries / the defaults as {"hk": slot}, and "muts": [[after_tick, [operation, ...]], ...]: in-place operations on
        those objects between two ticks: ["tonic", slot, t] = key.tonic = t; ["scale", slot, semitones, octave_size] = key.scale = a
        new Scale object; ["semis", slot, semitones, how, swap] = key.scale.semitones assigned / replaced in place / two positions
        swapped (what Scale.change() does); and unrelated constructions: ["newscale", name | null, semitones, octave_size, how]
        (Scale / WeightedScale / fromnotes, named or with the class's default name), ["copyedit", name, semitones | null, how] (a copy
        of the scale registered under the name, then edited), ["keynamed", slot, tonic, name, how] (a Key built from names; it can be
        assigned to timeline.defaults.key by a change of the same tick).  mode "pdictseq": the track is scheduled as ONE dictionary of patterns (a key object that
        is the same in every event is given as the constant it is).
stdout: {"results": [{"event": {"raise": cls} | {"view": enc}, "trace": [[tick, method, [enc args]], ...],
                      "raise": cls | null, "raise_tick": int | null, "pulls": {...}}, ...]}

Values are encoded as: None -> null, bool, int, str as themselves; float -> {"f": [num, den]}; tuple -> {"t": [...]};
list -> {"l": [...]}; dict -> {"d": [[k, v], ...]}; Key -> {"k": [tonic, semitones, octave_size]};
Key built from a user scale -> {"k": [...], "user": true}; opaque objects -> {"o": [kind, id, [param names]]};
a finite pattern -> {"p": [values]}.
Every exception is caught per case and reported by class name.  Only API-level observables are recorded: calls
received by an OutputDevice subclass, arguments received by action callbacks, public attributes of Event.
"""
import sys, os, json, io, copy


def main():
    req = json.load(sys.stdin)
    real_stdout = sys.stdout
    sys.stdout = io.StringIO()          # perform_event prints when an action raises; keep our JSON clean
    sys.stderr = io.StringIO()
    import logging
    logging.disable(logging.CRITICAL)
    import isobar as iso
    from isobar.scale import Scale
    from isobar.chord import Chord
    from isobar.key import Key
    from isobar.pattern import Pattern
    from isobar.timelines.event import Event, EventDefaults

    if req.get("list"):
        from isobar import constants as _c
        out = {"scales": [[n, list(s.semitones), s.octave_size] for n, s in Scale.dict.items()],
               # every string that occurs as a constant in isobar/constants.py (event keys, type names, interpolation modes ...)
               "constant_strings": [[n, v] for n, v in vars(_c).items() if n.isupper() and type(v) is str]}
        real_stdout.write(json.dumps(out))
        return

    NOTE_NAMES = ["C", "C#", "D", "Eb", "E", "F", "F#", "G", "Ab", "A", "Bb", "B"]

    class Seq(Pattern):
        """finite pattern over a fixed list; counts how often the library pulls a value"""
        def __init__(self, values):
            self.values = list(values)
            self.pos = 0
            self.pulls = [0]            # shared with shallow copies
        def __next__(self):
            self.pulls[0] += 1
            if self.pos >= len(self.values):
                raise StopIteration
            v = self.values[self.pos]
            self.pos += 1
            return v
        def reset(self):
            self.pos = 0

    class Rec(iso.OutputDevice):
        def __init__(self):
            super().__init__()
            self.calls = []
        def note_on(self, note=60, velocity=64, channel=0):
            self.calls.append(("note_on", [note, velocity, channel]))
        def note_off(self, note=60, channel=0):
            self.calls.append(("note_off", [note, channel]))
        def control(self, control=0, value=0, channel=0):
            self.calls.append(("control", [control, value, channel]))
        def program_change(self, program=0, channel=0):
            self.calls.append(("program_change", [program, channel]))
        def send(self, address, params):
            self.calls.append(("send", [address, params]))
        def create(self, name, params, **kw):
            self.calls.append(("create", [name, params] + ([{"__kw": sorted(kw.items())}] if kw else [])))
        def trigger(self, *a, **kw):
            self.calls.append(("trigger", list(a)))
        def pitch_bend(self, pitchbend, channel):
            self.calls.append(("pitch_bend", [pitchbend, channel]))

    class PatchTrig:
        trigger_node = "node"
        def set_input(self, k, v): pass
    class PatchSet:
        def set_input(self, k, v): pass
    class SomeObj:
        pass

    MISSING = object()

    class World:
        """objects of one run of one case (fresh per run, so that pattern state never leaks)"""
        def __init__(self, device, held=()):
            self.device = device
            self.objs = {}
            self.ids = {}
            self.patterns = []
            self.held = {}
            for slot, tonic, semis, osize, share in held:
                if share is None:
                    sc = Scale(list(semis), "verif-c03-held-scale-%d" % slot, octave_size=osize)
                else:
                    sc = self.held[share].scale
                self.held[slot] = Key(tonic, sc)
            self.n_scales = len(self.held)
            self.made = []              # objects constructed along the way are kept alive
        def mutate(self, m):
            """an in-place operation on a held Key object / on the Scale object it refers to, or an unrelated construction
            (scales, weighted scales, copies, keys built from names) that happens in the process while the track runs"""
            import copy as pycopy
            kind = m[0]
            if kind == "newscale":
                # ["newscale", name | null, semitones, octave_size, how]
                name, semis, osize, how = m[1], list(m[2]), m[3], m[4]
                if how == "Scale":
                    self.made.append(Scale(semis, name, octave_size=osize))
                elif how == "Scale-unnamed":
                    self.made.append(Scale(semis, octave_size=osize))
                elif how == "fromnotes":
                    self.made.append(Scale.fromnotes(semis, name=name, octave_size=osize))
                elif how == "WeightedScale":
                    self.made.append(iso.WeightedScale(semis, [1.0 / len(semis)] * len(semis), name, octave_size=osize))
                elif how == "WeightedScale-unnamed":      # the default name of a WeightedScale is "major"
                    self.made.append(iso.WeightedScale(semis, [1.0 / len(semis)] * len(semis)))
                else:
                    raise ValueError("unknown operation %r" % (m,))
                return
            if kind == "copyedit":
                # ["copyedit", name, semitones | null, how]: a copy of the scale registered under the name, then edited
                src, how = Scale.byname(m[1]), m[3]
                c = src.copy() if how == "copy()" else pycopy.copy(src) if how == "copy.copy" else pycopy.deepcopy(src)
                if m[2] is not None:
                    c.semitones = list(m[2])
                self.made.append(c)
                return
            if kind == "keynamed":
                # ["keynamed", slot, tonic 0..11, name, how]: a Key object built from names at this moment
                slot, t, name, how = m[1], m[2], m[3], m[4]
                nn = NOTE_NAMES[t]
                self.held[slot] = Key(t, name) if how == "Key(t,name)" else Key(nn, name) if how == "Key(note,name)" else Key("%s %s" % (nn, name))
                return
            slot = m[1]
            key = self.held[slot]
            if kind == "tonic":
                key.tonic = m[2]
            elif kind == "scale":
                self.n_scales += 1
                key.scale = Scale(list(m[2]), "verif-c03-held-scale-%d" % self.n_scales, octave_size=m[3])
            elif kind == "semis":
                how = m[3]
                if how == "assign":
                    key.scale.semitones = list(m[2])
                elif how == "inplace":
                    key.scale.semitones[:] = list(m[2])
                else:
                    i, j = m[4]
                    l = key.scale.semitones
                    l[i], l[j] = l[j], l[i]
            else:
                raise ValueError("unknown operation %r" % (m,))
        def obj(self, kind, oid, ps):
            key = (kind, oid)
            if key not in self.objs:
                if kind == "fun":
                    dev, me = self.device, self
                    src = "lambda %s: rec(dict((k, v) for k, v in [%s] if v is not MISSING))" % (
                        ", ".join("%s=MISSING" % p for p in ps), ", ".join("(%r, %s)" % (p, p) for p in ps))
                    holder = {}
                    def rec(kwargs, holder=holder):
                        dev.calls.append(("action", [holder["f"], kwargs]))
                    f = eval(src, {"rec": rec, "MISSING": MISSING})
                    holder["f"] = f
                    o = f
                elif kind == "class":
                    o = type("PatchSpecClass%d" % oid, (), {})
                elif kind == "patch_trigger":
                    o = PatchTrig()
                elif kind == "patch_set":
                    o = PatchSet()
                elif kind == "scale":
                    o = Scale([0, 2, 4, 5, 7, 9, 11], "verif-c03-scale-%d" % oid)
                else:
                    o = SomeObj()
                self.objs[key] = o
                self.ids[id(o)] = [kind, oid, list(ps)]
            return self.objs[key]
        def dec(self, v):
            if v is None or isinstance(v, (bool, int, str)):
                return v
            if "f" in v:
                return v["f"][0] / v["f"][1]
            if "t" in v:
                return tuple(self.dec(x) for x in v["t"])
            if "l" in v:
                return [self.dec(x) for x in v["l"]]
            if "d" in v:
                return dict((k, self.dec(x)) for k, x in v["d"])
            if "k" in v:
                t, semis, osize = v["k"]
                if v.get("name") is not None:
                    return Key(t, Scale.byname(v["name"]))
                return Key(t, Scale(list(semis), "verif-c03-user-scale", octave_size=osize))
            if "o" in v:
                return self.obj(*v["o"])
            if "hk" in v:
                return self.held[v["hk"]]
            if "p" in v:
                p = Seq([self.dec(x) for x in v["p"]])
                self.patterns.append(p)
                return p
            raise ValueError("cannot decode %r" % (v,))
        def enc(self, v):
            if v is None or type(v) in (bool, int, str):
                return v
            if type(v) is float:
                if v != v or v in (float("inf"), float("-inf")):
                    return {"x": repr(v)}
                n, d = v.as_integer_ratio()
                return {"f": [n, d]}
            if type(v) is tuple:
                return {"t": [self.enc(x) for x in v]}
            if type(v) is list:
                return {"l": [self.enc(x) for x in v]}
            if type(v) is dict:
                if list(v.keys()) == ["__kw"]:
                    return {"d": [[k, self.enc(x)] for k, x in v["__kw"]]}
                if not all(type(k) is str for k in v):
                    return {"x": "dict with non-str keys"}
                return {"d": [[k, self.enc(x)] for k, x in v.items()]}
            if type(v) is Key:
                if type(v.tonic) is int and isinstance(v.scale, Scale) and all(type(s) is int for s in v.scale.semitones):
                    return {"k": [v.tonic, list(v.scale.semitones), v.scale.octave_size]}
                return {"x": "key"}
            if id(v) in self.ids:
                return {"o": self.ids[id(v)]}
            if isinstance(v, Seq):
                return {"p": [self.enc(x) for x in v.values[v.pos:]]}
            return {"x": type(v).__name__}

    def make_defaults(world, overrides):
        d = EventDefaults()
        for name, v in overrides:
            setattr(d, name, world.dec(v))
        return d

    def event_view(world, e):
        if hasattr(e, "action"):
            body = (e.action, e.args)
        elif hasattr(e, "patch"):
            body = (e.patch, e.output, e.params, (e.note,) if hasattr(e, "note") else None, e.trigger_name, e.trigger_value)
        elif hasattr(e, "control"):
            body = (e.control, e.value, e.channel)
        elif hasattr(e, "program_change"):
            body = (e.program_change, e.channel)
        elif hasattr(e, "osc_address"):
            body = (e.osc_address, e.osc_params)
        elif hasattr(e, "synth_name"):
            body = (e.synth_name, e.synth_params)
        else:
            body = (e.note, e.amplitude, e.gate, e.channel, e.pitchbend)
        return world.enc((e.type, body, e.duration, e.active))

    results = []
    for case in req["cases"]:
        saved = (dict(Scale.dict), dict(Chord.dict))
        res = {}
        # ---- A. Event(dict, defaults) directly, on the dictionary the track would hand to Event -----------
        try:
            world = World(Rec(), case.get("held") or ())
            defaults = make_defaults(world, case["defaults"])
            d = world.dec({"d": case["direct"]})
            try:
                e = Event(d, defaults)
                res["event"] = {"view": event_view(world, e)}
            except Exception as ex:
                res["event"] = {"raise": type(ex).__name__}
        except Exception as ex:
            res["event"] = {"driver_error": repr(ex)}
        Scale.dict.clear(); Scale.dict.update(saved[0]); Chord.dict.clear(); Chord.dict.update(saved[1])
        # ---- B. a one-track timeline -----------------------------------------------------------------------
        try:
            dev = Rec()
            world = World(dev, case.get("held") or ())
            tl = iso.Timeline(output_device=dev, clock_source=iso.DummyClock(ticks_per_beat=case["tpb"]))
            for name, v in case["defaults"]:
                setattr(tl.defaults, name, world.dec(v))
            n_def_patterns = len(world.patterns)
            trace, raised, raise_tick = [], None, None
            try:
                if case["mode"] == "pdict":
                    track = tl.schedule(world.dec({"d": case["events"][0]}), count=1)
                elif case["mode"] == "pdictseq":
                    # ONE dictionary of patterns: entry k yields the k-entries of the successive events; a held key that is
                    # the same object in every event is the constant it is
                    names = [k for k, _v in case["events"][0]]
                    pd = {}
                    for k in names:
                        col = [dict((kk, vv) for kk, vv in ev)[k] for ev in case["events"]]
                        if all(isinstance(v, dict) and "hk" in v for v in col) and len(set(v["hk"] for v in col)) == 1:
                            pd[k] = world.dec(col[0])
                        else:
                            pd[k] = Seq([world.dec(v) for v in col])
                    track = tl.schedule(pd)
                else:
                    if case.get("replay_period"):
                        # the same dictionary objects are yielded again on every pass
                        k = case["replay_period"]
                        objs = [world.dec({"d": ev}) for ev in case["events"][:k]]
                        track = tl.schedule(Seq(objs * (len(case["events"]) // k)))
                    else:
                        track = tl.schedule(Seq([world.dec({"d": ev}) for ev in case["events"]]))
                if case.get("muted"):
                    track.mute()
                # "changes": the timeline is re-configured while the track is running: [after_tick, [[name, value], ...]]
                # = "timeline.defaults.<name> = value" performed between tick after_tick and the next one
                # (after_tick -1: after schedule(), before the first tick)
                changes = case.get("changes") or []
                muts = case.get("muts") or []
                def reconfigure(after_tick):
                    for at, ms in muts:
                        if at == after_tick:
                            for m in ms:
                                world.mutate(m)
                    for at, kvs in changes:
                        if at == after_tick:
                            for name, v in kvs:
                                setattr(tl.defaults, name, world.dec(v))
                t = -1
                reconfigure(-1)
                for t in range(case["nticks"]):
                    n0 = len(dev.calls)
                    try:
                        tl.tick()
                    finally:
                        for m, args in dev.calls[n0:]:
                            trace.append([t, m, [world.enc(a) for a in args]])
                    reconfigure(t)
            except Exception as ex:
                raised, raise_tick = type(ex).__name__, len(trace) and t
                res["raise_at"] = t          # the tick whose tick() call let the exception escape (-1: before the first tick)
            res["trace"] = trace
            res["raise"] = raised
            res["pulls"] = {"defaults": [p.pulls[0] for p in world.patterns[:n_def_patterns]],
                            "event": [p.pulls[0] for p in world.patterns[n_def_patterns:]]}
        except Exception as ex:
            res["driver_error"] = repr(ex)
        Scale.dict.clear(); Scale.dict.update(saved[0]); Chord.dict.clear(); Chord.dict.update(saved[1])
        results.append(res)
    real_stdout.write(json.dumps({"results": results}))


main()

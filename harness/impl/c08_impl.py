"""Implementation driver of C08: as pat_impl.py (builds the real isobar objects of an operator expression written
with the Python operators, then runs next() on it), but float observations are bit-exact: a float is reported as
its integer ratio (exact for every finite binary64) plus "z": 1 for a NEGATIVE zero, the one finite float the
ratio cannot tell from its neighbour.  The extra key is ignored by pat_common.from_json / obs_coq, so the
observations remain valid input of the shared model comparison.
stdin: {"cases": [{"expr": <json tree>, "ops": [[op, handle, arg?]...]}]};
stdout: {"cases": [{"obs": [...], "status": null|"timeout"|"too-long"}]}; an observation is {"y": value} | "stop" |
{"r": exception class name}; the first one is that of building the expression ({"y": null} on success)."""
import sys, os, json, math, signal
sys.path.insert(0, os.path.dirname(os.path.dirname(os.path.abspath(__file__))))
sys.dont_write_bytecode = True
import pat_common as pc
import isobar as iso
from isobar.scale import Scale
from isobar.chord import Chord
from isobar.globals import Globals

OP_TIMEOUT = 2.0
MAX_LIST = 4000


class Timeout(BaseException):
    pass


def on_alarm(sig, frm):
    raise Timeout()


def encode(v):
    if type(v) is float and v == 0.0 and math.copysign(1.0, v) < 0:
        return {"f": [0, 1], "z": 1}
    return pc.value_to_json(v)


def observe(f):
    try:
        return {"y": encode(f())}
    except StopIteration:
        return "stop"
    except Timeout:
        raise
    except RecursionError:
        return {"r": "RecursionError"}
    except Exception as e:
        return {"r": type(e).__name__}


def for_loop(p, n):
    vals = []
    if n > 0:
        for x in p:
            vals.append(x)
            if len(vals) >= n:
                break
    return vals


def run_op(handles, op):
    k, h = op[0], op[1]
    p = handles[h]
    if k == "next":
        return observe(lambda: next(p))
    if k == "nextn":
        return observe(lambda: p.nextn(op[2]))
    if k == "for":
        return observe(lambda: for_loop(p, op[2]))
    if k == "all":
        return observe((lambda: p.all()) if op[2] is None else (lambda: p.all(op[2])))
    if k == "len":
        return observe(lambda: len(p))
    if k == "reset":
        return observe(lambda: p.reset())
    if k == "copy":
        def f():
            handles.append(p.copy())
        return observe(f)
    raise ValueError(op)


def subclasses(c):
    out = []
    for s in c.__subclasses__():
        out.append(s)
        out += subclasses(s)
    return out


def run_case(case):
    expr = pc.from_json(case["expr"]) if "source" not in case else None
    obs, status = [], None
    signal.setitimer(signal.ITIMER_REAL, OP_TIMEOUT * 2)
    try:
        holder = {}

        def build():
            holder["p"] = eval(case["source"], {"iso": iso}) if "source" in case else pc.to_python(expr, iso)
        obs.append(observe(build))
        if "p" in holder:
            handles = [holder["p"]]
            for op in case["ops"]:
                signal.setitimer(signal.ITIMER_REAL, OP_TIMEOUT)
                o = run_op(handles, op)
                if isinstance(o, dict) and isinstance(o.get("y"), dict) and len(o["y"].get("l", ())) > MAX_LIST:
                    status = "too-long"
                    break
                obs.append(o)
    except Timeout:
        status = "timeout"
    finally:
        signal.setitimer(signal.ITIMER_REAL, 0)
    out = {"obs": obs, "status": status}
    if case.get("introspect") and "p" in holder:
        # the operand's class, and its instance attributes that shadow an attribute of class Pattern (static methods
        # `pattern`, `value`, ...): what a dunder reaches through `self.<name>` is then the instance's value
        p = holder["p"]
        out["cls"] = type(p).__name__
        try:
            out["shadow"] = sorted(k for k in vars(p) if hasattr(iso.Pattern, k))
        except TypeError:
            out["shadow"] = []
    return out


def main():
    req = json.load(sys.stdin)
    signal.signal(signal.SIGALRM, on_alarm)
    saved = (dict(Scale.dict), dict(Chord.dict), dict(Globals.dict))
    out = []
    for case in req["cases"]:
        out.append(run_case(case))
        for d, s in zip((Scale.dict, Chord.dict, Globals.dict), saved):
            if d != s:
                d.clear(); d.update(s)
    res = {"cases": out}
    if req.get("list_classes"):
        res["classes"] = sorted({c.__name__ for c in subclasses(iso.Pattern)})
    json.dump(res, sys.stdout)


main()

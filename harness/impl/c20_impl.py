"""Implementation driver for C20: runs isobar's string-notation parser of the repository under test.

stdin:  {"cases": [str, ...], "env": bool, "chars": [code point, ...]}
stdout: {"cases": [ {"parse": R, "pattern": P, "pdict": D, "pseq": S}, ... ], "env": {...}}

  R = {"ok": TREE, "out": [VAL...], "k": int} | {"raise": class name}
      TREE = list of VAL | ["g", TREE]           (walking PSequence.sequence recursively)
      VAL  = ["i", int] | ["f", float.hex()] | ["s", str] | ["?", type name]
      out  = parse_notation(s).nextn(k), k = 3 * len(top level)  (3 cycles of the parent), on a fresh parse
  P = {"seq": TREE, "out": [...]} | {"const": VAL} | {"other": type name} | {"raise": class name}
      (Pattern.pattern(s))
  D = {"out": [VAL...]} | {"raise": ...}    values of key "x" of PDict({"x": s}).nextn(k)
  S = {"out": [...]} | {"raise": ...}       PSequence(s).nextn(k)  (only meaningful when the string parses)
  env (when requested): characters stripped by str.lstrip(), ASCII characters matching \\w, which of `chars`
  match \\w — the CPython behaviour the Coq lexer model takes as data.
Only API-level observables are used: returned objects' public `.sequence`/`.constant`, nextn(), exception classes.
"""
import sys, json, re
import isobar as iso
from isobar.notation import parse_notation
from isobar.pattern import PSequence, PConstant, PDict, Pattern

K_MAX = 60


def enc(v):
    if type(v) is int:
        return ["i", v]
    if type(v) is float:
        return ["f", v.hex()]
    if type(v) is str:
        return ["s", v]
    return ["?", type(v).__name__]


def walk(seq, depth=0):
    if depth > 200:
        return [["?", "too-deep"]]
    out = []
    for x in seq:
        if isinstance(x, PSequence):
            out.append(["g", walk(x.sequence, depth + 1)])
        else:
            out.append(enc(x))
    return out


def guard(f):
    try:
        return f()
    except Exception as e:           # every exception per case is reported by class name
        return {"raise": type(e).__name__}


def run_case(s):
    r = {}

    def do_parse():
        p = parse_notation(s)
        if not isinstance(p, PSequence):
            return {"other": type(p).__name__}
        k = max(1, min(K_MAX, 3 * len(p.sequence)))
        tree = walk(p.sequence)
        q = parse_notation(s)        # fresh object for the output stream
        return {"ok": tree, "k": k, "out": [enc(v) for v in q.nextn(k)]}
    r["parse"] = guard(do_parse)
    k = r["parse"].get("k", 3)

    def do_pattern():
        p = Pattern.pattern(s)
        if isinstance(p, PSequence):
            tree = walk(p.sequence)
            return {"seq": tree, "out": [enc(v) for v in p.nextn(k)]}
        if isinstance(p, PConstant):
            return {"const": enc(p.constant), "out": [enc(v) for v in p.nextn(3)]}
        return {"other": type(p).__name__}
    r["pattern"] = guard(do_pattern)

    def do_pdict():
        d = PDict({"x": s, "y": 7})
        vals = d.nextn(k)
        return {"out": [enc(v["x"]) if isinstance(v, dict) and "x" in v else ["?", type(v).__name__] for v in vals],
                "y": [enc(v.get("y")) for v in vals if isinstance(v, dict)]}
    r["pdict"] = guard(do_pdict)

    def do_pseq():
        return {"out": [enc(v) for v in PSequence(s).nextn(k)]}
    r["pseq"] = guard(do_pseq)
    return r


def main():
    req = json.load(sys.stdin)
    out = {"cases": [run_case(s) for s in req.get("cases", [])]}
    if req.get("env"):
        word = re.compile(r"\w")
        out["env"] = {
            "lstrip": [c for c in range(0x110000) if (chr(c) + "x").lstrip() == "x"],
            "ascii_word": [c for c in range(128) if word.match(chr(c))],
            "digits": [c for c in range(0x3000) if re.match(r"[0-9]", chr(c))],
        }
    if "chars" in req:
        word = re.compile(r"\w")
        out["uword"] = [c for c in req["chars"] if word.match(chr(c))]
    json.dump(out, sys.stdout)


main()

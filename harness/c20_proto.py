"""C20, protocol stratum: the pattern BUILT BY THE PARSER used through the whole pattern protocol - next / for / reset() /
all() / len() / copy() in the middle of a cycle, by several holders, and played by a Timeline that is rewound - not only
freshly parsed and stepped.  After a rewind "a nested group contributes one element per cycle of its parent" must hold from
the start again.
Model: coq/Notation/PSeqProto.v (preset, pall, histories over a store of objects); theorems C20_reset_restores,
C20_rewind_outputs, C20_all_rewinds, C20_history_rewind, C20_cycle_after_rewind, C20_copy_independent (Props/C20.v).
Oracle: a reference interpreter of nested cyclic sequences written from the property text (class Ref below)."""
from common import *
import c20 as B

LENGTH_MAX = 65536

HEADER = B.HEADER_TMPL.replace("UWORD", "[]").replace(
    "Notation.PSeq.\n", "Notation.PSeq Notation.PSeqProto.\n", 1) + """
Inductive eout := EV (l : list etree) | EN (n : Z).
Definition omatch (vs : list value) (e : eout) : bool :=
  match e with EV l => lmatch vmatch vs l | EN n => Z.of_nat (List.length vs) =? n end.
Definition chkproto (s : str) (ops : list pop) (e : list eout) : bool :=
  match parse uw s with
  | Ok g => lmatch omatch (fst (prun [pattern_of g] ops)) e
  | _ => false
  end.
Definition nn (z : Z) : nat := Z.to_nat z.
"""


# ---- the reference interpreter (property text: a nested sequence read cyclically; a nested group contributes one element
#      per cycle of its parent; reset() = the state immediately after construction; a copy is independent) ----------------
class Ref:
    def __init__(self, items):
        self.items = [Ref(n[1]) if n[0] == "g" else n for n in items]
        self.pos = 0

    def next(self):
        it = self.items[self.pos]
        self.pos = (self.pos + 1) % len(self.items)
        return it.next() if isinstance(it, Ref) else it

    def reset(self):
        self.pos = 0
        for it in self.items:
            if isinstance(it, Ref):
                it.reset()

    def copy(self):
        c = Ref([])
        c.items = [it.copy() if isinstance(it, Ref) else it for it in self.items]
        c.pos = self.pos
        return c


def ref_outputs(tree, ops):
    """what the property demands of every operation of the script: list of value lists / ("n", count)"""
    objs = [Ref(tree)]
    outs = []
    for op in ops:
        k = op[0]
        if k in ("tick",):
            outs.append([objs[0].next() for _ in range(op[1])])
        elif k in ("tl_reset", "track_reset"):
            objs[0].reset(); outs.append([])
        elif k in ("next", "step", "for"):
            outs.append([objs[op[1]].next() for _ in range(op[2])])
        elif k == "reset":
            objs[op[1]].reset(); outs.append([])
        elif k == "all":
            outs.append([objs[op[1]].next() for _ in range(op[2])]); objs[op[1]].reset()
        elif k == "len":
            objs[op[1]].reset(); outs.append(("n", LENGTH_MAX))       # an endless pattern: all() stops at LENGTH_MAX, then resets
        elif k in ("copy", "deepcopy"):
            objs.append(objs[op[1]].copy()); outs.append([])
        else:
            raise ValueError(op)
    return outs


def same_val(ref, impl):
    if ref[0] == "f":
        return impl[0] == "f" and float(ref[1]).hex() == impl[1]
    return impl[0] == ref[0] and impl[1] == ref[1]


def show(v):
    return v[1] if v[0] in ("i", "s") else (float.fromhex(v[1]) if v[0] == "f" and str(v[1]).startswith(("0x", "-0x")) else v[1])


# ---- generation -----------------------------------------------------------------------------------------------------------
def gen_ops(rng, tree, how):
    """a script that rewinds in the middle of a cycle: the step counts are not multiples of the group periods"""
    width = len(tree)
    nobj = 1
    ops = []
    steps = lambda: rng.choice([1, 2, 3, 5, 7, width, width + 1, 2 * width + 1, 3 * width - 1, rng.randint(0, 24), rng.randint(1, 40)])
    if how == "timeline":
        ops.append(["tick", steps()])
        for _ in range(rng.randint(1, 3)):
            ops.append([rng.choice(["tl_reset", "track_reset"])])
            ops.append(["tick", steps()])
        return ops
    used_len = False
    for _ in range(rng.randint(3, 8)):
        r = rng.random()
        i = rng.randrange(nobj)
        if r < 0.42:
            ops.append([rng.choice(["next", "next", "step", "for"]), i, steps()])
        elif r < 0.62:
            ops.append(["reset", i])
            ops.append(["next", i, steps()])
        elif r < 0.78:
            ops.append(["all", i, steps()])
            if rng.random() < 0.7:
                ops.append(["next", i, steps()])
        elif r < 0.79 and not used_len and how != "pdict":
            used_len = True
            ops.append(["len", i])
            ops.append(["next", i, steps()])
        else:
            ops.append([rng.choice(["copy", "copy", "deepcopy"]), i])
            nobj += 1
            ops.append(["next", rng.randrange(nobj), steps()])
    ops.append(["next", rng.randrange(nobj), steps()])
    return ops


def only_small_ints(tree):
    return all(only_small_ints(n[1]) if n[0] == "g" else (n[0] == "i" and 0 <= n[1] <= 127) for n in tree)


def gen_case(rng, idx):
    depth = idx % 6
    how = ["parse", "pattern", "pseq", "parse", "pdict", "timeline", "parse", "pattern"][(idx // 6) % 8]
    for _ in range(200):
        t = B.gen_tree(rng, depth)
        if how == "timeline":
            def ints(nodes):
                for n in nodes:
                    if n[0] == "g":
                        ints(n[1])
                    else:
                        n[0], n[1], n[2] = "i", rng.randint(0, 127), None
            ints(t)
        st = B.strip_txt(t)
        s = B.fmt(rng, B.token_list(t), ["plain", "doc", "tight", "mixed"][idx % 4])
        if B.has_empty_group(st) and (how == "timeline" or rng.random() < 0.85):
            continue
        if len(s) <= 600:
            break
    return {"s": s, "how": how, "tree": st, "ops": gen_ops(rng, st, how), "depth": B.tree_depth(st), "empty": B.has_empty_group(st)}


# ---- Coq side -------------------------------------------------------------------------------------------------------------
def coq_ops(ops):
    out = []
    for op in ops:
        k = op[0]
        if k == "tick":
            out.append("ONext 0 (nn %d)" % op[1])
        elif k in ("tl_reset", "track_reset"):
            out.append("OReset 0")
        elif k in ("next", "step", "for"):
            out.append("ONext (nn %d) (nn %d)" % (op[1], op[2]))
        elif k == "reset":
            out.append("OReset (nn %d)" % op[1])
        elif k == "all":
            out.append("OAll (nn %d) (nn %d)" % (op[1], op[2]))
        elif k == "len":
            out.append("OAll (nn %d) (nn %d)" % (op[1], LENGTH_MAX))
        else:
            out.append("OCopy (nn %d)" % op[1])
    return lst(out)


def coq_expected(outs):
    parts = []
    for o in outs:
        if o and o[0] == "n":
            parts.append("EN %s" % zlit(o[1]))
        else:
            parts.append("EV " + B.etree(B.from_impl_tree(o)))
    return lst(parts)


def term(case, r):
    if "raise" in r or any(v[0] == "?" for o in r["outs"] if not (o and o[0] == "n") for v in o):
        return "false"
    return "chkproto %s %s %s" % (B.codes(case["s"]), coq_ops(case["ops"]), coq_expected(r["outs"]))


def snippet(case):
    if case["how"] == "timeline":
        return ("import isobar as iso\nclass Rec(iso.OutputDevice):\n    notes = []\n    def note_on(self, note=60, velocity=64, channel=0): self.notes.append(note)\n"
                "    def note_off(self, note=60, channel=0): pass\n"
                "dev = Rec(); tl = iso.Timeline(output_device=dev, clock_source=iso.DummyClock(ticks_per_beat=1))\n"
                "track = tl.schedule({'note': %r, 'duration': 1}, remove_when_done=False)\n"
                "for op in %r:\n    dev.notes = []\n    if op[0] == 'tick': [tl.tick() for _ in range(op[1])]\n"
                "    elif op[0] == 'tl_reset': tl.reset()\n    else: track.reset()\n    print(op, dev.notes)\n" % (case["s"], case["ops"]))
    return "# PYTHONPATH=<repo> /venv/bin/python /verif/harness/impl/c20_proto_impl.py <<< '%s'" % json.dumps(
        {"cases": [{"s": case["s"], "how": case["how"], "ops": case["ops"]}]})


# ---- the stratum ----------------------------------------------------------------------------------------------------------
def judge(run, cases):
    shards = [cases[i::10] for i in range(10) if cases[i::10]]
    outs = run.impl_parallel("c20_proto_impl", [{"cases": [{"s": c["s"], "how": c["how"], "ops": c["ops"]} for c in sh]} for sh in shards])
    results = [None] * len(cases)
    for si, out in enumerate(outs):
        for j, r in enumerate(out["cases"]):
            results[si + j * 10] = r
    flagged = set()
    for ci, (c, r) in enumerate(zip(cases, results)):
        run.count(len(c["ops"]))
        run.dist("proto.how." + c["how"])
        run.dist("proto.depth.%d" % c["depth"])
        for op in c["ops"]:
            run.dist("proto.op." + op[0])
        if sum(1 for op in c["ops"] if op[0] in ("reset", "all", "len", "tl_reset", "track_reset")) and c["depth"] >= 1:
            run.nontrivial("proto:" + json.dumps([c["s"], c["how"], c["ops"]]))
        doc = {"case": {"s": c["s"], "how": c["how"], "ops": c["ops"], "codes": [ord(ch) for ch in c["s"]], "protocol": True},
               "implementation": r, "python": snippet(c)}
        if "raise" in r:
            flagged.add(ci)
            run.violation({"kind": "protocol-raises", "site": c["how"], "class": r["raise"]}, dict(doc, observed=(
                "operation %d (%r) of the script raised %s on the pattern parsed from %r" % (r["at"], c["ops"][r["at"]] if 0 <= r["at"] < len(c["ops"]) else None, r["raise"], c["s"]))))
            continue
        if c["empty"]:
            run.discard("protocol: a group is empty (the pattern stops there; model comparison only)")
            continue
        want = ref_outputs(c["tree"], c["ops"])
        run.cov["oracle_evaluations"] += len(want)
        rewound = "none"
        for k, (op, w, g) in enumerate(zip(c["ops"], want, r["outs"])):
            if op[0] in ("reset", "all", "len", "tl_reset", "track_reset"):
                rewound = op[0]
            elif op[0] in ("copy", "deepcopy"):
                rewound = rewound if rewound != "none" else "copy"
            bad = None
            if isinstance(w, tuple):
                if list(g) != ["n", w[1]]:
                    bad = "len() returned %r, expected %d (all() stops at LENGTH_MAX values)" % (g, w[1])
            elif len(g) != len(w) or not all(same_val(a, b) for a, b in zip(w, g)):
                bad = "returned %r, expected %r" % ([show(v) for v in g], [a[1] if a[0] != "f" else float(a[1]) for a in w])
            if bad:
                flagged.add(ci)
                run.violation({"kind": "protocol-output", "site": "after-" + rewound}, dict(doc, observed=(
                    "pattern parsed from %r (%s): operation %d %r of the script %r %s; a nested group contributes one element per cycle of its parent, "
                    "counted from the start again after a rewind, and a copy is independent of its original" % (c["s"], c["how"], k, op, c["ops"], bad)),
                    oracle="reference interpreter of nested cyclic sequences (property text)"))
                break
    terms = [term(c, r) for c, r in zip(cases, results)]
    bad = run.coq_failing(HEADER, terms, chunk=40)
    run.cov["traces_validated_against_impl"] = run.cov.get("traces_validated_against_impl", 0) + len(cases) - len(bad)
    for ci in bad:
        if ci in flagged:
            continue
        c, r = cases[ci], results[ci]
        run.violation({"kind": "correspondence", "site": "protocol." + c["how"]}, {
            "broken": "correspondence Notation/PSeqProto.v (prun) <-> PSequence/Pattern protocol on a parsed pattern: the theorems C20_history_rewind / C20_all_rewinds no longer describe this code",
            "case": {"s": c["s"], "how": c["how"], "ops": c["ops"], "codes": [ord(ch) for ch in c["s"]], "protocol": True},
            "implementation": r, "python": snippet(c)}, found_input=False)
    return len(flagged) + len([i for i in bad if i not in flagged])


def check_protocol(run):
    rng = run.rng
    n = 360 if run.tier == "quick" else 6000
    cases = [gen_case(rng, i) for i in range(n)]
    # the documented example, always present
    cases.append({"s": "1 [10 11]", "how": "parse", "tree": [("i", 1), ("g", [("i", 10), ("i", 11)])], "depth": 1, "empty": False,
                  "ops": [["next", 0, 6], ["reset", 0], ["next", 0, 3], ["copy", 0], ["next", 1, 2], ["all", 0, 1], ["next", 0, 4], ["next", 1, 3]]})
    return judge(run, cases)


def replay_case(run, case):
    tree = None
    r = run.impl("c20_proto_impl", {"cases": [{"s": case["s"], "how": case["how"], "ops": case["ops"]}]})["cases"][0]
    print("implementation:", json.dumps(r)[:1500])
    bad = run.coq_failing(HEADER, [term(case, r)])
    print("replay: implementation/model agree:", not bad)
    return 1 if bad else 0

#!/venv/bin/python
"""Translator: the __next__ bodies of stochastic pattern classes of isobar/pattern/chance.py, read from the SOURCE TEXT with
`ast`, rendered as step functions over the types of the machine model coq/Pat/Chance.v -> coq/Generated/TablesStepchance.v.
Pat/ChanceSrc.v proves that each is the hand-written machine step (white_step, coin_step, flipflop_step, skip_step,
pshuffle_step); Props/C11Src.v restates theorems of C11 over them.

The machines of Chance.v describe a class on the domain C11 quantifies over: scalar parameters (Pattern.value of a scalar
is the scalar), the non-`regular` mode of PCoin / PSkip, a finite input sequence for PSkip.  The translation is therefore a
SPECIALISATION of the body to that domain, declared per class in SPEC below (hand-written, part of the trusted reading):

  params   attributes that hold scalars and are never assigned: Coq parameters of type Q / Z
  consts   attributes with a fixed value on the domain (regular = False): conditions on them are decided at translation time
           and the untaken branch is NOT translated
  flags    source expressions that are a parameter of the machine (type(min) == float  is the flag is_f)
  state    the attributes the method mutates: the machine state (Z / list Z; `stream`: a pattern given by the finite list of
           its remaining values, Pattern.value pops it and an empty list is StopIteration, raised before any draw)
  dead     attributes only used in untaken branches

  x = Pattern.value(self.f)        the parameter / state term itself (scalars); a stream: match s with [] => (Stop, ..) | x :: r => ..
                                   a list-valued state attribute: x is an ALIAS of self.f (rng.shuffle mutates it in place)
  self.rng.uniform(a, b)           let (u, g') := d_unit g in  a + (b - a) * u     (Chance.v: random.Random.uniform; ints -> inject_Z)
  self.rng.shuffle(self.f)         let (l', g') := shuffle l g in ..
  int(x) on a float                Qtrunc x
  x < y on floats                  Qltb x y;   on ints:  a > b is b <? a,  a >= b is b <=? a,  a == b is a =? b
  x[i] (x a list of ints)          match pyidx l i with Some v => .. | None => (Fail, <state>, g) end
  raise StopIteration              (Stop, <state>, g)
  return e                         (Out (OQ e | OZ e | oopt e | ONone), <state>, g)
  if / elif / else, self.f = e, self.f op= e, x = e     as in gen_tables_step.py (the rest of the body under each branch)

A draw inside a condition (`elif self.rng.uniform(0, 1) < p`) is made before the test of that `if`.  Anything else: exit 3."""
import ast, os, sys

sys.path.insert(0, os.path.dirname(os.path.abspath(__file__)))
sys.dont_write_bytecode = True
from gen_tables_step import Reject, I, is_self_attr, is_static, comment, src_line, check_primitives

SPEC = {
    "PWhite": dict(params=[("min", "Q"), ("max", "Q"), ("length", "Z")], flags={"type(min) == float": "is_f"}, consts={},
                   state=[("index", "Z")], dead=[], mk=None),
    "PCoin": dict(params=[("probability", "Q")], flags={}, consts={"regular": False}, state=[], dead=["current_value"], mk=None),
    "PFlipFlop": dict(params=[("p_on", "Q"), ("p_off", "Q")], flags={}, consts={}, state=[("value", "Z")], dead=["initial"], mk=None),
    "PSkip": dict(params=[("play", "Q")], flags={}, consts={"regular": False}, state=[("pattern", "stream")], dead=["pos"], mk=None),
    "PChoice": dict(params=[("values", "list Z"), ("weights", "option (list Q)")], flags={}, consts={}, state=[], dead=[], mk=None),
    "PShuffle": dict(params=[("repeats", "Z")], flags={}, consts={}, state=[("values", "list Z"), ("pos", "Z"), ("rcount", "Z")],
                     dead=["values_orig"], mk="mkShuf"),
}
COQTY = {"Q": "Q", "Z": "Z", "stream": "list (option Z)", "list Z": "list Z", "option (list Q)": "option (list Q)"}


class Tr:
    def __init__(self, cname, spec, fn):
        self.c, self.s, self.fn, self.n = cname, spec, fn, 0
        self.params = dict(spec["params"])
        self.state = [f for (f, _) in spec["state"]]
        self.sty = dict(spec["state"])

    def fresh(self, b):
        self.n += 1
        return "%s%d" % (b, self.n)

    def st(self, env):
        ts = [env["state"][f] for f in self.state]
        if not ts:
            return "s"
        if self.s["mk"]:
            return "(%s %s)" % (self.s["mk"], " ".join(ts))
        if len(ts) != 1:
            raise Reject("several state attributes without a record")
        return ts[0]

    def res(self, env, r):
        return "(%s, %s, %s)" % (r, self.st(env), env["g"])

    def upd(self, env, **kw):
        e = {"state": dict(env["state"]), "locals": dict(env["locals"]), "g": env["g"]}
        for k, v in kw.items():
            if k == "g":
                e["g"] = v
        return e

    # ---- expressions: k(ty, term, env) ----
    def toQ(self, ty, t):
        if ty == "Q":
            return t
        if ty == "Z":
            return "(inject_Z %s)" % t
        raise Reject("a %s where a float is needed" % ty)

    def ev(self, n, env, k):
        src = ast.unparse(n)
        if src in self.s["flags"]:
            return k("bool", self.s["flags"][src], env)
        if isinstance(n, ast.Constant):
            if n.value is None:
                return k("none", "ONone", env)
            if type(n.value) is int and abs(n.value) < 2 ** 31:
                return k("Z", "%d" % n.value if n.value >= 0 else "(%d)" % n.value, env)
            raise Reject("constant not understood: " + src)
        if isinstance(n, ast.Name) and isinstance(n.ctx, ast.Load):
            if n.id not in env["locals"]:
                raise Reject("name %s is not bound on this path" % n.id)
            ty, t = env["locals"][n.id]
            if ty == "alias":
                return k(self.sty[t], env["state"][t], env)
            return k(ty, t, env)
        if is_self_attr(n) and isinstance(n.ctx, ast.Load):
            a = n.attr
            if a in self.s["consts"]:
                return k("bool", "true" if self.s["consts"][a] else "false", env)
            if a in self.params:
                raise Reject("parameter self.%s is read without Pattern.value" % a)
            if a in env["state"]:
                return k(self.sty[a], env["state"][a], env)
            raise Reject("attribute self.%s is not declared in SPEC" % a)
        if (isinstance(n, ast.Call) and isinstance(n.func, ast.Name) and n.func.id == "wnchoice" and len(n.args) == 2 and len(n.keywords) == 1
                and n.keywords[0].arg == "rng" and is_self_attr(n.keywords[0].value) and n.keywords[0].value.attr == "rng"):
            # util.wnchoice(array, weights, rng=self.rng): Chance.wnchoice (normalize + windex on one unit draw; hand-written)
            def kw1(ta, a, e1):
                def kw2(tb, b, e2):
                    if ta != "list Z" or tb != "list Q":
                        raise Reject("wnchoice of a %s with weights %s" % (ta, tb))
                    r, g2, v = self.fresh("r"), self.fresh("g"), self.fresh("v")
                    e3 = self.upd(e2, g=g2)
                    return "(let (%s, %s) := wnchoice R r_unit %s %s %s in\n match %s with\n | Some %s =>%s\n | None => %s\n end)" % (
                        r, g2, a, b, e2["g"], r, v, I(k("Z", v, e3)), self.res(e3, "Fail"))
                return self.ev(n.args[1], e1, kw2)
            return self.ev(n.args[0], env, kw1)
        if isinstance(n, ast.Call) and not n.keywords:
            f = n.func
            if is_static(f, "Pattern", "value") and len(n.args) == 1 and is_self_attr(n.args[0]):
                a = n.args[0].attr
                if a in self.s["consts"]:
                    return k("bool", "true" if self.s["consts"][a] else "false", env)
                if a in self.params:
                    return k(self.params[a], "p_" + a, env)          # Pattern.value of a scalar is the scalar
                if a in env["state"] and self.sty[a] == "Z":
                    return k("Z", env["state"][a], env)
                if a in env["state"] and self.sty[a] == "list Z":
                    return k("alias", a, env)
                if a in env["state"] and self.sty[a] == "stream":
                    x, r = self.fresh("x"), self.fresh("rest")
                    e2 = self.upd(env)
                    e2["state"][a] = r
                    e0 = self.upd(env)
                    e0["state"][a] = "[]"
                    return "(match %s with\n | [] => %s\n | %s :: %s =>%s\n end)" % (
                        env["state"][a], self.res(e0, "Stop"), x, r, I(k("optZ", x, e2)))
                raise Reject("Pattern.value(self.%s): attribute not declared in SPEC" % a)
            if (isinstance(f, ast.Attribute) and f.attr == "uniform" and is_self_attr(f.value) and f.value.attr == "rng" and len(n.args) == 2):
                def k1(ta, a, e1):
                    def k2(tb, b, e2):
                        u, g2 = self.fresh("u"), self.fresh("g")
                        e3 = self.upd(e2, g=g2)
                        A, B = self.toQ(ta, a), self.toQ(tb, b)
                        return "(let (%s, %s) := d_unit R r_unit %s in%s)" % (u, g2, e2["g"], I(k("Q", "(%s + (%s - %s) * %s)%%Q" % (A, B, A, u), e3), 1))
                    return self.ev(n.args[1], e1, k2)
                return self.ev(n.args[0], env, k1)
            if (isinstance(f, ast.Attribute) and f.attr == "choice" and is_self_attr(f.value) and f.value.attr == "rng" and len(n.args) == 1):
                def kc(ta, a, e1):
                    if ta != "list Z":
                        raise Reject("rng.choice of a %s" % ta)
                    r, g2, v = self.fresh("r"), self.fresh("g"), self.fresh("v")
                    e2 = self.upd(e1, g=g2)
                    return "(let (%s, %s) := choice R r_below %s %s in\n match %s with\n | Some %s =>%s\n | None => %s\n end)" % (
                        r, g2, a, e1["g"], r, v, I(k("Z", v, e2)), self.res(e2, "Fail"))
                return self.ev(n.args[0], env, kc)
            if isinstance(f, ast.Name) and f.id == "int" and len(n.args) == 1:
                def ki(ta, a, e1):
                    if ta != "Q":
                        raise Reject("int() of a %s" % ta)
                    return k("Z", "(Qtrunc %s)" % a, e1)
                return self.ev(n.args[0], env, ki)
            if isinstance(f, ast.Name) and f.id == "len" and len(n.args) == 1:
                def kl(ta, a, e1):
                    if ta != "list Z":
                        raise Reject("len() of a %s" % ta)
                    return k("Z", "(zlen %s)" % a, e1)
                return self.ev(n.args[0], env, kl)
        if isinstance(n, ast.Subscript) and isinstance(n.ctx, ast.Load):
            def ks(tl, l, e1):
                def ki(ti, i, e2):
                    if tl != "list Z" or ti != "Z":
                        raise Reject("subscript not understood: " + src)
                    v = self.fresh("v")
                    return "(match pyidx %s %s with\n | Some %s =>%s\n | None => %s\n end)" % (l, i, v, I(k("Z", v, e2)), self.res(e2, "Fail"))
                return self.ev(n.slice, e1, ki)
            return self.ev(n.value, env, ks)
        if isinstance(n, ast.BinOp) and type(n.op) in (ast.Add, ast.Sub, ast.Mult):
            op = {ast.Add: "+", ast.Sub: "-", ast.Mult: "*"}[type(n.op)]

            def k1(ta, a, e1):
                def k2(tb, b, e2):
                    if ta == "Z" and tb == "Z":
                        return k("Z", "(%s %s %s)" % (a, op, b), e2)
                    return k("Q", "(%s %s %s)%%Q" % (self.toQ(ta, a), op, self.toQ(tb, b)), e2)
                return self.ev(n.right, e1, k2)
            return self.ev(n.left, env, k1)
        raise Reject("expression not understood: " + src)

    # ---- conditions (pure after the draws have been hoisted): k(bool term, env) ----
    def cond(self, n, env, k):
        if isinstance(n, ast.BoolOp):
            sym = "&&" if isinstance(n.op, ast.And) else "||"

            def go(i, acc, e):
                if i == len(n.values):
                    return k(acc, e)
                return self.cond(n.values[i], e, lambda t, e2: go(i + 1, t if acc is None else "(%s %s %s)" % (acc, sym, t), e2))
            return go(0, None, env)
        if isinstance(n, ast.UnaryOp) and isinstance(n.op, ast.Not):
            return self.cond(n.operand, env, lambda t, e: k({"true": "false", "false": "true"}.get(t, "(negb %s)" % t), e))
        if isinstance(n, ast.Compare) and len(n.ops) == 1 and ast.unparse(n) not in self.s["flags"]:
            op = type(n.ops[0])

            def k1(ta, a, e1):
                def k2(tb, b, e2):
                    if ta == "Z" and tb == "Z":
                        f = {ast.Gt: "(%s <? %s)" % (b, a), ast.GtE: "(%s <=? %s)" % (b, a), ast.Lt: "(%s <? %s)" % (a, b),
                             ast.LtE: "(%s <=? %s)" % (a, b), ast.Eq: "(%s =? %s)" % (a, b)}.get(op)
                    elif "Q" in (ta, tb) and op is ast.Lt:
                        f = "(Qltb %s %s)" % (self.toQ(ta, a), self.toQ(tb, b))
                    else:
                        f = None
                    if f is None:
                        raise Reject("comparison not understood: " + ast.unparse(n))
                    return k(f, e2)
                return self.ev(n.comparators[0], e1, k2)
            return self.ev(n.left, env, k1)
        return self.ev(n, env, lambda ty, t, e: k(t, e) if ty == "bool" else (_ for _ in ()).throw(Reject("condition of type %s: %s" % (ty, ast.unparse(n)))))

    # ---- statements ----
    def run(self, stmts, env):
        if not stmts:
            return self.res(env, "Out ONone")             # falling off the end returns None
        st, rest = stmts[0], stmts[1:]
        cont = lambda e: self.run(rest, e)
        if isinstance(st, ast.Expr) and isinstance(st.value, ast.Constant):
            return cont(env)
        if isinstance(st, ast.Assign) and len(st.targets) == 1:
            tg = st.targets[0]

            def ka(ty, t, e):
                e2 = self.upd(e)
                if isinstance(tg, ast.Name):
                    e2["locals"][tg.id] = (ty, t)
                elif is_self_attr(tg) and tg.attr in e2["state"]:
                    want = self.sty[tg.attr]
                    if ty == "alias" and t == tg.attr:
                        pass
                    elif ty != want:
                        raise Reject("self.%s: the machine keeps a %s, the source assigns a %s" % (tg.attr, want, ty))
                    else:
                        e2["state"][tg.attr] = t
                else:
                    raise Reject("assignment not understood: " + src_line(st))
                return cont(e2)
            return self.ev(st.value, env, ka)
        if isinstance(st, ast.AugAssign) and type(st.op) in (ast.Add, ast.Sub) and is_self_attr(st.target) and st.target.attr in env["state"]:
            load = ast.Attribute(st.target.value, st.target.attr, ast.Load())

            def ku(ty, t, e):
                if ty != self.sty[st.target.attr]:
                    raise Reject("self.%s changes its type" % st.target.attr)
                e2 = self.upd(e)
                e2["state"][st.target.attr] = t
                return cont(e2)
            return self.ev(ast.BinOp(load, st.op, st.value), env, ku)
        if (isinstance(st, ast.If) and isinstance(st.test, ast.Compare) and len(st.test.ops) == 1 and isinstance(st.test.ops[0], (ast.Is, ast.IsNot))
                and isinstance(st.test.comparators[0], ast.Constant) and st.test.comparators[0].value is None
                and isinstance(st.test.left, ast.Name) and env["locals"].get(st.test.left.id, ("",))[0].startswith("option ")):
            # x is (not) None on an optional parameter: the two cases of the option
            nm = st.test.left.id
            ty, t = env["locals"][nm]
            inner = ty[len("option "):].strip("()")
            w = self.fresh("w")
            e_some = self.upd(env)
            e_some["locals"][nm] = (inner, w)
            e_none = self.upd(env)
            e_none["locals"][nm] = ("none", "ONone")
            some_b, none_b = (st.body, st.orelse) if isinstance(st.test.ops[0], ast.IsNot) else (st.orelse, st.body)
            return "(match %s with\n | Some %s =>%s\n | None =>%s\n end)" % (t, w, I(self.run(some_b + rest, e_some)), I(self.run(none_b + rest, e_none)))
        if isinstance(st, ast.If):
            def kc(t, e):
                if t == "true":                      # decided on the domain of the machine: the other branch is not translated
                    return self.run(st.body + rest, e)
                if t == "false":
                    return self.run(st.orelse + rest, e)
                return "(if %s\n then%s\n else%s)" % (t, I(self.run(st.body + rest, e)), I(self.run(st.orelse + rest, e)))
            return self.cond(st.test, env, kc)
        if isinstance(st, ast.Raise) and isinstance(st.exc, ast.Name) and st.exc.id == "StopIteration":
            return self.res(env, "Stop")
        if isinstance(st, ast.Return):
            if st.value is None:
                return self.res(env, "Out ONone")

            def kr(ty, t, e):
                wrap = {"Q": "Out (OQ %s)", "Z": "Out (OZ %s)", "optZ": "Out (oopt %s)", "none": "Out %s"}.get(ty)
                if wrap is None:
                    raise Reject("return of a %s" % ty)
                return self.res(e, wrap % t)
            return self.ev(st.value, env, kr)
        if (isinstance(st, ast.Expr) and isinstance(st.value, ast.Call) and isinstance(st.value.func, ast.Attribute) and st.value.func.attr == "shuffle"
                and is_self_attr(st.value.func.value) and st.value.func.value.attr == "rng" and len(st.value.args) == 1
                and is_self_attr(st.value.args[0]) and self.sty.get(st.value.args[0].attr) == "list Z"):
            a = st.value.args[0].attr
            l2, g2 = self.fresh("l"), self.fresh("g")
            e2 = self.upd(env, g=g2)
            e2["state"][a] = l2
            return "(let (%s, %s) := shuffle R r_below %s %s in%s)" % (l2, g2, env["state"][a], env["g"], I(cont(e2), 1))
        raise Reject("statement not understood: " + src_line(st))


def main(out_path):
    repo = os.environ.get("PYTHONPATH", "/repo").split(":")[0]
    core = ast.parse(open(os.path.join(repo, "isobar", "pattern", "core.py")).read())
    check_primitives(core)
    tree = ast.parse(open(os.path.join(repo, "isobar", "pattern", "chance.py")).read())
    body, lines, failed = [], [], []
    for cname, spec in SPEC.items():
        try:
            cs = [c for c in tree.body if isinstance(c, ast.ClassDef) and c.name == cname]
            if len(cs) != 1 or [ast.unparse(b) for b in cs[0].bases] != ["PStochasticPattern"]:
                raise Reject("class %s(PStochasticPattern) not found" % cname)
            fs = [f for f in cs[0].body if isinstance(f, ast.FunctionDef) and f.name == "__next__"]
            if len(fs) != 1 or fs[0].decorator_list or [a.arg for a in fs[0].args.args] != ["self"]:
                raise Reject("%s.__next__ not understood" % cname)
            # every attribute of self mentioned in __next__ is declared; parameters and constants are never assigned in the class
            declared = set(dict(spec["params"])) | set(spec["consts"]) | set(dict(spec["state"])) | set(spec["dead"]) | {"rng"}
            for nn in ast.walk(fs[0]):
                if is_self_attr(nn) and nn.attr not in declared:
                    raise Reject("%s.__next__ uses self.%s, which SPEC does not declare" % (cname, nn.attr))
            for meth in cs[0].body:
                if isinstance(meth, ast.FunctionDef) and meth.name != "__init__":
                    for nn in ast.walk(meth):
                        if is_self_attr(nn) and not isinstance(nn.ctx, ast.Load) and (nn.attr in dict(spec["params"]) or nn.attr in spec["consts"]):
                            raise Reject("%s.%s assigns the parameter self.%s" % (cname, meth.name, nn.attr))
            tr = Tr(cname, spec, fs[0])
            env = {"state": {f: "s_" + f for (f, _) in spec["state"]}, "locals": {}, "g": "g"}
            term = tr.run(fs[0].body, env)
            if "wnchoice" in ast.unparse(fs[0]):
                imps = [a for nn in ast.walk(tree) if isinstance(nn, ast.ImportFrom) and nn.module == "util" and nn.level == 2 for a in nn.names if a.name == "wnchoice" and a.asname is None]
                if len(imps) != 1:
                    raise Reject("wnchoice is not `from ..util import wnchoice`")
            sty = ("shuf_state" if spec["mk"] else (COQTY[spec["state"][0][1]] if spec["state"] else "unit"))
            sig = "".join(" (%s : bool)" % v for v in spec["flags"].values())
            sig += "".join(" (p_%s : %s)" % (p, COQTY[t]) for (p, t) in spec["params"])
            if spec["mk"]:
                sig += " (s : shuf_state)"
                term = "(let '(%s %s) := s in%s)" % (spec["mk"], " ".join("s_" + f for (f, _) in spec["state"]), I(term, 1))
            elif spec["state"]:
                sig += " (s_%s : %s)" % (spec["state"][0][0], sty)
            else:
                sig += " (s : unit)"
            body.append("(* %s.__next__ (isobar/pattern/chance.py):\n%s *)\nDefinition src_%s_step%s (g : R) : res * %s * R :=%s.\n" % (
                cname, "\n".join("     " + l for l in comment(ast.unparse(fs[0])).splitlines()), cname, sig, sty, I(term, 2)))
            lines.append("%-12s __next__: translated" % cname)
        except Reject as e:
            lines.append("%-12s __next__: REJECTED: %s" % (cname, e))
            failed.append("%s: %s" % (cname, e))
    text = ("(* GENERATED by harness/gen_tables_stepchance.py from the source text of isobar/pattern/chance.py.  Do not edit.\n"
            "   Translation rules: the docstring of the generator and docs/TRANSLATOR.md.  Tie-in: Pat/ChanceSrc.v.\n\n%s *)\n"
            "From Isobar Require Import Base.Prelude Pat.Chance.\nFrom Coq Require Import QArith Qround Qabs.\nOpen Scope Z_scope.\n\n"
            "Section Src.\n  Variable R : Type.\n  Variable r_unit : R -> Z * R.\n  Variable r_below : Z -> R -> Z * R.\n\n%s\nEnd Src.\n"
            % ("\n".join("   " + comment(l) for l in lines), "\n".join(body)))
    for l in lines:
        print("tables-stepchance: " + l)
    if failed:
        raise Reject("classes that Pat/ChanceSrc.v has a proof for no longer translate: " + "; ".join(failed))
    old = open(out_path).read() if os.path.exists(out_path) else None
    if old != text:
        tmp = out_path + ".tmp%d" % os.getpid()
        with open(tmp, "w") as f:
            f.write(text)
        os.replace(tmp, out_path)
        print("tables-stepchance: rewritten")
    else:
        print("tables-stepchance: unchanged")


if __name__ == "__main__":
    try:
        main(sys.argv[1])
    except Exception as e:
        sys.stderr.write("gen_tables_stepchance: FAILED: %r\n" % (e,))
        sys.exit(3)

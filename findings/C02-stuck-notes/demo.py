"""Stuck notes: a note that is sounding when its track leaves the timeline (unschedule(), clear(), or removal after an
exception with ignore_exceptions=True) never received its note_off on the pinned code.  Prints the sounding set at the end."""
import isobar as iso
class Rec(iso.OutputDevice):
    def __init__(self): super().__init__(); self.sounding = []
    def note_on(self, note=60, velocity=64, channel=0): self.sounding.append((note, channel))
    def note_off(self, note=60, channel=0): self.sounding.remove((note, channel))
def raising():
    yield {"note": 60, "duration": 2, "gate": 2}
    raise RuntimeError("boom")
for how in ("unschedule", "clear", "exception"):
    dev = Rec()
    tl = iso.Timeline(output_device=dev, clock_source=iso.DummyClock(ticks_per_beat=10), ignore_exceptions=True)
    if how == "exception":
        class P(iso.Pattern):
            def __init__(self): self.g = raising()
            def __next__(self): return next(self.g)
        tr = tl.schedule(P())
    else:
        tr = tl.schedule({"note": 60, "duration": 2, "gate": 1})
    for k in range(5): tl.tick()
    if how == "unschedule": tl.unschedule(tr)
    if how == "clear": tl.clear()
    for k in range(60): tl.tick()
    print(how, "-> still sounding after 6.5 beats:", dev.sounding, "(expected [])")

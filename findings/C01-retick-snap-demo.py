"""C01-retick-snap: after `timeline.ticks_per_beat = 24` at 250/480 beat, ticks must be 1/24 beat apart starting from 250/480.
PYTHONPATH=<repo> /venv/bin/python findings/C01-retick-snap-demo.py  -> exit 1 on the pinned tree, 0 with findings/C01-retick-snap.diff"""
import sys, math
from fractions import Fraction as F
import isobar as iso


class Rec(iso.OutputDevice):
    def __init__(self):
        super().__init__(); self.t = 0; self.on = []

    @property
    def ticks_per_beat(self):
        return None

    def note_on(self, note=60, velocity=64, channel=0):
        self.on.append(self.t)

    def note_off(self, note=60, channel=0):
        pass


dev = Rec()
tl = iso.Timeline(120, output_device=dev, clock_source=iso.DummyClock(ticks_per_beat=480))
tl.schedule({"note": iso.PSeries(1, 1), "duration": 0.25})
for _ in range(250):
    tl.tick(); dev.t += 1
tl.ticks_per_beat = 24
for _ in range(50):
    tl.tick(); dev.t += 1
want = [k * 120 for k in range(3)] + [250 + math.ceil((F(k, 4) - F(250, 480)) * 24) for k in range(3, 11)]
want = [t for t in want if t < 300]
now = float(F(250, 480) + F(50, 24))
ok = dev.on == want and abs(tl.current_time - now) < 1e-9
print("onsets  ", dev.on, "\nexpected", want, "\ncurrent_time", tl.current_time, "expected", now)
sys.exit(0 if ok else 1)

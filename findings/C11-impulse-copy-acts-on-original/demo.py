"""C11 finding: a copy of a PRandomImpulseSequence with an every(n, action) acts on, and draws from, its ORIGINAL.

every() stores `lambda: self.explore()` (resp. reset / generate).  copy.deepcopy treats a function as atomic, so the
copy's every_action is the very same closure, bound to the original object: every n-th next() of the copy mutates the
original's `values` and advances the original's private generator (and the copy itself never explores).
Property C11: "unaffected by draws made from other patterns" / "the same as any other instance with the same arguments
and seed".

Run as:  PYTHONPATH=<repo> python demo.py     exits 0 (PASS) when the original is unaffected, 1 otherwise."""
import sys
import isobar as iso


def make():
    return iso.PRandomImpulseSequence(0.5, 6).every(2, "explore").seed(7)


expected = make().nextn(24)             # a fresh instance with the same arguments and seed, alone
a = make()
head = a.nextn(6)
b = a.copy()
b.nextn(9)                              # draws from the copy only
tail = a.nextn(18)
print("alone                 :", expected)
print("with a copy drawn from:", head + tail)
if head + tail != expected:
    print("FAIL: draws from the copy changed the original's sequence")
    sys.exit(1)
print("PASS")

import isobar as iso, sys
class Rec(iso.OutputDevice):
    def __init__(self): super().__init__(); self.calls=[]; self.k=0
    @property
    def ticks_per_beat(self): return None
    def note_on(self, note=60, velocity=64, channel=0): self.calls.append((self.k,'on',note))
    def note_off(self, note=60, channel=0): pass
def run(tpb, nticks, dur=1):
    dev=Rec()
    tl=iso.Timeline(output_device=dev, clock_source=iso.DummyClock(ticks_per_beat=tpb))
    tl.schedule({"note":60,"duration":dur,"gate":0.5})
    for k in range(nticks):
        dev.k=k; tl.tick()
    bad=[(i,k) for i,(k,_,_) in enumerate(dev.calls) if k != i*tpb*dur]
    return bad[:1], len(dev.calls)
print(run(24, 100000))
print(run(480, 600000))
# quantize
dev=Rec(); tl=iso.Timeline(output_device=dev, clock_source=iso.DummyClock(ticks_per_beat=24))
for k in range(48): tl.tick()
tl.schedule({"note":61,"duration":1}, quantize=1)
for k in range(48,100):
    dev.k=k; tl.tick()
print("quantize=1 at beat 2 (24ppqn): first note tick", dev.calls[0][0], "expected 48")
dev=Rec(); tl=iso.Timeline(output_device=dev, clock_source=iso.DummyClock(ticks_per_beat=10))
for k in range(21): tl.tick()
tl.schedule({"note":61,"duration":1}, quantize=0.3)
for k in range(21,40):
    dev.k=k; tl.tick()
print("quantize=0.3 at t=2.1 (10ppqn): first note tick", dev.calls[0][0], "expected 21")

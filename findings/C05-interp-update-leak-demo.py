"""C05-interp-update-leak: PYTHONPATH=<repo> /venv/bin/python findings/C05-interp-update-leak-demo.py -> exit 1 on 7cb2b96, 0 with the patch"""
import sys
import isobar as iso


class Rec(iso.OutputDevice):
    def __init__(self):
        super().__init__(); self.t = 0; self.values = {}

    @property
    def ticks_per_beat(self):
        return None

    def control(self, control=0, value=0, channel=0):
        self.values[self.t] = float(value)


def run(update):
    dev = Rec()
    tl = iso.Timeline(120, output_device=dev, clock_source=iso.DummyClock(ticks_per_beat=4))
    new = {"control": 7, "value": iso.PSequence([50, 60, 10]), "duration": 0.5}
    tr = None
    if update:
        tr = tl.schedule({"control": 7, "value": iso.PSequence([0, 100]), "duration": 1}, interpolate="linear")
    for k in range(20):
        if k == 6 and update:
            tr.update(new, quantize=1, interpolate="linear")
        if k == 8 and not update:
            tl.schedule(new, interpolate="linear")
        tl.tick(); dev.t += 1
    return [dev.values.get(t) for t in range(8, 20)]


got, want = run(True), run(False)
print("from the switch tick on:", got, "\nthe new stream alone:    ", want)
sys.exit(0 if got == want else 1)

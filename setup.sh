#!/bin/sh
# Build the whole Coq development from files on disk (full .vo build; offline).
set -e
cd "$(dirname "$0")"
mkdir -p coq/Generated evidence replays
PYTHONPATH=${ISOBAR_REPO:-/repo} PYTHONHASHSEED=0 /venv/bin/python harness/gen_tables.py coq/Generated/Tables.v
# per-engine table generators: harness/gen_tables_<x>.py -> coq/Generated/Tables<X>.v (same naming rule as common.Run.build)
for g in harness/gen_tables_*.py; do
  [ -e "$g" ] || continue
  x=$(basename "$g" .py | sed 's/^gen_tables_//')
  X=$(/venv/bin/python -c "import sys; print(sys.argv[1].capitalize())" "$x")
  PYTHONPATH=${ISOBAR_REPO:-/repo} PYTHONHASHSEED=0 /venv/bin/python "$g" "coq/Generated/Tables$X.v"
done
cd coq
( echo "-Q . Isobar"; find . -name '*.v' ! -name '.*' | sed 's|^\./||' | LC_ALL=C sort ) > _CoqProject
coq_makefile -f _CoqProject -o Makefile
timeout 3000 make -j16

#!/bin/sh
# Build the whole Coq development from files on disk (full .vo build; offline).
set -e
cd "$(dirname "$0")"
mkdir -p coq/Generated evidence replays
PYTHONPATH=${ISOBAR_REPO:-/repo} PYTHONHASHSEED=0 /venv/bin/python harness/gen_tables.py coq/Generated/Tables.v
cd coq
( echo "-Q . Isobar"; find . -name '*.v' ! -name '.*' | sed 's|^\./||' | LC_ALL=C sort ) > _CoqProject
coq_makefile -f _CoqProject -o Makefile
timeout 3000 make -j16

(* IO/MidiBytes.v — model of what isobar's MIDI output devices put on the wire.

   Mirrors isobar/io/midi/output.py (MidiOutputDevice.note_on / note_off / control /
   program_change / pitch_bend / aftertouch): every request coerces each argument with Python's
   int() (truncation toward zero), builds a mido.Message (which rejects out-of-range fields with
   ValueError, so nothing is sent) and sends it; the port receives the MIDI 1.0 channel-voice
   bytes   status = kind | channel,  then one or two 7-bit data bytes.
   isobar/io/midifile/output.py (MidiFileOutputDevice.note_on / note_off) appends the same messages
   to a mido track, so the same functions describe the note/velocity/channel fields in the file.

   Float arguments enter as exact rationals (Q) produced by the harness from the float's exact
   value.  No proofs here. *)
From Isobar Require Import Base.Prelude.
From Coq Require Import QArith.
Open Scope Z_scope.

(** Python's int(x) on a float: truncation toward zero (Z.quot rounds toward zero). *)
Definition trunc (x : Q) : Z := Z.quot (Qnum x) (Zpos (Qden x)).

(** the channel-voice messages isobar sends (mido names: note_on, note_off, control_change,
    program_change, aftertouch, pitchwheel) *)
Inductive midi_msg : Type :=
| NoteOn (ch note vel : Z)
| NoteOff (ch note vel : Z)
| ControlChange (ch ctl val : Z)
| ProgramChange (ch prog : Z)
| ChannelPressure (ch val : Z)
| PitchWheel (ch pitch : Z).

Definition is_chan (c : Z) : bool := (0 <=? c) && (c <=? 15).
Definition is_data (d : Z) : bool := (0 <=? d) && (d <=? 127).
Definition is_pitch (p : Z) : bool := (-8192 <=? p) && (p <=? 8191).

(** what mido.Message(...) accepts; anything else raises ValueError before the port is touched *)
Definition msg_valid (m : midi_msg) : bool :=
  match m with
  | NoteOn c n v | NoteOff c n v | ControlChange c n v => is_chan c && is_data n && is_data v
  | ProgramChange c p | ChannelPressure c p => is_chan c && is_data p
  | PitchWheel c p => is_chan c && is_pitch p
  end.

(** MIDI 1.0 byte encoding (status nibble * 16 + channel; pitch wheel is 14 bits, LSB first,
    centred on 8192) *)
Definition midi_encode (m : midi_msg) : list Z :=
  match m with
  | NoteOff c n v => [128 + c; n; v]
  | NoteOn c n v => [144 + c; n; v]
  | ControlChange c k v => [176 + c; k; v]
  | ProgramChange c p => [192 + c; p]
  | ChannelPressure c v => [208 + c; v]
  | PitchWheel c p => [224 + c; (p + 8192) mod 128; (p + 8192) / 128]
  end.

(** decoder written from the MIDI 1.0 table (independent of the encoder's structure): *)
Definition midi_decode (bs : list Z) : option midi_msg :=
  match bs with
  | [s; d1; d2] =>
      if is_data d1 && is_data d2 && (128 <=? s) && (s <=? 239) then
        let c := s mod 16 in
        match s / 16 with
        | 8 => Some (NoteOff c d1 d2)
        | 9 => Some (NoteOn c d1 d2)
        | 11 => Some (ControlChange c d1 d2)
        | 14 => Some (PitchWheel c (d1 + 128 * d2 - 8192))
        | _ => None
        end
      else None
  | [s; d1] =>
      if is_data d1 && (128 <=? s) && (s <=? 239) then
        let c := s mod 16 in
        match s / 16 with
        | 12 => Some (ProgramChange c d1)
        | 13 => Some (ChannelPressure c d1)
        | _ => None
        end
      else None
  | _ => None
  end.

(** mido.Message(...) then port.send: Some bytes, or None when mido raises *)
Definition checked (m : midi_msg) : option (list Z) :=
  if msg_valid m then Some (midi_encode m) else None.

(** release velocity mido fills in for note_off when none is given *)
Definition default_release_velocity : Z := 64.

(** the device requests (arguments in the order of the Python signatures) *)
Definition req_note_on (note vel ch : Q) : midi_msg := NoteOn (trunc ch) (trunc note) (trunc vel).
Definition req_note_off (note ch : Q) : midi_msg := NoteOff (trunc ch) (trunc note) default_release_velocity.
Definition req_control (ctl val ch : Q) : midi_msg := ControlChange (trunc ch) (trunc ctl) (trunc val).
Definition req_program (prog ch : Q) : midi_msg := ProgramChange (trunc ch) (trunc prog).
Definition req_aftertouch (val ch : Q) : midi_msg := ChannelPressure (trunc ch) (trunc val).
Definition req_pitch_bend (pitch ch : Q) : midi_msg := PitchWheel (trunc ch) (trunc pitch).

Definition dev_note_on (note vel ch : Q) := checked (req_note_on note vel ch).
Definition dev_note_off (note ch : Q) := checked (req_note_off note ch).
Definition dev_control (ctl val ch : Q) := checked (req_control ctl val ch).
Definition dev_program (prog ch : Q) := checked (req_program prog ch).
Definition dev_aftertouch (val ch : Q) := checked (req_aftertouch val ch).
Definition dev_pitch_bend (pitch ch : Q) := checked (req_pitch_bend pitch ch).

(** comparison helpers for the correspondence check *)
Definition msg_eqb (a b : midi_msg) : bool :=
  match a, b with
  | NoteOn c n v, NoteOn c' n' v' | NoteOff c n v, NoteOff c' n' v'
  | ControlChange c n v, ControlChange c' n' v' => (c =? c') && (n =? n') && (v =? v')
  | ProgramChange c p, ProgramChange c' p' | ChannelPressure c p, ChannelPressure c' p'
  | PitchWheel c p, PitchWheel c' p' => (c =? c') && (p =? p')
  | _, _ => false
  end.

(** [same_request m bs]: the captured bytes [bs] are the message [m]; the release velocity of a
    note_off is not fixed by the property (any 7-bit value is accepted). *)
Definition same_request (m : midi_msg) (bs : list Z) : bool :=
  match midi_decode bs, m with
  | Some (NoteOff c n _), NoteOff c' n' _ => (c =? c') && (n =? n')
  | Some x, _ => msg_eqb x m
  | None, _ => false
  end.

(** one request on the device against what the fake port captured ([None]: the call raised and
    nothing reached the port) *)
Definition port_agrees (m : midi_msg) (captured : option (list Z)) : bool :=
  match captured with
  | None => negb (msg_valid m)
  | Some bs => msg_valid m && same_request m bs
  end.

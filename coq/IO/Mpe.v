(* IO/Mpe.v — model of the MPE channel allocator (isobar/io/mpe/output.py, isobar/io/mpe/note.py).

   State, as in MPEOutputDevice.__init__:
     channels            = 1..15                       (channel 0 is the MPE master channel)
     note_assignments    : note index -> the MPENote currently holding it (or None)
     channel_assignments : channel    -> the MPENote sounding on it (or None)
   An MPENote is identified here by its (note, channel); the two dictionaries are modelled as
   total functions into [option Z] (note -> its channel, channel -> its note).

   note_on(n, v):  c := first channel of 1..15 whose assignment is None;  none -> return None,
                   nothing sent;  else record the note under n and under c, send note_on(n, v, c).
   note_off(n):    note := note_assignments[n]; None -> ValueError; else send note_off(n, note.channel),
                   clear the assignment of note.channel (the channel the note holds) and of n.
   MPENote.pitch_bend / aftertouch / control: while the note is down, send on note.channel.
   The model describes the behaviour the property demands: note_off frees the channel the note
   holds (the pinned tree cleared channel_assignments[note_index] instead; DESIGN section 6 #13).
   No proofs here. *)
From Isobar Require Import Base.Prelude IO.MidiBytes.
Open Scope Z_scope.

Record mpe : Type := mkMpe {
  note_chan : Z -> option Z;     (* note_assignments[n].channel *)
  chan_note : Z -> option Z      (* channel_assignments[c].note *)
}.

Definition upd (f : Z -> option Z) (k : Z) (v : option Z) : Z -> option Z :=
  fun x => if x =? k then v else f x.

Definition mpe_channels : list Z := zrange 1 15.
Definition mpe_init : mpe := mkMpe (fun _ => None) (fun _ => None).

(* _get_next_channel *)
Definition is_free (s : mpe) (c : Z) : bool :=
  match chan_note s c with None => true | Some _ => false end.
Definition next_channel (s : mpe) : option Z := find (is_free s) mpe_channels.

(** calls made on the device / on the MPENote handles it returned (identified by note index) *)
Inductive mpe_call : Type :=
| On (n v : Z)                (* device.note_on(n, v) *)
| Off (n : Z)                 (* device.note_off(n)  /  handle.note_off() *)
| Bend (n x : Z)              (* handle.pitch_bend(x) *)
| Touch (n x : Z)             (* handle.aftertouch(x) *)
| Ctl (n k x : Z).            (* handle.control(k, x) *)

(** what a call puts on the port *)
Inductive mpe_out : Type :=
| Wire (m : midi_msg)         (* one message sent *)
| Silent                      (* nothing sent: no channel available, or the handle's note is up *)
| Rejected.                   (* note_off for a note that is not down: ValueError, nothing sent *)

Definition mpe_step (s : mpe) (c : mpe_call) : mpe * mpe_out :=
  match c with
  | On n v =>
      match next_channel s with
      | None => (s, Silent)
      | Some ch => (mkMpe (upd (note_chan s) n (Some ch)) (upd (chan_note s) ch (Some n)),
                    Wire (NoteOn ch n v))
      end
  | Off n =>
      match note_chan s n with
      | None => (s, Rejected)
      | Some ch => (mkMpe (upd (note_chan s) n None) (upd (chan_note s) ch None),
                    Wire (NoteOff ch n default_release_velocity))
      end
  | Bend n x =>
      match note_chan s n with None => (s, Silent) | Some ch => (s, Wire (PitchWheel ch x)) end
  | Touch n x =>
      match note_chan s n with None => (s, Silent) | Some ch => (s, Wire (ChannelPressure ch x)) end
  | Ctl n k x =>
      match note_chan s n with None => (s, Silent) | Some ch => (s, Wire (ControlChange ch k x)) end
  end.

Fixpoint mpe_run (s : mpe) (cs : list mpe_call) : list mpe_out :=
  match cs with
  | [] => []
  | c :: r => let (s', o) := mpe_step s c in o :: mpe_run s' r
  end.

Fixpoint mpe_final (s : mpe) (cs : list mpe_call) : mpe :=
  match cs with
  | [] => s
  | c :: r => mpe_final (fst (mpe_step s c)) r
  end.

(** ---- comparison with the bytes captured on the fake port ----
    captured: per call, the list of messages (byte lists) that reached the port during it *)
Definition out_agrees (o : mpe_out) (captured : list (list Z)) : bool :=
  match o, captured with
  | Wire m, [bs] => msg_valid m && same_request m bs
  | Silent, [] | Rejected, [] => true
  | _, _ => false
  end.

Fixpoint outs_agree (os : list mpe_out) (cap : list (list (list Z))) : bool :=
  match os, cap with
  | [], [] => true
  | o :: r, c :: r' => out_agrees o c && outs_agree r r'
  | _, _ => false
  end.

(** index of the first call whose captured messages differ from the model (for replays) *)
Fixpoint first_diff (i : Z) (os : list mpe_out) (cap : list (list (list Z))) : Z :=
  match os, cap with
  | o :: r, c :: r' => if out_agrees o c then first_diff (i + 1) r r' else i
  | _, _ => i
  end.

(** compact call encoding used by the harness: [k; a; b; c] with k = 0 On, 1 Off, 2 Bend, 3 Touch, 4 Ctl *)
Definition call_of (l : list Z) : mpe_call :=
  match l with
  | [0; n; v] => On n v
  | [1; n] => Off n
  | [2; n; x] => Bend n x
  | [3; n; x] => Touch n x
  | [4; n; k; x] => Ctl n k x
  | _ => Off (-1)
  end.

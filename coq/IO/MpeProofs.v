(* IO/MpeProofs.v — the MPE allocator keeps "one channel of 1..15 per held note" as an invariant
   over every well-formed call sequence (any length), and frees the channel on release. *)
From Isobar Require Import Base.Prelude IO.MidiBytes IO.Mpe.
From Coq Require Import FinFun.
Open Scope Z_scope.

(** ---- specification side: which notes are down, computed from the calls alone ---- *)
Fixpoint mpe_wf (held : list Z) (cs : list mpe_call) : Prop :=
  match cs with
  | [] => True
  | On n _ :: r => ~ In n held /\ (List.length held < 15)%nat /\ mpe_wf (n :: held) r
  | Off n :: r => In n held /\ mpe_wf (remove Z.eq_dec n held) r
  | Bend n _ :: r | Touch n _ :: r | Ctl n _ _ :: r => In n held /\ mpe_wf held r
  end.

(** ghost bookkeeping: the (note, channel) pairs currently sounding *)
Definition remove_note (n : Z) (h : list (Z * Z)) : list (Z * Z) :=
  filter (fun p => negb (fst p =? n)) h.

(** what the property demands of the wire output of a call sequence, given the sounding pairs *)
Fixpoint mpe_trace_ok (h : list (Z * Z)) (cs : list mpe_call) (os : list mpe_out) : Prop :=
  match cs, os with
  | [], [] => True
  | On n v :: cs', Wire (NoteOn c n' v') :: os' =>
      n' = n /\ v' = v /\ 1 <= c <= 15 /\ ~ In c (map snd h) /\ mpe_trace_ok ((n, c) :: h) cs' os'
  | Off n :: cs', Wire (NoteOff c n' _) :: os' =>
      n' = n /\ In (n, c) h /\ mpe_trace_ok (remove_note n h) cs' os'
  | Bend n x :: cs', Wire (PitchWheel c x') :: os' =>
      x' = x /\ In (n, c) h /\ mpe_trace_ok h cs' os'
  | Touch n x :: cs', Wire (ChannelPressure c x') :: os' =>
      x' = x /\ In (n, c) h /\ mpe_trace_ok h cs' os'
  | Ctl n k x :: cs', Wire (ControlChange c k' x') :: os' =>
      k' = k /\ x' = x /\ In (n, c) h /\ mpe_trace_ok h cs' os'
  | _, _ => False
  end.

(** ---- the invariant linking the two dictionaries to the sounding pairs ---- *)
Definition inv (h : list (Z * Z)) (s : mpe) : Prop :=
  (forall n c, In (n, c) h <-> note_chan s n = Some c) /\
  (forall n c, In (n, c) h <-> chan_note s c = Some n) /\
  (forall n c, In (n, c) h -> 1 <= c <= 15) /\
  NoDup (map snd h).

Lemma inv_init : inv [] mpe_init.
Proof.
  unfold inv, mpe_init; cbn. repeat split; try (intros H; contradiction || discriminate); try contradiction.
  constructor.
Qed.

Lemma in_fst {A B} (a : A) (b : B) l : In (a, b) l -> In a (map fst l).
Proof. intros H. apply in_map_iff. exists (a, b). auto. Qed.
Lemma in_snd {A B} (a : A) (b : B) l : In (a, b) l -> In b (map snd l).
Proof. intros H. apply in_map_iff. exists (a, b). auto. Qed.
Lemma in_map_fst {B} (a : Z) (l : list (Z * B)) : In a (map fst l) -> exists b, In (a, b) l.
Proof. intros H. apply in_map_iff in H as [[a' b] [E H]]. simpl in E. subst. eauto. Qed.
Lemma in_map_snd {A} (b : Z) (l : list (A * Z)) : In b (map snd l) -> exists a, In (a, b) l.
Proof. intros H. apply in_map_iff in H as [[a b'] [E H]]. simpl in E. subst. eauto. Qed.

Lemma mpe_channels_nodup : NoDup mpe_channels.
Proof.
  unfold mpe_channels, zrange. apply FinFun.Injective_map_NoDup; [|apply seq_NoDup].
  intros a b E. lia.
Qed.
Lemma mpe_channels_length : List.length mpe_channels = 15%nat.
Proof. reflexivity. Qed.
Lemma in_mpe_channels c : In c mpe_channels <-> 1 <= c <= 15.
Proof. unfold mpe_channels. rewrite in_zrange. lia. Qed.

(** fewer than 15 sounding notes: some member channel is free, and [next_channel] finds one *)
Lemma next_channel_some h s :
  inv h s -> (List.length h < 15)%nat ->
  exists c, next_channel s = Some c /\ 1 <= c <= 15 /\ chan_note s c = None.
Proof.
  intros [_ [I2 [_ ND]]] Hlen. unfold next_channel.
  destruct (find (is_free s) mpe_channels) as [c|] eqn:F.
  - apply find_some in F as [Hin Hfree]. exists c. split; [reflexivity|].
    split; [apply in_mpe_channels; exact Hin|].
    unfold is_free in Hfree. destruct (chan_note s c); [discriminate | reflexivity].
  - exfalso.
    assert (Hincl : incl mpe_channels (map snd h)).
    { intros c Hc. pose proof (find_none _ _ F c Hc) as Hb. unfold is_free in Hb.
      destruct (chan_note s c) as [n|] eqn:E; [|discriminate].
      apply (in_snd n c). apply I2. exact E. }
    pose proof (NoDup_incl_length mpe_channels_nodup Hincl) as L.
    rewrite mpe_channels_length, map_length in L. lia.
Qed.

Lemma upd_same f k v : upd f k v k = v.
Proof. unfold upd. rewrite Z.eqb_refl. reflexivity. Qed.
Lemma upd_other f k v x : x <> k -> upd f k v x = f x.
Proof. unfold upd. intros H. destruct (Z.eqb_spec x k); [contradiction | reflexivity]. Qed.

(** note_on *)
Lemma step_on h s n v :
  inv h s -> ~ In n (map fst h) -> (List.length h < 15)%nat ->
  exists c, mpe_step s (On n v)
            = (mkMpe (upd (note_chan s) n (Some c)) (upd (chan_note s) c (Some n)), Wire (NoteOn c n v))
         /\ 1 <= c <= 15 /\ ~ In c (map snd h)
         /\ inv ((n, c) :: h) (mkMpe (upd (note_chan s) n (Some c)) (upd (chan_note s) c (Some n))).
Proof.
  intros I Hn Hlen. destruct (next_channel_some h s I Hlen) as [c [F [Hc Hfree]]].
  destruct I as [I1 [I2 [I3 ND]]].
  assert (Hnc : ~ In c (map snd h)).
  { intros Hin. apply in_map_snd in Hin as [n' Hin]. apply I2 in Hin. congruence. }
  exists c. split; [cbn [mpe_step]; rewrite F; reflexivity|].
  split; [exact Hc|]. split; [exact Hnc|].
  unfold inv; cbn [note_chan chan_note]. repeat split.
  - intros [E|Hin].
    + inversion E; subst. apply upd_same.
    + destruct (Z.eq_dec n0 n) as [->|Hne]; [exfalso; apply Hn; eapply in_fst; eauto|].
      rewrite upd_other by exact Hne. apply I1. exact Hin.
  - intros E. destruct (Z.eq_dec n0 n) as [->|Hne].
    + rewrite upd_same in E. left. congruence.
    + rewrite upd_other in E by exact Hne. right. apply I1. exact E.
  - intros [E|Hin].
    + inversion E; subst. apply upd_same.
    + destruct (Z.eq_dec c0 c) as [->|Hne]; [exfalso; apply Hnc; eapply in_snd; eauto|].
      rewrite upd_other by exact Hne. apply I2. exact Hin.
  - intros E. destruct (Z.eq_dec c0 c) as [->|Hne].
    + rewrite upd_same in E. left. congruence.
    + rewrite upd_other in E by exact Hne. right. apply I2. exact E.
  - destruct H as [E|Hin]; [inversion E; subst; lia | apply (I3 _ _ Hin)].
  - destruct H as [E|Hin]; [inversion E; subst; lia | apply (I3 _ _ Hin)].
  - cbn [map snd]. constructor; assumption.
Qed.

Lemma in_remove_note n h a c : In (a, c) (remove_note n h) <-> In (a, c) h /\ a <> n.
Proof.
  unfold remove_note. rewrite filter_In. cbn [fst].
  destruct (Z.eqb_spec a n); cbn; intuition congruence.
Qed.

Lemma nodup_snd_filter (f : Z * Z -> bool) h : NoDup (map snd h) -> NoDup (map snd (filter f h)).
Proof.
  induction h as [|p h IH]; cbn; intros ND; [constructor|].
  inversion ND as [|x l Hx ND']; subst. destruct (f p); cbn.
  - constructor; [|apply IH; exact ND'].
    intros Hin. apply Hx. apply in_map_iff in Hin as [q [E Hq]]. apply filter_In in Hq as [Hq _].
    apply in_map_iff. exists q. auto.
  - apply IH. exact ND'.
Qed.

(** note_off *)
Lemma step_off h s n :
  inv h s -> In n (map fst h) ->
  exists c, mpe_step s (Off n)
            = (mkMpe (upd (note_chan s) n None) (upd (chan_note s) c None),
               Wire (NoteOff c n default_release_velocity))
         /\ In (n, c) h
         /\ inv (remove_note n h) (mkMpe (upd (note_chan s) n None) (upd (chan_note s) c None)).
Proof.
  intros [I1 [I2 [I3 ND]]] Hn. apply in_map_fst in Hn as [c Hc].
  pose proof (proj1 (I1 n c) Hc) as E1. exists c.
  split; [cbn [mpe_step]; rewrite E1; reflexivity|]. split; [exact Hc|].
  unfold inv; cbn [note_chan chan_note]. repeat split.
  - intros H. apply in_remove_note in H as [Hin Hne]. rewrite upd_other by exact Hne. apply I1. exact Hin.
  - intros E. destruct (Z.eq_dec n0 n) as [->|Hne]; [rewrite upd_same in E; discriminate|].
    rewrite upd_other in E by exact Hne. apply in_remove_note. split; [apply I1; exact E | exact Hne].
  - intros H. apply in_remove_note in H as [Hin Hne].
    destruct (Z.eq_dec c0 c) as [->|Hcne].
    + exfalso. apply Hne. apply I2 in Hin. apply I2 in Hc. congruence.
    + rewrite upd_other by exact Hcne. apply I2. exact Hin.
  - intros E. destruct (Z.eq_dec c0 c) as [->|Hcne]; [rewrite upd_same in E; discriminate|].
    rewrite upd_other in E by exact Hcne. apply I2 in E. apply in_remove_note. split; [exact E|].
    intros ->. apply I1 in E. congruence.
  - apply in_remove_note in H as [Hin _]. apply (I3 _ _ Hin).
  - apply in_remove_note in H as [Hin _]. apply (I3 _ _ Hin).
  - apply nodup_snd_filter. exact ND.
Qed.

(** per-note expression goes out on the note's channel *)
Lemma held_chan h s n : inv h s -> In n (map fst h) -> exists c, note_chan s n = Some c /\ In (n, c) h.
Proof.
  intros [I1 _] Hn. apply in_map_fst in Hn as [c Hc]. exists c. split; [apply I1; exact Hc | exact Hc].
Qed.

Lemma map_fst_remove_note n h : map fst (remove_note n h) = remove Z.eq_dec n (map fst h).
Proof.
  induction h as [|[a c] h IH]; [reflexivity|]. cbn [remove_note filter map fst remove].
  destruct (Z.eq_dec n a) as [->|Hne].
  - rewrite Z.eqb_refl. cbn [negb]. exact IH.
  - destruct (Z.eqb_spec a n) as [->|_]; [contradiction|]. cbn [negb map fst]. f_equal. exact IH.
Qed.

(** ---- the invariant carries the property through every well-formed call sequence ---- *)
Theorem mpe_run_ok : forall cs h s,
  inv h s -> mpe_wf (map fst h) cs -> mpe_trace_ok h cs (mpe_run s cs).
Proof.
  induction cs as [|c cs IH]; intros h s I W; [exact Logic.I|].
  destruct c as [n v | n | n x | n x | n k x]; cbn [mpe_wf] in W.
  - destruct W as [Hn [Hlen W]]. rewrite map_length in Hlen.
    destruct (step_on h s n v I Hn Hlen) as [c [E [Hc [Hnc I']]]].
    cbn [mpe_run]. rewrite E. cbn [mpe_trace_ok].
    repeat split; try lia; try assumption. apply IH; [exact I' | exact W].
  - destruct W as [Hn W].
    destruct (step_off h s n I Hn) as [c [E [Hc I']]].
    cbn [mpe_run]. rewrite E. cbn [mpe_trace_ok].
    repeat split; try assumption. apply IH; [exact I'|]. rewrite map_fst_remove_note. exact W.
  - destruct W as [Hn W]. destruct (held_chan h s n I Hn) as [c [E Hc]].
    cbn [mpe_run mpe_step]. rewrite E. cbn [mpe_trace_ok]. repeat split; try assumption. apply IH; assumption.
  - destruct W as [Hn W]. destruct (held_chan h s n I Hn) as [c [E Hc]].
    cbn [mpe_run mpe_step]. rewrite E. cbn [mpe_trace_ok]. repeat split; try assumption. apply IH; assumption.
  - destruct W as [Hn W]. destruct (held_chan h s n I Hn) as [c [E Hc]].
    cbn [mpe_run mpe_step]. rewrite E. cbn [mpe_trace_ok]. repeat split; try assumption. apply IH; assumption.
Qed.

(** the state reached by a well-formed sequence satisfies the invariant for some set of pairs
    whose notes are exactly the notes the calls left down *)
Fixpoint held_after (held : list Z) (cs : list mpe_call) : list Z :=
  match cs with
  | [] => held
  | On n _ :: r => held_after (n :: held) r
  | Off n :: r => held_after (remove Z.eq_dec n held) r
  | _ :: r => held_after held r
  end.

Theorem mpe_final_inv : forall cs h s,
  inv h s -> mpe_wf (map fst h) cs ->
  exists h', inv h' (mpe_final s cs) /\ map fst h' = held_after (map fst h) cs.
Proof.
  induction cs as [|c cs IH]; intros h s I W; [exists h; split; [exact I | reflexivity]|].
  destruct c as [n v | n | n x | n x | n k x]; cbn [mpe_wf] in W; cbn [mpe_final held_after].
  - destruct W as [Hn [Hlen W]]. rewrite map_length in Hlen.
    destruct (step_on h s n v I Hn Hlen) as [c [E [Hc [Hnc I']]]]. rewrite E. cbn [fst].
    apply (IH _ _ I' W).
  - destruct W as [Hn W]. destruct (step_off h s n I Hn) as [c [E [Hc I']]]. rewrite E. cbn [fst].
    rewrite <- map_fst_remove_note. apply (IH _ _ I'). rewrite map_fst_remove_note. exact W.
  - destruct W as [Hn W]. cbn [mpe_step]. destruct (note_chan s n); cbn [fst]; apply (IH _ _ I W).
  - destruct W as [Hn W]. cbn [mpe_step]. destruct (note_chan s n); cbn [fst]; apply (IH _ _ I W).
  - destruct W as [Hn W]. cbn [mpe_step]. destruct (note_chan s n); cbn [fst]; apply (IH _ _ I W).
Qed.

(** consequences of the invariant, read off the dictionaries *)
Lemma inv_distinct h s n1 n2 c :
  inv h s -> note_chan s n1 = Some c -> note_chan s n2 = Some c -> n1 = n2.
Proof.
  intros [I1 [I2 _]] H1 H2. apply I1 in H1. apply I1 in H2. apply I2 in H1. apply I2 in H2. congruence.
Qed.
Lemma inv_range h s n c : inv h s -> note_chan s n = Some c -> 1 <= c <= 15.
Proof. intros [I1 [_ [I3 _]]] H. apply I1 in H. apply (I3 _ _ H). Qed.
Lemma inv_held h s n : inv h s -> (In n (map fst h) <-> note_chan s n <> None).
Proof.
  intros [I1 _]. split.
  - intros H. apply in_map_fst in H as [c Hc]. apply I1 in Hc. congruence.
  - intros H. destruct (note_chan s n) as [c|] eqn:E; [|contradiction]. apply I1 in E. eapply in_fst; eauto.
Qed.

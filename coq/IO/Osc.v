(* IO/Osc.v — model of the datagram an OSCOutputDevice sends (isobar/io/osc/output.py).

   The device hands an address and an argument list to python-osc's
   SimpleUDPClient.send_message(address, args), which emits one OSC 1.0 message:
       OSC-string address ++ OSC-string ("," ++ type tags) ++ arguments
   OSC-string: the bytes, then 1..4 NUL bytes up to the next multiple of 4.
   int32: big-endian two's complement, tag 'i'; float32: 4 bytes big-endian IEEE-754, tag 'f'
   (the model carries the 4 payload bytes, which the harness obtains with struct.pack('>f', x));
   string: OSC-string, tag 's'.
   Bytes are Z in 0..255; strings/addresses are lists of non-zero bytes.  No proofs here. *)
From Isobar Require Import Base.Prelude.
Open Scope Z_scope.

Inductive osc_arg : Type :=
| OInt (z : Z)
| OFloat (b0 b1 b2 b3 : Z)
| OStr (s : list Z).

(** int32 range python-osc tags 'i' (bit_length <= 31); larger ints are sent as int64 'h',
    outside this model *)
Definition is_int32 (z : Z) : bool := (-2147483648 <? z) && (z <? 2147483648).
Definition nonzero_bytes (s : list Z) : bool := forallb (fun b => negb (b =? 0)) s.
Definition arg_ok (a : osc_arg) : bool :=
  match a with
  | OInt z => is_int32 z
  | OFloat _ _ _ _ => true
  | OStr s => nonzero_bytes s
  end.

(** ---- encoder ---- *)
Definition pad_len (n : nat) : nat := (4 - Nat.modulo n 4)%nat.
Definition osc_string (s : list Z) : list Z := s ++ repeat 0 (pad_len (List.length s)).

Definition be32 (z : Z) : list Z :=
  let u := z mod 4294967296 in
  [u / 16777216; (u / 65536) mod 256; (u / 256) mod 256; u mod 256].

Definition tag_of (a : osc_arg) : Z :=
  match a with OInt _ => 105 | OFloat _ _ _ _ => 102 | OStr _ => 115 end.

Definition enc_arg (a : osc_arg) : list Z :=
  match a with
  | OInt z => be32 z
  | OFloat b0 b1 b2 b3 => [b0; b1; b2; b3]
  | OStr s => osc_string s
  end.

Definition osc_encode (addr : list Z) (args : list osc_arg) : list Z :=
  osc_string addr ++ osc_string (44 :: map tag_of args) ++ concat (map enc_arg args).

(** ---- decoder (from the OSC 1.0 specification) ---- *)
Fixpoint take_nz (l : list Z) : list Z :=
  match l with
  | [] => []
  | b :: r => if b =? 0 then [] else b :: take_nz r
  end.

(** read one OSC-string: the bytes before the first NUL, then skip to the 4-byte boundary;
    fails when the input ends before the boundary or a pad byte is not NUL *)
Definition read_string (l : list Z) : option (list Z * list Z) :=
  let s := take_nz l in
  let n := List.length s in
  let total := (n + pad_len n)%nat in
  if (List.length l <? total)%nat then None
  else if forallb (fun b => b =? 0) (firstn (pad_len n) (skipn n l))
       then Some (s, skipn total l) else None.

Definition from_be32 (b0 b1 b2 b3 : Z) : Z :=
  let u := b0 * 16777216 + b1 * 65536 + b2 * 256 + b3 in
  if u <? 2147483648 then u else u - 4294967296.

Fixpoint read_args (tags : list Z) (l : list Z) : option (list osc_arg) :=
  match tags with
  | [] => match l with [] => Some [] | _ => None end
  | t :: ts =>
      if t =? 105 then
        match l with
        | b0 :: b1 :: b2 :: b3 :: r =>
            match read_args ts r with Some a => Some (OInt (from_be32 b0 b1 b2 b3) :: a) | None => None end
        | _ => None
        end
      else if t =? 102 then
        match l with
        | b0 :: b1 :: b2 :: b3 :: r =>
            match read_args ts r with Some a => Some (OFloat b0 b1 b2 b3 :: a) | None => None end
        | _ => None
        end
      else if t =? 115 then
        match read_string l with
        | Some (s, r) => match read_args ts r with Some a => Some (OStr s :: a) | None => None end
        | None => None
        end
      else None
  end.

Definition osc_decode (l : list Z) : option (list Z * list osc_arg) :=
  match read_string l with
  | Some (addr, r1) =>
      match read_string r1 with
      | Some (44 :: tags, r2) =>
          match read_args tags r2 with Some args => Some (addr, args) | None => None end
      | _ => None
      end
  | None => None
  end.

(** ---- the device (isobar/io/osc/output.py; the forms of the class docstring) ----
    /note [ note, velocity, channel ]      /control [ control, value, channel ]
    note_off is a /note with velocity 0.  Arguments go out with the type they were given as
    (int -> 'i', float -> 'f'): OSC carries floats, nothing is truncated. *)
Definition addr_note : list Z := [47; 110; 111; 116; 101].                      (* "/note" *)
Definition addr_control : list Z := [47; 99; 111; 110; 116; 114; 111; 108].    (* "/control" *)

Definition osc_msg : Type := (list Z * list osc_arg)%type.
Definition osc_note_on (note vel ch : osc_arg) : osc_msg := (addr_note, [note; vel; ch]).
Definition osc_note_off (note ch : osc_arg) : osc_msg := (addr_note, [note; OInt 0; ch]).
Definition osc_control (ctl val ch : osc_arg) : osc_msg := (addr_control, [ctl; val; ch]).
(* send(address, params): params None or a list of already-resolved values *)
Definition osc_send (addr : list Z) (params : option (list osc_arg)) : osc_msg :=
  (addr, match params with Some ps => ps | None => [] end).

Definition osc_wire (m : osc_msg) : list Z := osc_encode (fst m) (snd m).

(** ---- comparison helpers for the correspondence check ---- *)
Definition zl_eqb := list_eqb Z.eqb.
Definition arg_eqb (a b : osc_arg) : bool :=
  match a, b with
  | OInt x, OInt y => x =? y
  | OFloat a0 a1 a2 a3, OFloat b0 b1 b2 b3 => (a0 =? b0) && (a1 =? b1) && (a2 =? b2) && (a3 =? b3)
  | OStr s, OStr t => zl_eqb s t
  | _, _ => false
  end.
Definition osc_msg_eqb (a b : osc_msg) : bool :=
  zl_eqb (fst a) (fst b) && list_eqb arg_eqb (snd a) (snd b).

(** the captured datagram is exactly the encoding of the request AND the Coq decoder recovers the
    request from it *)
Definition dgram_agrees (m : osc_msg) (dgram : list Z) : bool :=
  zl_eqb (osc_wire m) dgram
  && match osc_decode dgram with Some m' => osc_msg_eqb m m' | None => false end.

(* IO/ReaderHistory.v — MidiFileInputDevice objects that live across several reads while the files they point at
   are rewritten: histories `write m1; read; write m2; read ...` on reader objects created once.  No proofs here.

   Python (isobar/io/midifile/input.py):

       class MidiFileInputDevice:
           def __init__(self, filename): self.filename = filename          # the ONLY state of the object
           def read(self, quantize=None):
               midi_reader = mido.MidiFile(self.filename)                   # the file is opened and parsed by EVERY read
               ... (scan, see IO/MidiFile.v) ...
               for note in notes:
                   if quantize:
                       note.location = round(note.location / quantize) * quantize
                       note.duration = round(note.duration / quantize) * quantize
               ... (grouping, see IO/MidiFile.v) ...

   The file system is a map from paths (numbers) to what mido parses from the file at that path (a list of tracks)
   or nothing (no such file: mido raises FileNotFoundError).  A reader object is its path.  A history is a list of
   operations: a file is (re)written — by isobar's writer or by anything else —, removed, or read through the reader
   object of that path with a `quantize` value (in ticks; 0 = None/0 = no quantisation).

   `read()` with quantize: Python's round() is round-half-to-even; `rhe a q` is that rounding of a/q in exact
   arithmetic (the harness reads with `quantize` only where location/quantize is an exactly representable float or
   no tie is within reach, see docs/C16.md). *)
From Isobar Require Import Base.Prelude IO.MidiFile.

(** round(a / q), ties to even; q > 0 *)
Definition rhe (a q : Z) : Z :=
  let k := a / q in let r := a mod q in
  if 2 * r <? q then k else if q <? 2 * r then k + 1 else if Z.even k then k else k + 1.

Definition qz (q x : Z) : Z := rhe x q * q.

(** for note in notes: if quantize: location, duration := round(x / quantize) * quantize.
    (An unreleased note reaches `None / quantize`: TypeError, as the `%.3f` format without quantize — RUnterminated.) *)
Definition qnote (q : Z) (n : note) : note :=
  mkNote (n_pitch n) (n_vel n) (qz q (n_loc n)) (option_map (qz q) (n_dur n)).
Definition qnotes (q : Z) (ns : list note) : list note := if 0 <? q then map (qnote q) ns else ns.

Definition read_track_q (q : Z) (ms : list tmsg) : routcome := read_notes (qnotes q (scan ms 0 [])).
Definition read_file_q (q : Z) (tracks : list (list tmsg)) : routcome :=
  match find (existsb is_note_on) tracks with
  | Some tr => read_track_q q tr
  | None => RNoNoteTrack
  end.

(** ---- the file system and the history ---- *)
Definition content := list (list tmsg).
Definition fs := Z -> option content.
Definition fs_empty : fs := fun _ => None.
Definition fs_set (f : fs) (p : Z) (c : option content) : fs := fun p' => if p' =? p then c else f p'.

Inductive hop :=
| HWrite (p : Z) (c : content)        (* any program writes the file at path p (mido.MidiFile.save, a DAW ...) *)
| HSave (p : Z) (es : list event)     (* isobar writes a note/chord/rest sequence to path p (PDict.save / file device) *)
| HRemove (p : Z)                     (* the file is deleted *)
| HRead (p : Z) (q : Z).              (* reader_p.read(quantize = q ticks) on the reader object created for path p *)

(** the state of a reader object: its filename — `read` has no other state to consult or to update *)
Definition reader := Z.
Definition reader_read (r : reader) (f : fs) (q : Z) : option routcome * reader :=
  (option_map (read_file_q q) (f r), r).        (* None: FileNotFoundError *)

(** one operation: new file system, and the outcome if it was a read *)
Definition hop_step (f : fs) (o : hop) : fs * option (option routcome) :=
  match o with
  | HWrite p c => (fs_set f p (Some c), None)
  | HSave p es => (fs_set f p (Some [file_of_events es]), None)
  | HRemove p => (fs_set f p None, None)
  | HRead p q => (f, Some (fst (reader_read p f q)))
  end.

(** a history: the outcomes of its reads, in order *)
Fixpoint hist_run (f : fs) (ops : list hop) : list (option routcome) :=
  match ops with
  | [] => []
  | o :: r =>
      let '(f', out) := hop_step f o in
      match out with
      | Some x => x :: hist_run f' r
      | None => hist_run f' r
      end
  end.

Fixpoint fs_after (f : fs) (ops : list hop) : fs :=
  match ops with
  | [] => f
  | o :: r => fs_after (fst (hop_step f o)) r
  end.

Definition touches (p : Z) (o : hop) : bool :=
  match o with
  | HWrite p' _ | HSave p' _ | HRemove p' => p' =? p
  | HRead _ _ => false
  end.
Definition is_read (o : hop) : bool := match o with HRead _ _ => true | _ => false end.

(** ---- harness encodings ---- *)
Definition oroutcome_eqb (a b : option routcome) : bool :=
  match a, b with
  | None, None => true
  | Some x, Some y => routcome_eqb x y
  | _, _ => false
  end.
Definition hist_ok (ops : list hop) (expected : list (option routcome)) : bool :=
  list_eqb oroutcome_eqb (hist_run fs_empty ops) expected.

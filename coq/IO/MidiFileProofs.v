(* IO/MidiFileProofs.v — lemmas about the MIDI-file writer / reader model (property C16). *)
From Isobar Require Import Base.Prelude IO.MidiFile.

(* ------------------------------------------------------------------------------------------ *)
(** * Writer *)

Lemma dev_write_run : forall ops d,
  dev_write (dev_run ops d)
  = rev (d_track d) ++ encode (d_last d) (timed_calls (d_time d) ops) (d_time d + count_ticks ops).
Proof.
  induction ops as [|o r IH]; intros d.
  - unfold dev_write, dev_emit. cbn. rewrite Z.add_0_r. reflexivity.
  - destruct o; cbn [dev_run fold_left dev_step timed_calls count_ticks].
    + change (fold_left dev_step r ?x) with (dev_run r x). rewrite IH. cbn [d_time d_last d_track].
      replace (d_time d + 1 + count_ticks r) with (d_time d + (1 + count_ticks r)) by lia. reflexivity.
    + change (fold_left dev_step r ?x) with (dev_run r x). rewrite IH. unfold dev_emit. cbn [d_time d_last d_track rev encode].
      rewrite <- app_assoc. reflexivity.
    + change (fold_left dev_step r ?x) with (dev_run r x). rewrite IH. unfold dev_emit. cbn [d_time d_last d_track rev encode].
      rewrite <- app_assoc. reflexivity.
Qed.

Lemma write_file_encode : forall ops, write_file ops = encode 0 (timed_calls 0 ops) (count_ticks ops).
Proof. intros. unfold write_file. rewrite dev_write_run. reflexivity. Qed.

Lemma absolute_encode : forall calls last tend,
  absolute last (encode last calls tend) = calls ++ [(tend, NoteOff 0 0)].
Proof.
  induction calls as [|[t m] r IH]; intros last tend; cbn [encode absolute app].
  - replace (last + (tend - last)) with tend by lia. reflexivity.
  - replace (last + (t - last)) with t by lia. rewrite IH. reflexivity.
Qed.

Lemma sumd_encode : forall calls last tend, sumd (encode last calls tend) = tend - last.
Proof.
  induction calls as [|[t m] r IH]; intros last tend; unfold sumd; cbn [encode fold_right fst].
  - lia.
  - change (fold_right (fun dm a => fst dm + a) 0 (encode t r tend)) with (sumd (encode t r tend)).
    rewrite IH. lia.
Qed.

Lemma sumd_app : forall a b, sumd (a ++ b) = sumd a + sumd b.
Proof.
  induction a as [|x a IH]; intros b; [reflexivity|].
  change (sumd ((x :: a) ++ b)) with (fst x + sumd (a ++ b)). change (sumd (x :: a)) with (fst x + sumd a).
  rewrite IH. lia.
Qed.

Lemma absolute_app : forall a b t0, absolute t0 (a ++ b) = absolute t0 a ++ absolute (t0 + sumd a) b.
Proof.
  induction a as [|[d m] a IH]; intros b t0; cbn [app absolute].
  - unfold sumd; cbn. rewrite Z.add_0_r. reflexivity.
  - rewrite IH. unfold sumd at 2. cbn [fold_right fst]. fold (sumd a).
    replace (t0 + d + sumd a) with (t0 + (d + sumd a)) by lia. reflexivity.
Qed.

(* ------------------------------------------------------------------------------------------ *)
(** * Reader: the scanning loop *)

Definition steps (ms : list tmsg) (acc : list note) : list note :=
  fold_left (fun a tm => note_step (fst tm) (snd tm) a) ms acc.

Lemma scan_abs_steps : forall ms acc, scan_abs ms acc = rev (steps ms acc).
Proof. induction ms as [|[t m] r IH]; intros acc; cbn; [reflexivity|]. apply IH. Qed.

Lemma scan_absolute : forall ms off acc, scan ms off acc = scan_abs (absolute off ms) acc.
Proof. induction ms as [|[d m] r IH]; intros off acc; cbn; [reflexivity|]. apply IH. Qed.

Lemma steps_app : forall a b acc, steps (a ++ b) acc = steps b (steps a acc).
Proof. intros. unfold steps. apply fold_left_app. Qed.

Definition nkey (n : note) : Z * Z * Z := (n_pitch n, n_vel n, n_loc n).

(* sounding note_ons of an absolute-timed message list: (pitch, velocity, tick) *)
Definition ons_of (am : list tmsg) : list (Z * Z * Z) :=
  flat_map (fun tm => match snd tm with
                      | NoteOn _ p v => if 0 <? v then [(p, v, fst tm)] else []
                      | _ => [] end) am.

Lemma close_first_key : forall p off l, map nkey (close_first p off l) = map nkey l.
Proof.
  induction l as [|n r IH]; cbn; [reflexivity|].
  destruct ((n_pitch n =? p) && is_open n); cbn; [reflexivity|]. rewrite IH. reflexivity.
Qed.

Lemma close_first_length : forall p off l, List.length (close_first p off l) = List.length l.
Proof. intros. rewrite <- (map_length nkey), close_first_key, map_length. reflexivity. Qed.

Lemma steps_keys : forall am acc, map nkey (rev (steps am acc)) = map nkey (rev acc) ++ ons_of am.
Proof.
  induction am as [|[t m] r IH]; intros acc; cbn [steps fold_left ons_of flat_map fst snd].
  - rewrite app_nil_r. reflexivity.
  - change (fold_left _ r ?x) with (steps r x). rewrite IH. fold (ons_of r).
    destruct m as [c p v|c p|k]; cbn [note_step].
    + destruct (0 <? v) eqn:Ev.
      * cbn [rev]. rewrite map_app. cbn [map nkey n_pitch n_vel n_loc]. rewrite <- app_assoc. reflexivity.
      * destruct (v =? 0); cbn [app]; [|reflexivity].
        rewrite !map_rev, close_first_key. reflexivity.
    + rewrite !map_rev, close_first_key. reflexivity.
    + reflexivity.
Qed.

(* a message that neither starts nor releases pitch p *)
Definition about (p : Z) (m : msg) : bool :=
  match m with NoteOn _ q _ => q =? p | NoteOff _ q => q =? p | Other _ => false end.
Definition is_release (p : Z) (m : msg) : bool :=
  match m with NoteOn _ q v => (q =? p) && (v =? 0) | NoteOff _ q => q =? p | Other _ => false end.
Definition sounding_on (tm : tmsg) : bool :=
  match snd tm with NoteOn _ _ v => 0 <? v | _ => false end.
Definition count_ons (ms : list tmsg) : nat := List.length (filter sounding_on ms).

Lemma steps_length : forall am acc, List.length (steps am acc) = (List.length acc + count_ons am)%nat.
Proof.
  induction am as [|[t m] r IH]; intros acc; cbn [steps fold_left].
  - unfold count_ons; cbn. lia.
  - change (fold_left _ r ?x) with (steps r x). rewrite IH. unfold count_ons.
    destruct m as [c p v|c p|k]; cbn [note_step fst snd filter]; unfold sounding_on at 2; cbn [snd].
    + destruct (0 <? v); cbn [List.length]; [lia|]. destruct (v =? 0); rewrite ?close_first_length; lia.
    + rewrite close_first_length. lia.
    + lia.
Qed.

Lemma count_ons_absolute : forall ms t0, count_ons (absolute t0 ms) = count_ons ms.
Proof.
  unfold count_ons. induction ms as [|[d m] r IH]; intros t0; [reflexivity|].
  cbn [absolute filter]. change (sounding_on (t0 + d, m)) with (sounding_on (d, m)).
  destruct (sounding_on (d, m)); cbn [List.length]; rewrite IH; reflexivity.
Qed.

Lemma in_absolute_snd : forall ms t0 tm, In tm (absolute t0 ms) -> exists d, In (d, snd tm) ms.
Proof.
  induction ms as [|[d m] r IH]; intros t0 tm Hin; cbn in Hin; [tauto|].
  destruct Hin as [<-|Hin]; [exists d; left; reflexivity|].
  destruct (IH _ _ Hin) as [d' H]. exists d'. right; exact H.
Qed.

(* a note that close_first q does not touch stays where it is *)
Lemma close_first_keep : forall q off n older newer,
  (n_pitch n =? q) && is_open n = false ->
  exists newer' older', close_first q off (newer ++ n :: older) = newer' ++ n :: older'
     /\ List.length older' = List.length older /\ map n_pitch newer' = map n_pitch newer.
Proof.
  intros q off n older newer Hn. induction newer as [|x newer IH]; cbn [app close_first].
  - rewrite Hn. exists [], (close_first q off older). rewrite close_first_length. auto.
  - destruct ((n_pitch x =? q) && is_open x).
    + exists (mkNote (n_pitch x) (n_vel x) (n_loc x) (Some (off - n_loc x)) :: newer), older. auto.
    + destruct IH as [nw [ol [E [L P]]]]. exists (x :: nw), ol. rewrite E. cbn [map]. rewrite P. auto.
Qed.

Lemma note_step_keep : forall t m n older newer,
  (forall q, about q m = true -> (n_pitch n =? q) && is_open n = false) ->
  exists newer' older', note_step t m (newer ++ n :: older) = newer' ++ n :: older'
     /\ List.length older' = List.length older
     /\ (forall p, ~ In p (map n_pitch newer) -> about p m = false -> ~ In p (map n_pitch newer')).
Proof.
  intros t m n older newer H.
  assert (K : forall q, about q m = true ->
     exists newer' older', close_first q t (newer ++ n :: older) = newer' ++ n :: older'
     /\ List.length older' = List.length older
     /\ (forall p, ~ In p (map n_pitch newer) -> about p m = false -> ~ In p (map n_pitch newer'))).
  { intros q Hq. destruct (close_first_keep q t n older newer (H q Hq)) as [nw [ol [E [L P]]]].
    exists nw, ol. rewrite P. auto. }
  destruct m as [c p v|c p|k]; cbn [note_step].
  - destruct (0 <? v).
    + exists (mkNote p v t None :: newer), older. split; [reflexivity|]. split; [reflexivity|].
      intros p' Hp Ha [E|I]; [|auto]. cbn in E, Ha. lia.
    + destruct (v =? 0); [apply K; cbn; lia|]. exists newer, older. auto.
  - apply K; cbn; lia.
  - exists newer, older. auto.
Qed.

Lemma steps_keep : forall ms n older newer,
  (forall tm q, In tm ms -> about q (snd tm) = true -> (n_pitch n =? q) && is_open n = false) ->
  exists newer' older', steps ms (newer ++ n :: older) = newer' ++ n :: older'
     /\ List.length older' = List.length older
     /\ (forall p, ~ In p (map n_pitch newer) -> (forall tm, In tm ms -> about p (snd tm) = false) -> ~ In p (map n_pitch newer')).
Proof.
  induction ms as [|[t m] r IH]; intros n older newer H.
  - exists newer, older. auto.
  - cbn [steps fold_left fst snd]. change (fold_left _ r ?x) with (steps r x).
    destruct (note_step_keep t m n older newer) as [nw [ol [E [L P]]]].
    { intros q Hq. apply (H (t, m) q); [left; reflexivity|exact Hq]. }
    rewrite E. destruct (IH n ol nw) as [nw2 [ol2 [E2 [L2 P2]]]].
    { intros tm q Hin. apply H. right; exact Hin. }
    exists nw2, ol2. split; [exact E2|]. split; [lia|].
    intros p Hp Hall. apply P2.
    + apply P; [exact Hp|]. apply (Hall (t, m)). left; reflexivity.
    + intros tm Hin. apply Hall. right; exact Hin.
Qed.

Lemma close_first_hit : forall p off n older newer,
  ~ In p (map n_pitch newer) -> n_pitch n = p -> is_open n = true ->
  close_first p off (newer ++ n :: older)
  = newer ++ mkNote (n_pitch n) (n_vel n) (n_loc n) (Some (off - n_loc n)) :: older.
Proof.
  intros p off n older newer Hnot Hp Ho. induction newer as [|x newer IH]; cbn [app close_first].
  - rewrite Ho. replace (n_pitch n =? p) with true by lia. reflexivity.
  - cbn [map In] in Hnot. replace (n_pitch x =? p) with false by lia. cbn [andb].
    rewrite IH; [reflexivity|tauto].
Qed.

(* the main reader lemma: a note_on (velocity > 0) followed, with no message about the same pitch in
   between, by a release of that pitch *)
Lemma scan_note : forall pre d c p v mid d' rel post,
  0 < v -> is_release p rel = true ->
  (forall tm, In tm mid -> about p (snd tm) = false) ->
  nth_error (scan (pre ++ (d, NoteOn c p v) :: mid ++ (d', rel) :: post) 0 []) (count_ons pre)
  = Some (mkNote p v (sumd pre + d) (Some (sumd mid + d'))).
Proof.
  intros pre d c p v mid d' rel post Hv Hrel Hmid.
  rewrite scan_absolute, scan_abs_steps.
  rewrite absolute_app. cbn [absolute]. rewrite absolute_app. cbn [absolute].
  rewrite steps_app. cbn [steps fold_left fst snd note_step].
  replace (0 <? v) with true by lia.
  change (fold_left _ ?l ?x) with (steps l x).
  set (acc1 := steps (absolute 0 pre) []).
  assert (L1 : List.length acc1 = count_ons pre).
  { unfold acc1. rewrite steps_length. cbn [List.length]. apply count_ons_absolute. }
  set (T := 0 + sumd pre + d).
  set (n := mkNote p v T None).
  rewrite steps_app. cbn [steps fold_left fst snd]. change (fold_left _ ?l ?x) with (steps l x).
  destruct (steps_keep (absolute T mid) n acc1 []) as [nw [ol [E [L P]]]].
  { intros tm q Hin Ha. cbn [n n_pitch is_open n_dur].
    assert (about p (snd tm) = false).
    { destruct (in_absolute_snd _ _ _ Hin) as [dd Hdd]. apply (Hmid _ Hdd). }
    destruct (snd tm); cbn in *; lia. }
  cbn [app] in E. rewrite E.
  assert (Hnw : ~ In p (map n_pitch nw)).
  { apply P; [cbn; tauto|]. intros tm Hin.
    destruct (in_absolute_snd _ _ _ Hin) as [dd Hdd]. apply (Hmid _ Hdd). }
  set (T2 := T + sumd mid + d').
  assert (Hstep : note_step T2 rel (nw ++ n :: ol)
                  = nw ++ mkNote p v T (Some (T2 - T)) :: ol).
  { destruct rel as [c' q v'|c' q|k]; cbn in Hrel; try discriminate.
    - cbn [note_step]. replace (0 <? v') with false by lia. replace (v' =? 0) with true by lia.
      replace q with p by lia. apply (close_first_hit p T2 n ol nw Hnw); reflexivity.
    - cbn [note_step]. replace q with p by lia. apply (close_first_hit p T2 n ol nw Hnw); reflexivity. }
  rewrite Hstep.
  set (nc := mkNote p v T (Some (T2 - T))).
  destruct (steps_keep (absolute T2 post) nc ol nw) as [nw3 [ol3 [E3 [L3 _]]]].
  { intros tm q _ _. cbn. apply andb_false_r. }
  rewrite E3. rewrite rev_app_distr. cbn [rev]. rewrite <- app_assoc. cbn [app].
  rewrite nth_error_app2; rewrite rev_length; [|lia].
  replace (count_ons pre - List.length ol3)%nat with 0%nat by lia. cbn.
  unfold nc, T2, T.
  replace (0 + sumd pre + d + sumd mid + d' - (0 + sumd pre + d)) with (sumd mid + d') by lia.
  replace (0 + sumd pre + d) with (sumd pre + d) by lia. reflexivity.
Qed.

(* a non-note message only shifts what follows it by its delta *)
Lemma scan_other : forall pre d k d' m post,
  scan (pre ++ (d, Other k) :: (d', m) :: post) 0 [] = scan (pre ++ (d + d', m) :: post) 0 [].
Proof.
  intros. rewrite !scan_absolute, !scan_abs_steps, !absolute_app. cbn [absolute].
  rewrite !steps_app. cbn [steps fold_left fst snd]. cbn [note_step].
  replace (0 + sumd pre + d + d') with (0 + sumd pre + (d + d')) by lia. reflexivity.
Qed.
Lemma scan_other_last : forall pre d k, scan (pre ++ [(d, Other k)]) 0 [] = scan pre 0 [].
Proof.
  intros. rewrite !scan_absolute, !scan_abs_steps, !absolute_app. cbn [absolute].
  rewrite !steps_app. reflexivity.
Qed.

(* IO/MidiFileProofs.v — lemmas about the MIDI-file writer / reader model (property C16). *)
From Isobar Require Import Base.Prelude IO.MidiFile.

(* ------------------------------------------------------------------------------------------ *)
(** * Writer *)

Lemma dev_write_run : forall ops d,
  dev_write (dev_run ops d)
  = rev (d_track d) ++ encode (d_last d) (timed_calls (d_time d) ops) (d_time d + count_ticks ops).
Proof.
  induction ops as [|o r IH]; intros d.
  - unfold dev_write, dev_emit. cbn. rewrite Z.add_0_r. reflexivity.
  - destruct o; cbn [dev_run fold_left dev_step timed_calls count_ticks].
    + change (fold_left dev_step r ?x) with (dev_run r x). rewrite IH. cbn [d_time d_last d_track].
      replace (d_time d + 1 + count_ticks r) with (d_time d + (1 + count_ticks r)) by lia. reflexivity.
    + change (fold_left dev_step r ?x) with (dev_run r x). rewrite IH. unfold dev_emit. cbn [d_time d_last d_track rev encode].
      rewrite <- app_assoc. reflexivity.
    + change (fold_left dev_step r ?x) with (dev_run r x). rewrite IH. unfold dev_emit. cbn [d_time d_last d_track rev encode].
      rewrite <- app_assoc. reflexivity.
Qed.

Lemma write_file_encode : forall ops, write_file ops = encode 0 (timed_calls 0 ops) (count_ticks ops).
Proof. intros. unfold write_file. rewrite dev_write_run. reflexivity. Qed.

Lemma absolute_encode : forall calls last tend,
  absolute last (encode last calls tend) = calls ++ [(tend, NoteOff 0 0)].
Proof.
  induction calls as [|[t m] r IH]; intros last tend; cbn [encode absolute app].
  - replace (last + (tend - last)) with tend by lia. reflexivity.
  - replace (last + (t - last)) with t by lia. rewrite IH. reflexivity.
Qed.

Lemma sumd_encode : forall calls last tend, sumd (encode last calls tend) = tend - last.
Proof.
  induction calls as [|[t m] r IH]; intros last tend; unfold sumd; cbn [encode fold_right fst].
  - lia.
  - change (fold_right (fun dm a => fst dm + a) 0 (encode t r tend)) with (sumd (encode t r tend)).
    rewrite IH. lia.
Qed.

Lemma sumd_app : forall a b, sumd (a ++ b) = sumd a + sumd b.
Proof.
  induction a as [|x a IH]; intros b; [reflexivity|].
  change (sumd ((x :: a) ++ b)) with (fst x + sumd (a ++ b)). change (sumd (x :: a)) with (fst x + sumd a).
  rewrite IH. lia.
Qed.

Lemma absolute_app : forall a b t0, absolute t0 (a ++ b) = absolute t0 a ++ absolute (t0 + sumd a) b.
Proof.
  induction a as [|[d m] a IH]; intros b t0; cbn [app absolute].
  - unfold sumd; cbn. rewrite Z.add_0_r. reflexivity.
  - rewrite IH. unfold sumd at 2. cbn [fold_right fst]. fold (sumd a).
    replace (t0 + d + sumd a) with (t0 + (d + sumd a)) by lia. reflexivity.
Qed.

(* ------------------------------------------------------------------------------------------ *)
(** * Reader: the scanning loop *)

Definition steps (ms : list tmsg) (acc : list note) : list note :=
  fold_left (fun a tm => note_step (fst tm) (snd tm) a) ms acc.

Lemma scan_abs_steps : forall ms acc, scan_abs ms acc = rev (steps ms acc).
Proof. induction ms as [|[t m] r IH]; intros acc; cbn; [reflexivity|]. apply IH. Qed.

Lemma scan_absolute : forall ms off acc, scan ms off acc = scan_abs (absolute off ms) acc.
Proof. induction ms as [|[d m] r IH]; intros off acc; cbn; [reflexivity|]. apply IH. Qed.

Lemma steps_app : forall a b acc, steps (a ++ b) acc = steps b (steps a acc).
Proof. intros. unfold steps. apply fold_left_app. Qed.

Definition nkey (n : note) : Z * Z * Z := (n_pitch n, n_vel n, n_loc n).

(* sounding note_ons of an absolute-timed message list: (pitch, velocity, tick) *)
Definition ons_of (am : list tmsg) : list (Z * Z * Z) :=
  flat_map (fun tm => match snd tm with
                      | NoteOn _ p v => if 0 <? v then [(p, v, fst tm)] else []
                      | _ => [] end) am.

Lemma close_first_key : forall p off l, map nkey (close_first p off l) = map nkey l.
Proof.
  induction l as [|n r IH]; cbn; [reflexivity|].
  destruct ((n_pitch n =? p) && is_open n); cbn; [reflexivity|]. rewrite IH. reflexivity.
Qed.

Lemma close_first_length : forall p off l, List.length (close_first p off l) = List.length l.
Proof. intros. rewrite <- (map_length nkey), close_first_key, map_length. reflexivity. Qed.

Lemma steps_keys : forall am acc, map nkey (rev (steps am acc)) = map nkey (rev acc) ++ ons_of am.
Proof.
  induction am as [|[t m] r IH]; intros acc; cbn [steps fold_left ons_of flat_map fst snd].
  - rewrite app_nil_r. reflexivity.
  - change (fold_left _ r ?x) with (steps r x). rewrite IH. fold (ons_of r).
    destruct m as [c p v|c p|k]; cbn [note_step].
    + destruct (0 <? v) eqn:Ev.
      * cbn [rev]. rewrite map_app. cbn [map nkey n_pitch n_vel n_loc]. rewrite <- app_assoc. reflexivity.
      * destruct (v =? 0); cbn [app]; [|reflexivity].
        rewrite !map_rev, close_first_key. reflexivity.
    + rewrite !map_rev, close_first_key. reflexivity.
    + reflexivity.
Qed.

(* a message that neither starts nor releases pitch p *)
Definition about (p : Z) (m : msg) : bool :=
  match m with NoteOn _ q _ => q =? p | NoteOff _ q => q =? p | Other _ => false end.
Definition is_release (p : Z) (m : msg) : bool :=
  match m with NoteOn _ q v => (q =? p) && (v =? 0) | NoteOff _ q => q =? p | Other _ => false end.
Definition sounding_on (tm : tmsg) : bool :=
  match snd tm with NoteOn _ _ v => 0 <? v | _ => false end.
Definition count_ons (ms : list tmsg) : nat := List.length (filter sounding_on ms).

Lemma steps_length : forall am acc, List.length (steps am acc) = (List.length acc + count_ons am)%nat.
Proof.
  induction am as [|[t m] r IH]; intros acc; cbn [steps fold_left].
  - unfold count_ons; cbn. lia.
  - change (fold_left _ r ?x) with (steps r x). rewrite IH. unfold count_ons.
    destruct m as [c p v|c p|k]; cbn [note_step fst snd filter]; unfold sounding_on at 2; cbn [snd].
    + destruct (0 <? v); cbn [List.length]; [lia|]. destruct (v =? 0); rewrite ?close_first_length; lia.
    + rewrite close_first_length. lia.
    + lia.
Qed.

Lemma count_ons_absolute : forall ms t0, count_ons (absolute t0 ms) = count_ons ms.
Proof.
  unfold count_ons. induction ms as [|[d m] r IH]; intros t0; [reflexivity|].
  cbn [absolute filter]. change (sounding_on (t0 + d, m)) with (sounding_on (d, m)).
  destruct (sounding_on (d, m)); cbn [List.length]; rewrite IH; reflexivity.
Qed.

Lemma in_absolute_snd : forall ms t0 tm, In tm (absolute t0 ms) -> exists d, In (d, snd tm) ms.
Proof.
  induction ms as [|[d m] r IH]; intros t0 tm Hin; cbn in Hin; [tauto|].
  destruct Hin as [<-|Hin]; [exists d; left; reflexivity|].
  destruct (IH _ _ Hin) as [d' H]. exists d'. right; exact H.
Qed.

(* a note that close_first q does not touch stays where it is *)
Lemma close_first_keep : forall q off n older newer,
  (n_pitch n =? q) && is_open n = false ->
  exists newer' older', close_first q off (newer ++ n :: older) = newer' ++ n :: older'
     /\ List.length older' = List.length older /\ map n_pitch newer' = map n_pitch newer.
Proof.
  intros q off n older newer Hn. induction newer as [|x newer IH]; cbn [app close_first].
  - rewrite Hn. exists [], (close_first q off older). rewrite close_first_length. auto.
  - destruct ((n_pitch x =? q) && is_open x).
    + exists (mkNote (n_pitch x) (n_vel x) (n_loc x) (Some (off - n_loc x)) :: newer), older. auto.
    + destruct IH as [nw [ol [E [L P]]]]. exists (x :: nw), ol. rewrite E. cbn [map]. rewrite P. auto.
Qed.

Lemma note_step_keep : forall t m n older newer,
  (forall q, about q m = true -> (n_pitch n =? q) && is_open n = false) ->
  exists newer' older', note_step t m (newer ++ n :: older) = newer' ++ n :: older'
     /\ List.length older' = List.length older
     /\ (forall p, ~ In p (map n_pitch newer) -> about p m = false -> ~ In p (map n_pitch newer')).
Proof.
  intros t m n older newer H.
  assert (K : forall q, about q m = true ->
     exists newer' older', close_first q t (newer ++ n :: older) = newer' ++ n :: older'
     /\ List.length older' = List.length older
     /\ (forall p, ~ In p (map n_pitch newer) -> about p m = false -> ~ In p (map n_pitch newer'))).
  { intros q Hq. destruct (close_first_keep q t n older newer (H q Hq)) as [nw [ol [E [L P]]]].
    exists nw, ol. rewrite P. auto. }
  destruct m as [c p v|c p|k]; cbn [note_step].
  - destruct (0 <? v).
    + exists (mkNote p v t None :: newer), older. split; [reflexivity|]. split; [reflexivity|].
      intros p' Hp Ha [E|I]; [|auto]. cbn in E, Ha. lia.
    + destruct (v =? 0); [apply K; cbn; lia|]. exists newer, older. auto.
  - apply K; cbn; lia.
  - exists newer, older. auto.
Qed.

Lemma steps_keep : forall ms n older newer,
  (forall tm q, In tm ms -> about q (snd tm) = true -> (n_pitch n =? q) && is_open n = false) ->
  exists newer' older', steps ms (newer ++ n :: older) = newer' ++ n :: older'
     /\ List.length older' = List.length older
     /\ (forall p, ~ In p (map n_pitch newer) -> (forall tm, In tm ms -> about p (snd tm) = false) -> ~ In p (map n_pitch newer')).
Proof.
  induction ms as [|[t m] r IH]; intros n older newer H.
  - exists newer, older. auto.
  - cbn [steps fold_left fst snd]. change (fold_left _ r ?x) with (steps r x).
    destruct (note_step_keep t m n older newer) as [nw [ol [E [L P]]]].
    { intros q Hq. apply (H (t, m) q); [left; reflexivity|exact Hq]. }
    rewrite E. destruct (IH n ol nw) as [nw2 [ol2 [E2 [L2 P2]]]].
    { intros tm q Hin. apply H. right; exact Hin. }
    exists nw2, ol2. split; [exact E2|]. split; [lia|].
    intros p Hp Hall. apply P2.
    + apply P; [exact Hp|]. apply (Hall (t, m)). left; reflexivity.
    + intros tm Hin. apply Hall. right; exact Hin.
Qed.

Lemma close_first_hit : forall p off n older newer,
  ~ In p (map n_pitch newer) -> n_pitch n = p -> is_open n = true ->
  close_first p off (newer ++ n :: older)
  = newer ++ mkNote (n_pitch n) (n_vel n) (n_loc n) (Some (off - n_loc n)) :: older.
Proof.
  intros p off n older newer Hnot Hp Ho. induction newer as [|x newer IH]; cbn [app close_first].
  - rewrite Ho. replace (n_pitch n =? p) with true by lia. reflexivity.
  - cbn [map In] in Hnot. replace (n_pitch x =? p) with false by lia. cbn [andb].
    rewrite IH; [reflexivity|tauto].
Qed.

(* the main reader lemma: a note_on (velocity > 0) followed, with no message about the same pitch in
   between, by a release of that pitch *)
Lemma scan_note : forall pre d c p v mid d' rel post,
  0 < v -> is_release p rel = true ->
  (forall tm, In tm mid -> about p (snd tm) = false) ->
  nth_error (scan (pre ++ (d, NoteOn c p v) :: mid ++ (d', rel) :: post) 0 []) (count_ons pre)
  = Some (mkNote p v (sumd pre + d) (Some (sumd mid + d'))).
Proof.
  intros pre d c p v mid d' rel post Hv Hrel Hmid.
  rewrite scan_absolute, scan_abs_steps.
  rewrite absolute_app. cbn [absolute]. rewrite absolute_app. cbn [absolute].
  rewrite steps_app. cbn [steps fold_left fst snd note_step].
  replace (0 <? v) with true by lia.
  change (fold_left _ ?l ?x) with (steps l x).
  set (acc1 := steps (absolute 0 pre) []).
  assert (L1 : List.length acc1 = count_ons pre).
  { unfold acc1. rewrite steps_length. cbn [List.length]. apply count_ons_absolute. }
  set (T := 0 + sumd pre + d).
  set (n := mkNote p v T None).
  rewrite steps_app. cbn [steps fold_left fst snd]. change (fold_left _ ?l ?x) with (steps l x).
  destruct (steps_keep (absolute T mid) n acc1 []) as [nw [ol [E [L P]]]].
  { intros tm q Hin Ha. cbn [n n_pitch is_open n_dur].
    assert (about p (snd tm) = false).
    { destruct (in_absolute_snd _ _ _ Hin) as [dd Hdd]. apply (Hmid _ Hdd). }
    destruct (snd tm); cbn in *; lia. }
  cbn [app] in E. rewrite E.
  assert (Hnw : ~ In p (map n_pitch nw)).
  { apply P; [cbn; tauto|]. intros tm Hin.
    destruct (in_absolute_snd _ _ _ Hin) as [dd Hdd]. apply (Hmid _ Hdd). }
  set (T2 := T + sumd mid + d').
  assert (Hstep : note_step T2 rel (nw ++ n :: ol)
                  = nw ++ mkNote p v T (Some (T2 - T)) :: ol).
  { destruct rel as [c' q v'|c' q|k]; cbn in Hrel; try discriminate.
    - cbn [note_step]. replace (0 <? v') with false by lia. replace (v' =? 0) with true by lia.
      replace q with p by lia. apply (close_first_hit p T2 n ol nw Hnw); reflexivity.
    - cbn [note_step]. replace q with p by lia. apply (close_first_hit p T2 n ol nw Hnw); reflexivity. }
  rewrite Hstep.
  set (nc := mkNote p v T (Some (T2 - T))).
  destruct (steps_keep (absolute T2 post) nc ol nw) as [nw3 [ol3 [E3 [L3 _]]]].
  { intros tm q _ _. cbn. apply andb_false_r. }
  rewrite E3. rewrite rev_app_distr. cbn [rev]. rewrite <- app_assoc. cbn [app].
  rewrite nth_error_app2; rewrite rev_length; [|lia].
  replace (count_ons pre - List.length ol3)%nat with 0%nat by lia. cbn.
  unfold nc, T2, T.
  replace (0 + sumd pre + d + sumd mid + d' - (0 + sumd pre + d)) with (sumd mid + d') by lia.
  replace (0 + sumd pre + d) with (sumd pre + d) by lia. reflexivity.
Qed.

(* a non-note message only shifts what follows it by its delta *)
Lemma scan_other : forall pre d k d' m post,
  scan (pre ++ (d, Other k) :: (d', m) :: post) 0 [] = scan (pre ++ (d + d', m) :: post) 0 [].
Proof.
  intros. rewrite !scan_absolute, !scan_abs_steps, !absolute_app. cbn [absolute].
  rewrite !steps_app. cbn [steps fold_left fst snd]. cbn [note_step].
  replace (0 + sumd pre + d + d') with (0 + sumd pre + (d + d')) by lia. reflexivity.
Qed.
Lemma scan_other_last : forall pre d k, scan (pre ++ [(d, Other k)]) 0 [] = scan pre 0 [].
Proof.
  intros. rewrite !scan_absolute, !scan_abs_steps, !absolute_app. cbn [absolute].
  rewrite !steps_app. reflexivity.
Qed.

(* ------------------------------------------------------------------------------------------ *)
(** * Round trip: the reader run over the call trace of a note/chord sequence *)

Definition mkn (f : fvoice) (closed : bool) : note :=
  mkNote (f_pitch f) (v_vel (f_voice f)) (f_on f) (if closed then Some (v_len (f_voice f)) else None).
Definition mk (c : fvoice -> bool) (f : fvoice) : note := mkn f (c f).
Definition closed_at (t : Z) (f : fvoice) : bool := f_rel f <=? t.
Definition cl (f : fvoice) : note := mkn f true.

(* [l] most recent first: among the voices still open (c = false) no pitch occurs twice *)
Fixpoint uniq_open (c : fvoice -> bool) (l : list fvoice) : Prop :=
  match l with
  | [] => True
  | f :: r => (c f = false -> forall g, In g r -> c g = false -> f_pitch g <> f_pitch f) /\ uniq_open c r
  end.

Lemma uniq_open_mono : forall (c c' : fvoice -> bool) l,
  (forall f, c f = true -> c' f = true) -> uniq_open c l -> uniq_open c' l.
Proof.
  intros c c' l H. induction l as [|f r IH]; cbn; [auto|]. intros [U1 U2]. split; [|auto].
  intros Hf g Hg Hcg. apply U1; [|exact Hg|].
  - destruct (c f) eqn:E; [|reflexivity]. rewrite (H _ E) in Hf. discriminate.
  - destruct (c g) eqn:E; [|reflexivity]. rewrite (H _ E) in Hcg. discriminate.
Qed.

Lemma uniq_open_same : forall c l f g,
  uniq_open c l -> In f l -> In g l -> c f = false -> c g = false -> f_pitch f = f_pitch g -> f = g.
Proof.
  induction l as [|h r IH]; intros f g U Hf Hg Cf Cg Hp; [destruct Hf|].
  destruct U as [U1 U2]. destruct Hf as [<-|Hf], Hg as [<-|Hg].
  - reflexivity.
  - exfalso. apply (U1 Cf g Hg Cg). congruence.
  - exfalso. apply (U1 Cg f Hf Cf). congruence.
  - apply IH; assumption.
Qed.

Lemma uniq_open_app : forall c l1 l2,
  uniq_open c l1 -> uniq_open c l2 ->
  (forall a b, In a l1 -> In b l2 -> c a = false -> c b = false -> f_pitch b <> f_pitch a) ->
  uniq_open c (l1 ++ l2).
Proof.
  induction l1 as [|f r IH]; intros l2 U1 U2 X; cbn [app]; [exact U2|].
  destruct U1 as [A B]. split.
  - intros Cf g Hg Cg. apply in_app_or in Hg as [Hg|Hg]; [apply A; assumption|].
    apply (X f g); [left; reflexivity|exact Hg|exact Cf|exact Cg].
  - apply IH; [exact B|exact U2|]. intros a b Ha. apply X. right; exact Ha.
Qed.

Lemma close_voice : forall c p off l,
  uniq_open c l ->
  (forall f, In f l -> c f = false -> f_pitch f = p -> f_rel f = off) ->
  close_first p off (map (mk c) l) = map (mk (fun f => c f || (f_pitch f =? p))) l.
Proof.
  induction l as [|f r IH]; intros U H; [reflexivity|].
  destruct U as [U1 U2]. cbn [map close_first].
  assert (Hp : n_pitch (mk c f) = f_pitch f) by reflexivity.
  assert (Ho : is_open (mk c f) = negb (c f)) by (unfold mk, mkn, is_open; cbn; destruct (c f); reflexivity).
  rewrite Hp, Ho. clear Hp Ho.
  destruct (c f) eqn:Ec; cbn [negb].
  - rewrite andb_false_r. f_equal.
    + unfold mk. rewrite Ec. reflexivity.
    + apply IH; [exact U2|]. intros g Hg. apply H. right; exact Hg.
  - rewrite andb_true_r. destruct (f_pitch f =? p) eqn:Ep.
    + f_equal.
      * unfold mk, mkn. rewrite Ec, Ep. cbn [orb n_pitch n_vel n_loc].
        assert (f_rel f = off) by (apply H; [left; reflexivity|exact Ec|lia]).
        unfold f_rel in *. replace (off - f_on f) with (v_len (f_voice f)) by lia. reflexivity.
      * apply map_ext_in. intros g Hg. unfold mk. destruct (c g) eqn:Eg; [reflexivity|].
        pose proof (U1 eq_refl g Hg Eg). cbn [orb]. replace (f_pitch g =? p) with false by lia. reflexivity.
    + f_equal.
      * unfold mk. rewrite Ec, Ep. reflexivity.
      * apply IH; [exact U2|]. intros g Hg. apply H. right; exact Hg.
Qed.

Lemma steps_offs : forall fs acc,
  steps (map off_msg fs) acc = fold_left (fun a f => close_first (f_pitch f) (f_rel f) a) fs acc.
Proof. induction fs as [|f r IH]; intros acc; [reflexivity|]. cbn [map steps fold_left off_msg fst snd note_step]. apply IH. Qed.

Lemma close_voices : forall fs c l,
  uniq_open c l ->
  (forall g, In g fs -> forall f, In f l -> c f = false -> f_pitch f = f_pitch g -> f_rel f = f_rel g) ->
  fold_left (fun a f => close_first (f_pitch f) (f_rel f) a) fs (map (mk c) l)
  = map (mk (fun f => c f || existsb (fun g => f_pitch f =? f_pitch g) fs)) l.
Proof.
  induction fs as [|g fs IH]; intros c l U H; cbn [fold_left existsb].
  - apply map_ext. intros f. unfold mk. rewrite orb_false_r. reflexivity.
  - rewrite close_voice; [|exact U|intros f Hf Hc Hp; apply (H g); [left; reflexivity|exact Hf|exact Hc|exact Hp]].
    rewrite IH.
    + apply map_ext. intros f. unfold mk. rewrite orb_assoc. reflexivity.
    + apply (uniq_open_mono c); [|exact U]. intros f E. rewrite E. reflexivity.
    + intros g' Hg' f Hf Hc Hp. apply orb_false_elim in Hc as [Hc _].
      apply (H g'); [right; exact Hg'|exact Hf|exact Hc|exact Hp].
Qed.

Lemma in_ins_rel : forall x f l, In x (ins_rel f l) <-> x = f \/ In x l.
Proof.
  induction l as [|g r IH]; cbn; [intuition|].
  destruct (f_rel f <=? f_rel g); cbn; rewrite ?IH; intuition.
Qed.
Lemma in_sort_rel : forall x l, In x (sort_rel l) <-> In x l.
Proof.
  induction l as [|g r IH]; cbn; [tauto|]. rewrite in_ins_rel, IH. intuition.
Qed.

Lemma flush_gen : forall (due : fvoice -> bool) t done,
  uniq_open (closed_at t) (rev done) ->
  (forall f, due f = true -> closed_at t f = false) ->
  steps (map off_msg (sort_rel (filter due done))) (map (mk (closed_at t)) (rev done))
  = map (mk (fun f => closed_at t f || due f)) (rev done).
Proof.
  intros due t done U Hdue.
  assert (Hin : forall g, In g (sort_rel (filter due done)) -> In g (rev done) /\ due g = true).
  { intros g Hg. apply in_sort_rel, filter_In in Hg as [A B]. split; [apply in_rev in A; exact A|exact B]. }
  rewrite steps_offs, close_voices.
  - apply map_ext_in. intros f Hf. unfold mk. f_equal.
    destruct (closed_at t f) eqn:Ec; [reflexivity|]. cbn [orb].
    destruct (due f) eqn:Ed.
    + apply existsb_exists. exists f. split; [|lia].
      apply in_sort_rel, filter_In. split; [apply in_rev; exact Hf|exact Ed].
    + destruct (existsb _ _) eqn:Ex; [|reflexivity]. exfalso.
      apply existsb_exists in Ex as [g [Hg Hp]]. destruct (Hin g Hg) as [A B].
      assert (f = g) by (apply (uniq_open_same _ _ f g U Hf A Ec (Hdue g B)); lia).
      subst g. congruence.
  - exact U.
  - intros g Hg f Hf Hc Hp. destruct (Hin g Hg) as [A B].
    rewrite (uniq_open_same _ _ f g U Hf A Hc (Hdue g B) Hp). reflexivity.
Qed.

Lemma no_overlap_app_l : forall a b, no_overlap (a ++ b) = true -> no_overlap a = true.
Proof.
  induction a as [|f r IH]; intros b H; [reflexivity|]. cbn [app no_overlap] in *.
  apply andb_true_iff in H as [A B]. apply andb_true_iff. split; [|apply (IH b B)].
  rewrite forallb_app in A. apply andb_true_iff in A as [A _]. exact A.
Qed.

Lemma uniq_open_rev_done : forall t done,
  no_overlap done = true -> (forall f, In f done -> f_on f <= t) -> uniq_open (closed_at t) (rev done).
Proof.
  induction done as [|f r IH]; intros N H; [exact I|]. cbn [rev no_overlap] in *.
  apply andb_true_iff in N as [A B]. apply uniq_open_app.
  - apply IH; [exact B|]. intros g Hg. apply H. right; exact Hg.
  - cbn. split; [|exact I]. intros _ g [].
  - intros a b Ha [<-|[]] Ca Cb. apply in_rev in Ha.
    rewrite forallb_forall in A. specialize (A a Ha).
    assert (f_on a <= t) by (apply H; right; exact Ha).
    unfold closed_at in *. lia.
Qed.

Lemma steps_ons : forall o vs acc,
  (forall v, In v vs -> voice_ok v = true) ->
  steps (map on_msg (map (mkFV o) vs)) acc = rev (map (fun f => mkn f false) (map (mkFV o) vs)) ++ acc.
Proof.
  induction vs as [|v r IH]; intros acc H; [reflexivity|].
  cbn [map steps fold_left on_msg fst snd note_step f_on f_pitch f_voice].
  assert (voice_ok v = true) by (apply H; left; reflexivity). unfold voice_ok in *.
  replace (0 <? v_vel v) with true by lia.
  change (fold_left _ ?l ?x) with (steps l x). rewrite IH; [|intros w Hw; apply H; right; exact Hw].
  cbn [rev]. rewrite <- app_assoc. reflexivity.
Qed.

Lemma place_all_app_ok : forall es o f, In f (place_all es o) -> forallb event_ok es = true ->
  voice_ok (f_voice f) = true /\ o <= f_on f.
Proof.
  induction es as [|e r IH]; intros o f Hin Hok; [destruct Hin|].
  cbn [place_all forallb] in *. apply andb_true_iff in Hok as [He Hr]. unfold event_ok in He.
  apply andb_true_iff in He as [Hd Hv].
  apply in_app_or in Hin as [Hin|Hin].
  - unfold place in Hin. apply in_map_iff in Hin as [v [<- Hv']]. cbn.
    rewrite forallb_forall in Hv. split; [apply Hv; exact Hv'|lia].
  - destruct (IH _ _ Hin Hr). split; [assumption|lia].
Qed.

(* the simulation: reader state = the voices started so far, closed iff released by tick t *)
Lemma sim : forall es o t done,
  t <= o ->
  (forall f, In f done -> f_on f <= t) ->
  forallb event_ok es = true ->
  no_overlap (done ++ place_all es o) = true ->
  steps (sched_from es o t done) (map (mk (closed_at t)) (rev done))
  = map cl (rev (done ++ place_all es o)).
Proof.
  induction es as [|e r IH]; intros o t done Hto Hon Hok Hno.
  - cbn [sched_from place_all] in *. rewrite app_nil_r in *. unfold flush_all.
    rewrite (flush_gen (fun f => t <? f_rel f) t done).
    + apply map_ext. intros f. unfold mk, cl, closed_at. replace ((f_rel f <=? t) || (t <? f_rel f)) with true by lia. reflexivity.
    + apply uniq_open_rev_done; assumption.
    + intros f Hf. unfold closed_at. lia.
  - cbn [sched_from place_all forallb] in *. apply andb_true_iff in Hok as [He Hr].
    pose proof He as He'. unfold event_ok in He'. apply andb_true_iff in He' as [Hd Hv]. rewrite forallb_forall in Hv.
    rewrite !steps_app. unfold flush.
    rewrite (flush_gen (fun f => (t <? f_rel f) && (f_rel f <=? o)) t done).
    2:{ apply uniq_open_rev_done; [apply (no_overlap_app_l _ _ Hno)|assumption]. }
    2:{ intros f Hf. unfold closed_at. lia. }
    rewrite (steps_ons o (e_voices e) _ Hv : steps (map on_msg (place o e)) _ = _).
    rewrite app_assoc in Hno.
    replace (rev (map (fun f => mkn f false) (map (mkFV o) (e_voices e))) ++
             map (mk (fun f => closed_at t f || (t <? f_rel f) && (f_rel f <=? o))) (rev done))
      with (map (mk (closed_at o)) (rev (done ++ place o e))).
    + rewrite IH; [rewrite <- app_assoc; reflexivity|lia| |exact Hr|exact Hno].
      intros f Hf. apply in_app_or in Hf as [Hf|Hf]; [specialize (Hon f Hf); lia|].
      unfold place in Hf. apply in_map_iff in Hf as [v [<- _]]. cbn. lia.
    + rewrite rev_app_distr, map_app. f_equal.
      * rewrite map_rev. f_equal. apply map_ext_in. intros f Hf.
        unfold place in Hf. apply in_map_iff in Hf as [v [<- Hv']]. unfold mk, closed_at, f_rel. cbn [f_on f_voice].
        specialize (Hv v Hv'). unfold voice_ok in Hv. replace (o + v_len v <=? o) with false by lia. reflexivity.
      * apply map_ext. intros f. unfold mk, closed_at. f_equal. lia.
Qed.

(* ------------------------------------------------------------------------------------------ *)
(** * Grouping by onset and assembling the returned sequences *)

Lemma group_at_all : forall t l, (forall n, In n l -> n_loc n = t) -> group_at t l = l.
Proof.
  induction l as [|n r IH]; intros H; [reflexivity|]. unfold group_at in *. cbn [filter].
  replace (n_loc n =? t) with true by (specialize (H n (or_introl eq_refl)); lia).
  f_equal. apply IH. intros m Hm. apply H. right; exact Hm.
Qed.
Lemma group_at_none : forall t l, (forall n, In n l -> n_loc n <> t) -> group_at t l = [].
Proof.
  induction l as [|n r IH]; intros H; [reflexivity|]. unfold group_at in *. cbn [filter].
  replace (n_loc n =? t) with false by (specialize (H n (or_introl eq_refl)); lia).
  apply IH. intros m Hm. apply H. right; exact Hm.
Qed.
Lemma group_at_app : forall t a b, group_at t (a ++ b) = group_at t a ++ group_at t b.
Proof. intros. unfold group_at. apply filter_app. Qed.

Lemma sounding_ge : forall es o x, forallb event_ok es = true -> In x (map fst (sounding es o)) -> o <= x.
Proof.
  induction es as [|e r IH]; intros o x Hok Hin; [destruct Hin|].
  cbn [sounding forallb] in *. apply andb_true_iff in Hok as [He Hr]. unfold event_ok in He.
  apply andb_true_iff in He as [Hd _].
  destruct (e_voices e) as [|v vs].
  - specialize (IH _ _ Hr Hin). lia.
  - cbn [map fst In] in Hin. destruct Hin as [<-|Hin]; [lia|]. specialize (IH _ _ Hr Hin). lia.
Qed.

Definition nplace (o : Z) (vs : list voice) : list note := map cl (map (mkFV o) vs).

Lemma nplace_loc : forall o vs n, In n (nplace o vs) -> n_loc n = o.
Proof. intros o vs n H. unfold nplace in H. rewrite map_map in H. apply in_map_iff in H as [v [<- _]]. reflexivity. Qed.

Lemma place_all_loc : forall es o n, forallb event_ok es = true -> In n (map cl (place_all es o)) -> o <= n_loc n.
Proof.
  intros es o n Hok H. apply in_map_iff in H as [f [<- Hf]].
  destruct (place_all_app_ok _ _ _ Hf Hok). exact H0.
Qed.

Lemma fold_insert_repeat : forall (ns : list note) o L,
  (forall n, In n ns -> n_loc n = o) -> (forall x, In x L -> o < x) ->
  fold_right insert_uniq L (map n_loc ns) = match ns with [] => L | _ => o :: L end.
Proof.
  induction ns as [|n r IH]; intros o L H HL; [reflexivity|].
  cbn [map fold_right]. rewrite (IH o L); [|intros m Hm; apply H; right; exact Hm|exact HL].
  rewrite (H n (or_introl eq_refl)).
  destruct r as [|m r'].
  - destruct L as [|x L']; [reflexivity|]. cbn [insert_uniq].
    replace (o <? x) with true by (specialize (HL x (or_introl eq_refl)); lia). reflexivity.
  - cbn [insert_uniq]. rewrite Z.ltb_irrefl, Z.eqb_refl. reflexivity.
Qed.

Lemma times_of_place : forall es o, forallb event_ok es = true ->
  times_of (map cl (place_all es o)) = map fst (sounding es o).
Proof.
  induction es as [|e r IH]; intros o Hok; [reflexivity|].
  pose proof Hok as Hok'. cbn [forallb] in Hok. apply andb_true_iff in Hok as [He Hr].
  pose proof He as He'. unfold event_ok in He'. apply andb_true_iff in He' as [Hd _].
  cbn [place_all sounding]. unfold times_of. rewrite !map_app, fold_right_app.
  change (fold_right insert_uniq [] (map n_loc (map cl (place_all r (o + e_dur e)))))
    with (times_of (map cl (place_all r (o + e_dur e)))).
  rewrite IH by exact Hr.
  change (map cl (place o e)) with (nplace o (e_voices e)).
  rewrite (fold_insert_repeat (nplace o (e_voices e)) o).
  - unfold nplace. destruct (e_voices e); reflexivity.
  - apply nplace_loc.
  - intros x Hx. pose proof (sounding_ge _ _ _ Hr Hx). lia.
Qed.

Lemma groups_of_place : forall es o, forallb event_ok es = true ->
  forall ov, In ov (sounding es o) ->
  group_at (fst ov) (map cl (place_all es o)) = nplace (fst ov) (snd ov).
Proof.
  induction es as [|e r IH]; intros o Hok ov Hin; [destruct Hin|].
  pose proof Hok as Hok'. cbn [forallb] in Hok. apply andb_true_iff in Hok as [He Hr].
  pose proof He as He'. unfold event_ok in He'. apply andb_true_iff in He' as [Hd _].
  cbn [place_all sounding] in *. rewrite map_app, group_at_app.
  change (map cl (place o e)) with (nplace o (e_voices e)).
  assert (Hlater : forall ov', In ov' (sounding r (o + e_dur e)) ->
     group_at (fst ov') (nplace o (e_voices e)) ++ group_at (fst ov') (map cl (place_all r (o + e_dur e)))
     = nplace (fst ov') (snd ov')).
  { intros ov' Hin'. rewrite group_at_none.
    - cbn [app]. apply IH; assumption.
    - intros n Hn. rewrite (nplace_loc _ _ _ Hn).
      pose proof (sounding_ge r (o + e_dur e) (fst ov') Hr (in_map fst _ _ Hin')). lia. }
  destruct (e_voices e) as [|v vs] eqn:Ev.
  - apply Hlater. exact Hin.
  - destruct Hin as [<-|Hin]; [|apply Hlater; exact Hin]. cbn [fst snd].
    rewrite group_at_all by apply nplace_loc. rewrite group_at_none; [apply app_nil_r|].
    intros n Hn. pose proof (place_all_loc _ _ _ Hr Hn). lia.
Qed.

Lemma groups_of_sched : forall es o, forallb event_ok es = true ->
  groups_of (map cl (place_all es o)) = map (fun ov => (fst ov, nplace (fst ov) (snd ov))) (sounding es o).
Proof.
  intros es o Hok. unfold groups_of. rewrite times_of_place by exact Hok. rewrite map_map.
  apply map_ext_in. intros ov Hin. rewrite (groups_of_place es o Hok ov Hin). reflexivity.
Qed.

Lemma fold_max_ge : forall l a, a <= fold_left Z.max l a.
Proof. induction l as [|x r IH]; intros a; cbn; [lia|]. specialize (IH (Z.max a x)). lia. Qed.

Lemma max_dur_nplace : forall o vs, max_dur (nplace o vs) = max_len vs.
Proof.
  intros o [|v r]; [reflexivity|]. unfold nplace, max_dur, max_len. cbn [map].
  rewrite !map_map. reflexivity.
Qed.

(* onsets strictly increasing, every group non-empty with positive lengths *)
Fixpoint groups_ok (gs : list (Z * list voice)) : Prop :=
  match gs with
  | [] => True
  | (o, vs) :: rest =>
      vs <> [] /\ (forall v, In v vs -> 0 < v_len v)
      /\ match rest with [] => True | (o', _) :: _ => o < o' end /\ groups_ok rest
  end.

Lemma assemble_expected : forall gs, groups_ok gs ->
  assemble (map (fun ov => (fst ov, nplace (fst ov) (snd ov))) gs) = Some (expected_from gs).
Proof.
  induction gs as [|[o vs] rest IH]; intros Hok; [reflexivity|].
  destruct Hok as [Hne [Hlen [Hnext Hrest]]].
  cbn [map assemble expected_from fst snd]. rewrite (IH Hrest).
  set (d := match rest with [] => max_len vs | (o', _) :: _ => o' - o end).
  assert (Hd : (match map (fun ov => (fst ov, nplace (fst ov) (snd ov))) rest with
                | [] => o + max_dur (nplace o vs) | (t', _) :: _ => t' end) - o = d).
  { unfold d. destruct rest as [|[o' vs'] rest']; cbn [map fst]; [rewrite max_dur_nplace; lia|reflexivity]. }
  rewrite Hd.
  assert (Hd0 : d =? 0 = false).
  { unfold d. destruct rest as [|[o' vs'] rest']; [|lia].
    destruct vs as [|v r]; [congruence|]. unfold max_len.
    pose proof (fold_max_ge (map v_len r) (v_len v)). specialize (Hlen v (or_introl eq_refl)). lia. }
  change (match rest with [] => max_len vs | (o', _) :: _ => o' - o end) with d.
  unfold cons_event.
  destruct vs as [|v [|v2 r]]; [congruence| |].
  - cbn [nplace map]. rewrite Hd0. reflexivity.
  - unfold nplace. cbn [map]. rewrite Hd0. unfold r_cons_many. cbn [map cl mkn n_pitch n_vel dur_of n_dur f_pitch f_voice].
    rewrite !map_map. reflexivity.
Qed.

Lemma sounding_ok : forall es o, forallb event_ok es = true -> groups_ok (sounding es o).
Proof.
  induction es as [|e r IH]; intros o Hok; [exact I|].
  cbn [forallb] in Hok. apply andb_true_iff in Hok as [He Hr].
  unfold event_ok in He. apply andb_true_iff in He as [Hd Hv]. rewrite forallb_forall in Hv.
  cbn [sounding]. destruct (e_voices e) as [|v vs] eqn:Ev; [apply IH; exact Hr|].
  cbn [groups_ok]. split; [congruence|]. split.
  - intros w Hw. specialize (Hv w Hw). unfold voice_ok in Hv. lia.
  - split; [|apply IH; exact Hr].
    destruct (sounding r (o + e_dur e)) as [|[o' vs'] rest] eqn:Es; [exact I|].
    assert (In o' (map fst (sounding r (o + e_dur e)))) by (rewrite Es; left; reflexivity).
    pose proof (sounding_ge _ _ _ Hr H). lia.
Qed.

(* ------------------------------------------------------------------------------------------ *)
(** * The round trip *)

Lemma scan_file_of_calls : forall es tend,
  events_ok es = true ->
  scan (encode 0 (sched_calls es) tend) 0 [] = map cl (place_all es 0).
Proof.
  intros es tend Hok. unfold events_ok in Hok. apply andb_true_iff in Hok as [Hev Hno].
  rewrite scan_absolute, absolute_encode, scan_abs_steps, steps_app.
  unfold sched_calls.
  pose proof (sim es 0 0 [] ltac:(lia) ltac:(intros f []) Hev Hno) as S. cbn [rev map app] in S.
  rewrite S. cbn [steps fold_left fst snd note_step app].
  (* the closing dummy note_off finds no open note *)
  assert (E : forall l, close_first 0 tend (map cl l) = map cl l).
  { induction l as [|f r IH]; [reflexivity|]. cbn [map close_first]. unfold cl at 1. cbn [mkn is_open n_dur].
    rewrite andb_false_r. rewrite IH. reflexivity. }
  rewrite E, <- map_rev, rev_involutive. reflexivity.
Qed.

Lemma read_notes_closed : forall es, forallb event_ok es = true ->
  read_notes (map cl (place_all es 0)) = ROk (expected es).
Proof.
  intros es Hok. unfold read_notes.
  replace (existsb is_open (map cl (place_all es 0))) with false.
  - rewrite groups_of_sched by exact Hok. rewrite assemble_expected; [reflexivity|].
    apply sounding_ok. exact Hok.
  - symmetry. induction (place_all es 0) as [|f r IH]; [reflexivity|]. cbn [map existsb]. exact IH.
Qed.

Lemma roundtrip_track : forall es tend,
  events_ok es = true -> read_track (encode 0 (sched_calls es) tend) = ROk (expected es).
Proof.
  intros es tend Hok. unfold read_track. rewrite scan_file_of_calls by exact Hok.
  apply read_notes_closed. unfold events_ok in Hok. apply andb_true_iff in Hok as [H _]. exact H.
Qed.

(* the written track contains a note_on as soon as one voice was written *)
Lemma sched_from_ons : forall es o t done f, In f (place_all es o) -> In (on_msg f) (sched_from es o t done).
Proof.
  induction es as [|e r IH]; intros o t done f Hin; [destruct Hin|].
  cbn [place_all sched_from] in *. apply in_or_app. right. apply in_or_app.
  apply in_app_or in Hin as [Hin|Hin]; [left; apply in_map; exact Hin|right; apply IH; exact Hin].
Qed.
Lemma encode_in : forall calls last tend t m, In (t, m) calls -> exists d, In (d, m) (encode last calls tend).
Proof.
  induction calls as [|[t' m'] r IH]; intros last tend t m Hin; [destruct Hin|].
  cbn [encode]. destruct Hin as [E|Hin].
  - inversion E; subst. exists (t - last). left; reflexivity.
  - destruct (IH t' tend _ _ Hin) as [d Hd]. exists d. right; exact Hd.
Qed.
Lemma file_has_note_on : forall es tend, place_all es 0 <> [] ->
  existsb is_note_on (encode 0 (sched_calls es) tend) = true.
Proof.
  intros es tend Hne. destruct (place_all es 0) as [|f r] eqn:E; [congruence|].
  assert (Hin : In f (place_all es 0)) by (rewrite E; left; reflexivity).
  pose proof (sched_from_ons es 0 0 [] f Hin) as H. unfold on_msg in H.
  destruct (encode_in _ 0 tend _ _ H) as [d Hd].
  apply existsb_exists. exists (d, NoteOn 0 (f_pitch f) (v_vel (f_voice f))). split; [exact Hd|reflexivity].
Qed.

Lemma fold_max_id : forall l a, (forall x, In x l -> x <= a) -> fold_left Z.max l a = a.
Proof.
  induction l as [|x r IH]; intros a H; [reflexivity|]. cbn [fold_left].
  replace (Z.max a x) with a by (specialize (H x (or_introl eq_refl)); lia).
  apply IH. intros y Hy. apply H. right; exact Hy.
Qed.

(* IO/MidiBytesProofs.v — lemmas about the MIDI byte codec and int() truncation. *)
From Isobar Require Import Base.Prelude IO.MidiBytes.
From Coq Require Import QArith.
Open Scope Z_scope.

(** ---- the codec: decode after encode is the identity on every valid message ---- *)
Lemma midi_roundtrip : forall m, msg_valid m = true -> midi_decode (midi_encode m) = Some m.
Proof.
  intros m H. destruct m; cbn [msg_valid] in H; unfold is_chan, is_data, is_pitch in H;
    cbn [midi_encode midi_decode]; unfold is_data.
  - (* NoteOn *)
    assert (E1 : (144 + ch) / 16 = 9) by lia. assert (E2 : (144 + ch) mod 16 = ch) by lia.
    rewrite E1, E2.
    replace ((0 <=? note) && (note <=? 127) && ((0 <=? vel) && (vel <=? 127)) && (128 <=? 144 + ch) && (144 + ch <=? 239))
      with true by lia. reflexivity.
  - (* NoteOff *)
    assert (E1 : (128 + ch) / 16 = 8) by lia. assert (E2 : (128 + ch) mod 16 = ch) by lia.
    rewrite E1, E2.
    replace ((0 <=? note) && (note <=? 127) && ((0 <=? vel) && (vel <=? 127)) && (128 <=? 128 + ch) && (128 + ch <=? 239))
      with true by lia. reflexivity.
  - (* ControlChange *)
    assert (E1 : (176 + ch) / 16 = 11) by lia. assert (E2 : (176 + ch) mod 16 = ch) by lia.
    rewrite E1, E2.
    replace ((0 <=? ctl) && (ctl <=? 127) && ((0 <=? val) && (val <=? 127)) && (128 <=? 176 + ch) && (176 + ch <=? 239))
      with true by lia. reflexivity.
  - (* ProgramChange *)
    assert (E1 : (192 + ch) / 16 = 12) by lia. assert (E2 : (192 + ch) mod 16 = ch) by lia.
    rewrite E1, E2.
    replace ((0 <=? prog) && (prog <=? 127) && (128 <=? 192 + ch) && (192 + ch <=? 239)) with true by lia.
    reflexivity.
  - (* ChannelPressure *)
    assert (E1 : (208 + ch) / 16 = 13) by lia. assert (E2 : (208 + ch) mod 16 = ch) by lia.
    rewrite E1, E2.
    replace ((0 <=? val) && (val <=? 127) && (128 <=? 208 + ch) && (208 + ch <=? 239)) with true by lia.
    reflexivity.
  - (* PitchWheel *)
    assert (E1 : (224 + ch) / 16 = 14) by lia. assert (E2 : (224 + ch) mod 16 = ch) by lia.
    rewrite E1, E2.
    set (lo := (pitch + 8192) mod 128). set (hi := (pitch + 8192) / 128).
    assert (B : 0 <= lo <= 127 /\ 0 <= hi <= 127 /\ lo + 128 * hi - 8192 = pitch) by (subst lo hi; lia).
    replace ((0 <=? lo) && (lo <=? 127) && ((0 <=? hi) && (hi <=? 127)) && (128 <=? 224 + ch) && (224 + ch <=? 239))
      with true by lia.
    destruct B as [_ [_ B]]. rewrite B. reflexivity.
Qed.

Lemma midi_encode_inj : forall m1 m2,
  msg_valid m1 = true -> msg_valid m2 = true -> midi_encode m1 = midi_encode m2 -> m1 = m2.
Proof.
  intros m1 m2 H1 H2 E. apply midi_roundtrip in H1. apply midi_roundtrip in H2.
  rewrite E in H1. rewrite H1 in H2. injection H2; auto.
Qed.

(** the bytes of a valid message are a status byte 128..239 followed by 7-bit data bytes *)
Definition wire_shape (bs : list Z) : bool :=
  match bs with
  | s :: ds => (128 <=? s) && (s <=? 239) && forallb is_data ds
  | [] => false
  end.
Lemma midi_encode_shape : forall m, msg_valid m = true -> wire_shape (midi_encode m) = true.
Proof.
  intros m H. destruct m; cbn [msg_valid] in H; unfold is_chan, is_data, is_pitch in H;
    cbn [midi_encode wire_shape forallb]; unfold is_data; lia.
Qed.

(** ---- the device: a request is sent iff mido accepts it ---- *)
Lemma checked_some : forall m, msg_valid m = true ->
  checked m = Some (midi_encode m) /\ midi_decode (midi_encode m) = Some m.
Proof. intros m H. unfold checked. rewrite H. split; [reflexivity | apply midi_roundtrip; exact H]. Qed.

Lemma checked_none : forall m, msg_valid m = false -> checked m = None.
Proof. intros m H. unfold checked. rewrite H. reflexivity. Qed.

Lemma same_request_refl : forall m, msg_valid m = true -> same_request m (midi_encode m) = true.
Proof.
  intros m H. unfold same_request. rewrite (midi_roundtrip m H).
  destruct m; cbn [msg_eqb]; rewrite ?Z.eqb_refl; reflexivity.
Qed.

(** ---- int(): truncation toward zero ---- *)
Lemma trunc_int : forall z, trunc (inject_Z z) = z.
Proof. intros z. unfold trunc, inject_Z. cbn [Qnum Qden]. apply Z.quot_1_r. Qed.

Lemma trunc_nonneg : forall q, 0 <= Qnum q -> trunc q = Qnum q / Zpos (Qden q).
Proof. intros q H. unfold trunc. apply Z.quot_div_nonneg; [exact H | reflexivity]. Qed.

Lemma trunc_nonpos : forall q, Qnum q <= 0 -> trunc q = - ((- Qnum q) / Zpos (Qden q)).
Proof.
  intros q H. unfold trunc.
  replace (Qnum q) with (- (- Qnum q)) at 1 by lia.
  rewrite Z.quot_opp_l by discriminate. f_equal.
  apply Z.quot_div_nonneg; [lia | reflexivity].
Qed.

(** in terms of the rational itself: for x >= 0, trunc x <= x < trunc x + 1; for x <= 0,
    trunc x - 1 < x <= trunc x  (so 63.9 -> 63, -0.5 -> 0, 127.99 -> 127) *)
Lemma trunc_toward_zero : forall q : Q,
  ((0 <= q)%Q -> (inject_Z (trunc q) <= q)%Q /\ (q < inject_Z (trunc q + 1))%Q) /\
  ((q <= 0)%Q -> (inject_Z (trunc q - 1) < q)%Q /\ (q <= inject_Z (trunc q))%Q).
Proof.
  intros [n d]. unfold Qle, Qlt, inject_Z. cbn [Qnum Qden]. split; intros H.
  - assert (Hn : 0 <= n) by lia.
    rewrite (trunc_nonneg (n # d)) by exact Hn. cbn [Qnum Qden].
    pose proof (Z.div_mod n (Zpos d) ltac:(discriminate)) as E.
    pose proof (Z.mod_pos_bound n (Zpos d) ltac:(reflexivity)) as B.
    set (k := n / Zpos d) in *. set (r := n mod Zpos d) in *. nia.
  - assert (Hn : n <= 0) by lia.
    rewrite (trunc_nonpos (n # d)) by exact Hn. cbn [Qnum Qden].
    pose proof (Z.div_mod (- n) (Zpos d) ltac:(discriminate)) as E.
    pose proof (Z.mod_pos_bound (- n) (Zpos d) ltac:(reflexivity)) as B.
    set (k := (- n) / Zpos d) in *. set (r := (- n) mod Zpos d) in *. nia.
Qed.

(** the request built from float arguments is the request built from their truncations *)
Lemma req_note_on_trunc : forall note vel ch,
  req_note_on note vel ch
  = req_note_on (inject_Z (trunc note)) (inject_Z (trunc vel)) (inject_Z (trunc ch)).
Proof. intros. unfold req_note_on. rewrite !trunc_int. reflexivity. Qed.
Lemma req_note_off_trunc : forall note ch,
  req_note_off note ch = req_note_off (inject_Z (trunc note)) (inject_Z (trunc ch)).
Proof. intros. unfold req_note_off. rewrite !trunc_int. reflexivity. Qed.
Lemma req_control_trunc : forall ctl val ch,
  req_control ctl val ch
  = req_control (inject_Z (trunc ctl)) (inject_Z (trunc val)) (inject_Z (trunc ch)).
Proof. intros. unfold req_control. rewrite !trunc_int. reflexivity. Qed.
Lemma req_program_trunc : forall prog ch,
  req_program prog ch = req_program (inject_Z (trunc prog)) (inject_Z (trunc ch)).
Proof. intros. unfold req_program. rewrite !trunc_int. reflexivity. Qed.
Lemma req_aftertouch_trunc : forall val ch,
  req_aftertouch val ch = req_aftertouch (inject_Z (trunc val)) (inject_Z (trunc ch)).
Proof. intros. unfold req_aftertouch. rewrite !trunc_int. reflexivity. Qed.
Lemma req_pitch_bend_trunc : forall pitch ch,
  req_pitch_bend pitch ch = req_pitch_bend (inject_Z (trunc pitch)) (inject_Z (trunc ch)).
Proof. intros. unfold req_pitch_bend. rewrite !trunc_int. reflexivity. Qed.

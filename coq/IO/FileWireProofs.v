(* IO/FileWireProofs.v — lemmas about IO/FileWire.v (property C19: delta-timed messages in the MIDI
   file; histories of requests on one device). *)
From Isobar Require Import Base.Prelude IO.MidiBytes IO.MidiBytesProofs IO.Osc IO.OscProofs IO.FileWire.
From Coq Require Import QArith Qround.
Open Scope Z_scope.

(** ---- the state machine writes what the forward function says ---- *)
Lemma f_run_out : forall ops d,
  f_write (f_run ops d) = rev (f_track d) ++ f_out (f_time d) (f_last d) ops.
Proof.
  induction ops as [|o r IH]; intros d.
  - unfold f_run, f_write. cbn [fold_left f_out rev]. reflexivity.
  - unfold f_run. cbn [fold_left]. fold (f_run r (f_step d o)). rewrite IH.
    destruct o as [n|m|]; cbn [f_step f_out].
    + cbn [f_time f_last f_track]. reflexivity.
    + unfold f_emit. destruct (msg_valid m).
      * cbn [f_time f_last f_track rev]. rewrite <- app_assoc. reflexivity.
      * reflexivity.
    + reflexivity.
Qed.

Lemma file_written_out : forall ops, file_written ops = f_out 0 0 ops.
Proof. intros ops. unfold file_written. rewrite f_run_out. reflexivity. Qed.

(** ---- absolute ticks: the running sum of the written delta times is the tick of the request ---- *)
Lemma absolute_f_out : forall ops time last, absolute last (f_out time last ops) = timed time ops.
Proof.
  induction ops as [|o r IH]; intros time last.
  - cbn [f_out timed absolute]. f_equal. f_equal. lia.
  - destruct o as [n|m|]; cbn [f_out timed].
    + apply IH.
    + destruct (msg_valid m).
      * cbn [absolute]. replace (last + (time - last)) with time by lia. f_equal. apply IH.
      * apply IH.
    + apply IH.
Qed.

Theorem file_absolute_ticks : forall ops, absolute 0 (file_written ops) = timed 0 ops.
Proof. intros ops. rewrite file_written_out. apply absolute_f_out. Qed.

(** every delta time is non-negative when ticks only go forward *)
Lemma f_out_nonneg : forall ops time last, ticks_ok ops = true -> last <= time ->
  Forall (fun dm => 0 <= fst dm) (f_out time last ops).
Proof.
  induction ops as [|o r IH]; intros time last Hok Hle.
  - cbn [f_out]. constructor; [cbn [fst]; lia | constructor].
  - cbn [ticks_ok forallb] in Hok. apply andb_true_iff in Hok as [Ho Hr]. fold (ticks_ok r) in Hr.
    destruct o as [n|m|]; cbn [f_out].
    + apply IH; [exact Hr | lia].
    + destruct (msg_valid m).
      * constructor; [cbn [fst]; lia | apply IH; [exact Hr | lia]].
      * apply IH; assumption.
    + apply IH; assumption.
Qed.

Theorem file_deltas_nonneg : forall ops, ticks_ok ops = true ->
  Forall (fun dm => 0 <= fst dm) (file_written ops).
Proof. intros ops H. rewrite file_written_out. apply f_out_nonneg; [exact H | lia]. Qed.

(** a gap of g ticks between two consecutive written requests is a delta time of exactly g,
    whatever was written before and however long the gap is: the message after the gap is entry
    number (messages written by [pre]) + 1 of the file and carries delta g *)
Definition nwritten (pre : list fop) : nat := List.length (f_track (f_run pre f_init)).

Theorem file_gap_exact : forall pre m1 g m2 post,
  msg_valid m1 = true -> msg_valid m2 = true ->
  nth_error (file_written (pre ++ FReq m1 :: FTicks g :: FReq m2 :: post)) (S (nwritten pre)) = Some (g, m2).
Proof.
  intros pre m1 g m2 post V1 V2.
  unfold file_written, nwritten. unfold f_run at 1. rewrite fold_left_app. fold (f_run pre f_init).
  set (d := f_run pre f_init).
  assert (E1 : f_emit d m1 = mkF (f_time d) (f_time d) ((f_time d - f_last d, m1) :: f_track d))
    by (unfold f_emit; rewrite V1; reflexivity).
  cbn [fold_left f_step]. rewrite E1.
  unfold f_emit. cbn [f_time f_last f_track]. rewrite V2.
  match goal with |- nth_error (f_write (fold_left f_step post ?d')) _ = _ => fold (f_run post d') end.
  rewrite f_run_out. cbn [f_time f_last f_track rev].
  rewrite <- !app_assoc. cbn [app].
  rewrite nth_error_app2 by (rewrite rev_length; lia).
  rewrite rev_length. replace (S (List.length (f_track d)) - List.length (f_track d))%nat with 1%nat by lia.
  cbn [nth_error]. replace (f_time d + g - f_time d) with g by lia. reflexivity.
Qed.

(** ---- run-length form of tick() ---- *)
Lemma ticks_run_length_nat : forall k d,
  f_run (repeat (FTicks 1) k) d = mkF (f_time d + Z.of_nat k) (f_last d) (f_track d).
Proof.
  induction k as [|k IH]; intros d.
  - unfold f_run. cbn [repeat fold_left]. destruct d as [t l tr]. cbn [f_time f_last f_track]. f_equal. lia.
  - unfold f_run. cbn [repeat fold_left]. fold (f_run (repeat (FTicks 1) k) (f_step d (FTicks 1))).
    rewrite IH. cbn [f_step f_time f_last f_track]. f_equal. lia.
Qed.

Theorem ticks_run_length : forall n d, 0 <= n ->
  f_run (repeat (FTicks 1) (Z.to_nat n)) d = f_step d (FTicks n).
Proof. intros n d Hn. rewrite ticks_run_length_nat. cbn [f_step]. rewrite Z2Nat.id by exact Hn. reflexivity. Qed.

(** ---- exact beat arithmetic: int(round((a/tpb - b/tpb) * tpb)) = a - b for every resolution ---- *)
(* Python's round(): nearest integer, ties to even *)
Definition round_half_even (q : Q) : Z :=
  let f := Qfloor q in
  let r := (q - inject_Z f)%Q in
  match Qcompare r (1 # 2) with
  | Lt => f
  | Gt => f + 1
  | Eq => if Z.even f then f else f + 1
  end.

Lemma round_half_even_int : forall q z, (q == inject_Z z)%Q -> round_half_even q = z.
Proof.
  intros q z H. unfold round_half_even.
  assert (F : Qfloor q = z) by (rewrite H; apply Qfloor_Z).
  rewrite F.
  assert (R : (q - inject_Z z == 0)%Q) by (rewrite H; ring).
  assert (C : Qcompare (q - inject_Z z) (1 # 2) = Lt).
  { rewrite R. reflexivity. }
  rewrite C. reflexivity.
Qed.

Definition beats (ticks : Z) (tpb : positive) : Q := (ticks # tpb)%Q.

Theorem round_beats_exact : forall (tpb : positive) (a b : Z),
  round_half_even ((beats a tpb - beats b tpb) * inject_Z (Zpos tpb))%Q = a - b.
Proof.
  intros tpb a b. apply round_half_even_int.
  unfold beats, Qeq, Qminus, Qplus, Qopp, Qmult, inject_Z. cbn [Qnum Qden].
  rewrite !Pos2Z.inj_mul. ring.
Qed.

(* tick(): time += 1/tpb keeps time = ticks/tpb *)
Lemma tick_beats : forall tpb n, (beats n tpb + 1 / inject_Z (Zpos tpb) == beats (n + 1) tpb)%Q.
Proof.
  intros tpb n. unfold beats, Qeq, Qplus, Qdiv, Qmult, Qinv, inject_Z. cbn [Qnum Qden].
  rewrite !Pos2Z.inj_mul. ring.
Qed.

(** ---- histories ---- *)
Definition osc_ok (m : osc_msg) : bool := nonzero_bytes (fst m) && forallb arg_ok (snd m).

(* the k-th datagram of any history decodes to the k-th request, whatever was sent before *)
Theorem osc_history_decodes : forall reqs, forallb osc_ok reqs = true ->
  map osc_decode (osc_history reqs) = map Some reqs.
Proof.
  induction reqs as [|m r IH]; intros H; [reflexivity|].
  cbn [forallb] in H. apply andb_true_iff in H as [Hm Hr].
  unfold osc_ok in Hm. apply andb_true_iff in Hm as [Ha Hl].
  destruct m as [addr args]. cbn [fst snd] in Ha, Hl.
  unfold osc_history. cbn [map]. fold (osc_history r). rewrite (IH Hr).
  unfold osc_wire. cbn [fst snd]. rewrite (osc_roundtrip addr args Ha Hl). reflexivity.
Qed.

(* an argument's TYPE is part of what is carried: requests that differ only in the type of one
   argument (int 2 / float 2.0 / string "2") never share a datagram *)
Definition same_kind (a b : osc_arg) : bool :=
  match a, b with
  | OInt _, OInt _ | OFloat _ _ _ _, OFloat _ _ _ _ | OStr _, OStr _ => true
  | _, _ => false
  end.

Theorem osc_type_carried : forall addr pre post a b,
  nonzero_bytes addr = true -> forallb arg_ok (pre ++ a :: post) = true ->
  forallb arg_ok (pre ++ b :: post) = true -> same_kind a b = false ->
  osc_encode addr (pre ++ a :: post) <> osc_encode addr (pre ++ b :: post).
Proof.
  intros addr pre post a b Ha Hl1 Hl2 K E.
  destruct (osc_encode_inj _ _ _ _ Ha Hl1 Ha Hl2 E) as [_ L].
  apply app_inv_head in L. inversion L; subst. destruct b; discriminate.
Qed.

(* a history on the MIDI port: every valid request is recovered from its own message *)
Theorem port_history_decodes : forall reqs, forallb msg_valid reqs = true ->
  map (fun o => match o with Some bs => midi_decode bs | None => None end) (port_history reqs) = map Some reqs.
Proof.
  induction reqs as [|m r IH]; intros H; [reflexivity|].
  cbn [forallb] in H. apply andb_true_iff in H as [Hm Hr].
  unfold port_history. cbn [map]. fold (port_history r). rewrite (IH Hr). f_equal.
  unfold checked. rewrite Hm. apply midi_roundtrip. exact Hm.
Qed.

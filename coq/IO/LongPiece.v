(* IO/LongPiece.v — SIZE: pieces longer than any internal limit of the library (Pattern.LENGTH_MAX values; Generated/TablesPat.v
   carries the constant from the source).  No proofs here.

   The writer and reader models of IO/MidiFile.v work on lists of any length, and so do the theorems about them; what a piece of
   70 000 events needs is (1) a way to establish `events_ok` that is not quadratic in the number of notes (`no_overlap` compares
   every pair) and (2) closed forms the correspondence can afford: the number of note_ons of the written file, the tick and content
   of every one of them (a rolling checksum), the length of the file, the number of events read back and the sum of their
   durations.

   `events_short`: every note ends no later than its event, and the pitches of one event are distinct — linear to check, and it
   implies `events_ok` (IO/LongPieceProofs.v).

   `long_piece i n`: the n events number i, i+1, ... of an endless deterministic score (what harness/c16.py `long_events` builds
   and hands to PDict.save / a Timeline with a MidiFileOutputDevice): event j lasts 2 + j mod 3 ticks; every event with
   j mod 7 = 3 is a two-note chord (pitches 40 + j mod 50 and 95 + j mod 30), the others single notes of pitch 1 + 11 j mod 127;
   velocities 1..127; lengths 1 + j mod duration (and the whole duration for the second chord note). *)
From Isobar Require Import Base.Prelude IO.MidiFile.

Fixpoint distinctb (l : list Z) : bool :=
  match l with
  | [] => true
  | x :: r => negb (existsb (Z.eqb x) r) && distinctb r
  end.

Definition event_short (e : event) : bool :=
  forallb (fun v => v_len v <=? e_dur e) (e_voices e) && distinctb (map v_pitch (e_voices e)).
Definition events_short (es : list event) : bool := forallb event_ok es && forallb event_short es.

Definition long_event (j : Z) : event :=
  let d := 2 + j mod 3 in
  if j mod 7 =? 3
  then mkEvent [mkVoice (40 + j mod 50) (1 + j mod 127) (1 + j mod d); mkVoice (95 + j mod 30) (1 + (5 * j) mod 127) d] d
  else mkEvent [mkVoice (1 + (11 * j) mod 127) (1 + (13 * j) mod 127) (1 + j mod d)] d.

Fixpoint long_piece (i : Z) (n : nat) : list event :=
  match n with
  | O => []
  | S k => long_event i :: long_piece (i + 1) k
  end.

(** (pitch, velocity, onset tick) of a placed voice: what a note_on of the file shows *)
Definition vkey (f : fvoice) : Z * Z * Z := (f_pitch f, v_vel (f_voice f), f_on f).

(** rolling checksum of a list of numbers *)
Definition CK : Z := 1000000007.
Definition roll (acc x : Z) : Z := (acc * 31 + x) mod CK.
Definition ck_keys (l : list (Z * Z * Z)) : Z :=
  fold_left (fun acc k => roll acc (fst (fst k) + 131 * snd (fst k) + 16411 * snd k)) l 0.
Definition pv_values (x : pv Z) : list Z := match x with One a => [a] | Many l => l end.
Definition ck_values (l : list Z) : Z := fold_left roll l 0.

(** the closed forms of a piece: [number of note_ons; checksum of (pitch, velocity, tick) of all of them in file order; length of
    the file in ticks; number of events read back; sum of their durations; checksum of the pitches read back; checksum of the
    lengths read back; 1 if events_short] *)
Definition piece_summary (es : list event) : list Z :=
  let fv := place_all es 0 in
  let r := expected es in
  [ Z.of_nat (List.length fv); ck_keys (map vkey fv); sched_end es;
    Z.of_nat (List.length (r_dur r)); fold_left Z.add (r_dur r) 0; ck_values (flat_map pv_values (r_note r));
    ck_values (flat_map (fun g => match g with One p => [fst p] | Many l => map fst l end) (r_gate r));
    if events_short es then 1 else 0 ].

Definition long_ok (n : Z) (observed : list Z) : bool := list_eqb Z.eqb (piece_summary (long_piece 0 (Z.to_nat n))) observed.

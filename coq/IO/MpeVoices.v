(* IO/MpeVoices.v — the MPE allocator over ALL call sequences, with NOTE IDENTITY: the same pitch may be struck again
   while it is held (a unison of two voices, a doubled chord note — the textbook MPE case: one pitch on two channels,
   bent separately), a pitch that is not held may be released, more than 15 notes may be asked for.  No proofs here.

   IO/Mpe.v identifies a sounding note with its pitch, which is adequate exactly for the histories `mpe_wf` admits
   (held pitches distinct).  Here a sounding note is a VOICE: the k-th note_on call of the history (k = the identity
   of the MPENote handle that call returned), its pitch and its channel.

   What the property demands ("every simultaneously sounding note a channel of its own and frees it on release"):
     note_on(n, v)            a channel of 1..15 on which NO sounding voice is (whatever the pitches), note_on(n, v) sent
                              on it; no free channel (15 voices sounding): nothing is sent, no handle (as the code does)
     handle.note_off()        the voice of that handle, if it still sounds: note_off(pitch) on ITS channel, which
                              becomes free; the other voices — also those of the same pitch — are untouched
     device.note_off(n)       one sounding voice of pitch n is released on its channel (the most recent one, as
                              `note_assignments[n]` holds the most recent); no voice of pitch n sounds: ValueError, nothing sent
     handle.pitch_bend / aftertouch / control      on the voice's channel while it sounds, nothing afterwards

   Python (isobar/io/mpe/output.py, note.py) keeps `note_assignments[pitch]` and `channel_assignments[channel]`; see
   docs/C19.md for what the pinned code does with a pitch that is struck again (findings/C19-mpe-restruck-pitch.md). *)
From Isobar Require Import Base.Prelude IO.MidiBytes IO.Mpe.
Open Scope Z_scope.

Record voice : Type := mkV { v_id : Z; v_pitch : Z; v_chan : Z }.

(** the device: number of note_on calls so far (the identity the next handle gets) and the sounding voices, most
    recent first *)
Record vstate : Type := mkVS { vs_next : Z; vs_sounding : list voice }.
Definition vs_init : vstate := mkVS 0 [].

Inductive vcall : Type :=
| VOn (n v : Z)               (* device.note_on(n, v); the handle it returns is number vs_next *)
| VOffPitch (n : Z)           (* device.note_off(n) *)
| VOffHandle (i : Z)          (* handle number i .note_off() *)
| VBend (i x : Z) | VTouch (i x : Z) | VCtl (i k x : Z).     (* handle number i .pitch_bend / aftertouch / control *)

Definition chan_free (l : list voice) (c : Z) : bool := negb (existsb (fun v => v_chan v =? c) l).
Definition vnext_channel (l : list voice) : option Z := find (chan_free l) mpe_channels.
Definition find_pitch (n : Z) (l : list voice) : option voice := find (fun v => v_pitch v =? n) l.
Definition find_id (i : Z) (l : list voice) : option voice := find (fun v => v_id v =? i) l.
Definition remove_id (i : Z) (l : list voice) : list voice := filter (fun v => negb (v_id v =? i)) l.

Definition vstep (s : vstate) (c : vcall) : vstate * mpe_out :=
  match c with
  | VOn n v =>
      match vnext_channel (vs_sounding s) with
      | None => (mkVS (vs_next s + 1) (vs_sounding s), Silent)
      | Some ch => (mkVS (vs_next s + 1) (mkV (vs_next s) n ch :: vs_sounding s), Wire (NoteOn ch n v))
      end
  | VOffPitch n =>
      match find_pitch n (vs_sounding s) with
      | None => (s, Rejected)
      | Some vo => (mkVS (vs_next s) (remove_id (v_id vo) (vs_sounding s)),
                    Wire (NoteOff (v_chan vo) n default_release_velocity))
      end
  | VOffHandle i =>
      match find_id i (vs_sounding s) with
      | None => (s, Silent)
      | Some vo => (mkVS (vs_next s) (remove_id i (vs_sounding s)),
                    Wire (NoteOff (v_chan vo) (v_pitch vo) default_release_velocity))
      end
  | VBend i x =>
      match find_id i (vs_sounding s) with None => (s, Silent) | Some vo => (s, Wire (PitchWheel (v_chan vo) x)) end
  | VTouch i x =>
      match find_id i (vs_sounding s) with None => (s, Silent) | Some vo => (s, Wire (ChannelPressure (v_chan vo) x)) end
  | VCtl i k x =>
      match find_id i (vs_sounding s) with None => (s, Silent) | Some vo => (s, Wire (ControlChange (v_chan vo) k x)) end
  end.

Fixpoint vrun (s : vstate) (cs : list vcall) : list mpe_out :=
  match cs with
  | [] => []
  | c :: r => let '(s', o) := vstep s c in o :: vrun s' r
  end.
Fixpoint vfinal (s : vstate) (cs : list vcall) : vstate :=
  match cs with
  | [] => s
  | c :: r => vfinal (fst (vstep s c)) r
  end.

(** harness encoding: [k; a; b; c] with k = 0 On n v, 1 device.note_off n, 5 handle i .note_off, 2 Bend i x, 3 Touch i x, 4 Ctl i k x *)
Definition vcall_of (l : list Z) : vcall :=
  match l with
  | [0; n; v] => VOn n v
  | [1; n] => VOffPitch n
  | [5; i] => VOffHandle i
  | [2; i; x] => VBend i x
  | [3; i; x] => VTouch i x
  | [4; i; k; x] => VCtl i k x
  | _ => VOffPitch (-1)
  end.
Definition voices_agree (cs : list (list Z)) (cap : list (list (list Z))) : bool :=
  outs_agree (vrun vs_init (map vcall_of cs)) cap.
Definition voices_first_diff (cs : list (list Z)) (cap : list (list (list Z))) : Z :=
  first_diff 0 (vrun vs_init (map vcall_of cs)) cap.

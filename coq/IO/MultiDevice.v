(* IO/MultiDevice.v — several output devices alive in one process, driven by interleaved calls.  No proofs here.

   Python: every output device object carries its own state, created in `__init__`:
       MPEOutputDevice.__init__        self.channels / self.note_assignments / self.channel_assignments   (per object)
       MidiOutputDevice.__init__       self.midi = mido.open_output(...)                                   (its own port)
       OSCOutputDevice.__init__        self.osc = SimpleUDPClient(host, port)                              (its own socket)
       MidiFileOutputDevice.__init__   self.midifile / self.miditrack / self.time / self.last_event_time  (its own file)
   and every method reads and writes `self.<...>` only.  A process with k devices is therefore the PRODUCT of k
   independent copies of the single-device state machine: a call addressed to device d steps component d and leaves
   every other component alone, and a device created later starts from the initial state whatever the devices before
   it did.  The product is written once, for any step function (state S, call C, output O); the MPE allocator
   (IO/Mpe.v, `mpe_step`) is the instance with non-trivial state. *)
From Isobar Require Import Base.Prelude IO.MidiBytes IO.Mpe.
Open Scope Z_scope.

Section Product.
  Variables (S C O : Type).
  Variable step : S -> C -> S * O.

  (** one device on its own *)
  Fixpoint run1 (s : S) (cs : list C) : list O :=
    match cs with
    | [] => []
    | c :: r => let '(s', o) := step s c in o :: run1 s' r
    end.
  Fixpoint final1 (s : S) (cs : list C) : S :=
    match cs with
    | [] => s
    | c :: r => final1 (fst (step s c)) r
    end.

  (** the process: device index -> state of that device object *)
  Definition pstate := Z -> S.
  Definition pupd (ps : pstate) (d : Z) (s : S) : pstate := fun x => if x =? d then s else ps x.

  (** a call on device d: `devices[d].method(...)` touches `devices[d]` only *)
  Definition pstep (ps : pstate) (dc : Z * C) : pstate * O :=
    let '(s', o) := step (ps (fst dc)) (snd dc) in (pupd ps (fst dc) s', o).

  (** an interleaved call sequence: the outputs, each tagged with the device that produced it *)
  Fixpoint prun (ps : pstate) (cs : list (Z * C)) : list (Z * O) :=
    match cs with
    | [] => []
    | dc :: r => let '(ps', o) := pstep ps dc in (fst dc, o) :: prun ps' r
    end.
  Fixpoint pfinal (ps : pstate) (cs : list (Z * C)) : pstate :=
    match cs with
    | [] => ps
    | dc :: r => pfinal (fst (pstep ps dc)) r
    end.

  (** device d's own call subsequence / the outputs device d produced *)
  Definition calls_of (d : Z) (cs : list (Z * C)) : list C := map snd (filter (fun dc => fst dc =? d) cs).
  Definition outs_of (d : Z) (os : list (Z * O)) : list O := map snd (filter (fun x => fst x =? d) os).
End Product.

Arguments run1 {S C O} step s cs.
Arguments final1 {S C O} step s cs.
Arguments pupd {S} ps d s x.
Arguments pstep {S C O} step ps dc.
Arguments prun {S C O} step ps cs.
Arguments pfinal {S C O} step ps cs.
Arguments calls_of {C} d cs.
Arguments outs_of {O} d os.

(** ---- k MPE devices ---- *)
Definition mpe_all_init : pstate mpe := fun _ => mpe_init.
Definition mpe_multi_run (cs : list (Z * mpe_call)) : list (Z * mpe_out) := prun mpe_step mpe_all_init cs.

(** harness encoding: calls as [device; k; a; b; c] (see Mpe.call_of), captured messages per call *)
Definition multi_call_of (l : list Z) : Z * mpe_call :=
  match l with d :: r => (d, call_of r) | [] => (0, Off (-1)) end.
Definition mpe_multi_agree (cs : list (list Z)) (cap : list (list (list Z))) : bool :=
  outs_agree (map snd (mpe_multi_run (map multi_call_of cs))) cap.
Definition mpe_multi_first_diff (cs : list (list Z)) (cap : list (list (list Z))) : Z :=
  first_diff 0 (map snd (mpe_multi_run (map multi_call_of cs))) cap.

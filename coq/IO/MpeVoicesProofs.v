(* IO/MpeVoicesProofs.v — for EVERY call sequence (no well-formedness asked: pitches struck again while held, releases of
   pitches that are not held, note_ons beyond 15 voices, stale handles) the sounding voices keep pairwise distinct
   channels in 1..15, a release goes out on the released voice's own channel and frees exactly that channel, and a
   note_on is dropped only when 15 voices sound. *)
From Isobar Require Import Base.Prelude IO.MidiBytes IO.Mpe IO.MpeProofs IO.MpeVoices.
Open Scope Z_scope.

Definition vinv (l : list voice) (k : Z) : Prop :=
  NoDup (map v_chan l) /\ (forall v, In v l -> 1 <= v_chan v <= 15) /\ NoDup (map v_id l) /\ (forall v, In v l -> v_id v < k).

Lemma vinv_init : vinv [] 0.
Proof. unfold vinv. cbn [map]. split; [constructor|]. split; [intros v []|]. split; [constructor | intros v []]. Qed.

Lemma chan_free_spec l c : chan_free l c = true <-> ~ In c (map v_chan l).
Proof.
  unfold chan_free. rewrite negb_true_iff. split.
  - intros H Hin. apply in_map_iff in Hin as [v [E Hv]].
    assert (X : existsb (fun v => v_chan v =? c) l = true) by (apply existsb_exists; exists v; split; [exact Hv | lia]).
    congruence.
  - intros H. destruct (existsb (fun v => v_chan v =? c) l) eqn:E; [|reflexivity].
    apply existsb_exists in E as [v [Hv Ev]]. exfalso. apply H. apply in_map_iff. exists v. split; [lia | exact Hv].
Qed.

(** fewer than 15 voices: a free channel exists (pigeonhole), and it is what note_on takes *)
Lemma vnext_some l : (List.length l < 15)%nat ->
  exists c, vnext_channel l = Some c /\ 1 <= c <= 15 /\ ~ In c (map v_chan l).
Proof.
  intros Hlen. unfold vnext_channel. destruct (find (chan_free l) mpe_channels) as [c|] eqn:F.
  - apply find_some in F as [Hin Hf]. exists c. split; [reflexivity|]. split; [apply in_mpe_channels; exact Hin|].
    apply chan_free_spec. exact Hf.
  - exfalso.
    assert (I : incl mpe_channels (map v_chan l)).
    { intros c Hc. pose proof (find_none _ _ F c Hc) as N.
      destruct (in_dec Z.eq_dec c (map v_chan l)) as [Y|Y]; [exact Y|].
      apply chan_free_spec in Y. congruence. }
    pose proof (NoDup_incl_length mpe_channels_nodup I) as L. rewrite mpe_channels_length, map_length in L. lia.
Qed.

(** 15 voices (with distinct channels in 1..15): no channel is free *)
Lemma vnext_none l : NoDup (map v_chan l) -> (forall v, In v l -> 1 <= v_chan v <= 15) -> (15 <= List.length l)%nat ->
  vnext_channel l = None.
Proof.
  intros ND R Hlen. unfold vnext_channel. destruct (find (chan_free l) mpe_channels) as [c|] eqn:F; [|reflexivity].
  exfalso. apply find_some in F as [Hin Hf]. apply chan_free_spec in Hf. apply Hf.
  assert (I : incl (map v_chan l) mpe_channels).
  { intros x Hx. apply in_map_iff in Hx as [v [<- Hv]]. apply in_mpe_channels. apply R. exact Hv. }
  assert (L : (List.length mpe_channels <= List.length (map v_chan l))%nat) by (rewrite mpe_channels_length, map_length; lia).
  exact (NoDup_length_incl ND L I c Hin).
Qed.

Lemma vinv_length l k : vinv l k -> (List.length l <= 15)%nat.
Proof.
  intros [ND [R _]].
  assert (I : incl (map v_chan l) mpe_channels).
  { intros x Hx. apply in_map_iff in Hx as [v [<- Hv]]. apply in_mpe_channels. apply R. exact Hv. }
  pose proof (NoDup_incl_length ND I) as L. rewrite mpe_channels_length, map_length in L. exact L.
Qed.

Lemma in_remove_id i l v : In v (remove_id i l) <-> In v l /\ v_id v <> i.
Proof. unfold remove_id. rewrite filter_In, negb_true_iff. split; intros [A B]; split; auto; lia. Qed.

Lemma NoDup_map_filter {A} (f : A -> Z) (p : A -> bool) l : NoDup (map f l) -> NoDup (map f (filter p l)).
Proof.
  induction l as [|a l IH]; intros H; [constructor|]. cbn [map] in H. inversion H as [|x xs Hn Hd]; subst.
  cbn [filter]. destruct (p a); [|apply IH; exact Hd]. cbn [map]. constructor; [|apply IH; exact Hd].
  intros Hin. apply Hn. apply in_map_iff in Hin as [b [E Hb]]. apply filter_In in Hb as [Hb _].
  apply in_map_iff. exists b. split; assumption.
Qed.

Lemma vinv_remove l k i : vinv l k -> vinv (remove_id i l) k.
Proof.
  intros [A [B [C D]]]. unfold remove_id. repeat split.
  - apply NoDup_map_filter. exact A.
  - apply B. apply filter_In in H. tauto.
  - apply B. apply filter_In in H. tauto.
  - apply NoDup_map_filter. exact C.
  - intros v Hv. apply D. apply filter_In in Hv. tauto.
Qed.

Lemma vinv_cons l k n c : vinv l k -> 1 <= c <= 15 -> ~ In c (map v_chan l) -> vinv (mkV k n c :: l) (k + 1).
Proof.
  intros [A [B [C D]]] R F. unfold vinv. split; [|split; [|split]].
  - cbn [map v_chan]. constructor; assumption.
  - intros w [<-|Hw]; [cbn; lia | apply B; exact Hw].
  - cbn [map v_id]. constructor; [|exact C]. intros Hin. apply in_map_iff in Hin as [w [Ew Hw]]. pose proof (D w Hw). lia.
  - intros w [<-|Hw]; [cbn; lia | pose proof (D w Hw); lia].
Qed.
Lemma vinv_next l k : vinv l k -> vinv l (k + 1).
Proof. intros [A [B [C D]]]. unfold vinv. repeat split; try assumption; try (apply B; assumption). intros w Hw. pose proof (D w Hw). lia. Qed.

Lemma find_id_spec i l vo : find_id i l = Some vo -> In vo l /\ v_id vo = i.
Proof. intros H. apply find_some in H as [A B]. split; [exact A | lia]. Qed.
Lemma find_pitch_spec n l vo : find_pitch n l = Some vo -> In vo l /\ v_pitch vo = n.
Proof. intros H. apply find_some in H as [A B]. split; [exact A | lia]. Qed.
Lemma find_pitch_none n l : find_pitch n l = None -> forall v, In v l -> v_pitch v <> n.
Proof. intros H v Hv E. pose proof (find_none _ _ H v Hv) as N. cbn in N. lia. Qed.
Lemma find_id_none i l : find_id i l = None -> forall v, In v l -> v_id v <> i.
Proof. intros H v Hv E. pose proof (find_none _ _ H v Hv) as N. cbn in N. lia. Qed.

(** after the release of voice vo its channel is free; every other voice is still there *)
Lemma released_channel_free l k vo : vinv l k -> In vo l ->
  chan_free (remove_id (v_id vo) l) (v_chan vo) = true.
Proof.
  intros [ND [_ [NI _]]] Hin. apply chan_free_spec. intros H. apply in_map_iff in H as [w [E Hw]].
  apply in_remove_id in Hw as [Hw Hne]. apply Hne.
  (* two voices of l with the same channel are the same voice *)
  clear NI Hne. induction l as [|a l IH]; [destruct Hin|].
  cbn [map] in ND. inversion ND as [|x xs Hn Hd]; subst.
  destruct Hin as [->|Hin], Hw as [->|Hw]; try reflexivity.
  - exfalso. apply Hn. apply in_map_iff. exists w. split; [exact E | exact Hw].
  - exfalso. apply Hn. apply in_map_iff. exists vo. split; [symmetry; exact E | exact Hin].
  - apply IH; assumption.
Qed.

(** what the property demands of the wire output of ANY call sequence, given the sounding voices [h] and the number
    [k] of note_on calls so far.  Which channel a note_on takes and which of several sounding voices of one pitch
    `device.note_off(pitch)` releases is left open. *)
Fixpoint vtrace_ok (h : list voice) (k : Z) (cs : list vcall) (os : list mpe_out) : Prop :=
  match cs, os with
  | [], [] => True
  | VOn n v :: cs', o :: os' =>
      if (List.length h <? 15)%nat
      then exists c, o = Wire (NoteOn c n v) /\ 1 <= c <= 15 /\ ~ In c (map v_chan h) /\ vtrace_ok (mkV k n c :: h) (k + 1) cs' os'
      else o = Silent /\ vtrace_ok h (k + 1) cs' os'
  | VOffPitch n :: cs', o :: os' =>
      if existsb (fun v => v_pitch v =? n) h
      then exists vo, In vo h /\ v_pitch vo = n /\ o = Wire (NoteOff (v_chan vo) n default_release_velocity)
                      /\ chan_free (remove_id (v_id vo) h) (v_chan vo) = true
                      /\ vtrace_ok (remove_id (v_id vo) h) k cs' os'
      else o = Rejected /\ vtrace_ok h k cs' os'
  | VOffHandle i :: cs', o :: os' =>
      match find_id i h with
      | Some vo => o = Wire (NoteOff (v_chan vo) (v_pitch vo) default_release_velocity)
                   /\ chan_free (remove_id i h) (v_chan vo) = true /\ vtrace_ok (remove_id i h) k cs' os'
      | None => o = Silent /\ vtrace_ok h k cs' os'
      end
  | VBend i x :: cs', o :: os' =>
      o = match find_id i h with Some vo => Wire (PitchWheel (v_chan vo) x) | None => Silent end /\ vtrace_ok h k cs' os'
  | VTouch i x :: cs', o :: os' =>
      o = match find_id i h with Some vo => Wire (ChannelPressure (v_chan vo) x) | None => Silent end /\ vtrace_ok h k cs' os'
  | VCtl i c x :: cs', o :: os' =>
      o = match find_id i h with Some vo => Wire (ControlChange (v_chan vo) c x) | None => Silent end /\ vtrace_ok h k cs' os'
  | _, _ => False
  end.

Theorem vrun_ok : forall cs l k, vinv l k -> vtrace_ok l k cs (vrun (mkVS k l) cs).
Proof.
  induction cs as [|c cs IH]; intros l k I; [exact Logic.I|].
  destruct c as [n v|n|i|i x|i x|i c x]; cbn [vrun vstep vs_sounding vs_next vtrace_ok].
  - destruct (List.length l <? 15)%nat eqn:L.
    + apply Nat.ltb_lt in L. destruct (vnext_some l L) as [c [E [R F]]]. rewrite E. exists c.
      split; [reflexivity|]. split; [exact R|]. split; [exact F|]. apply IH. apply vinv_cons; assumption.
    + apply Nat.ltb_ge in L. pose proof I as [A [B _]]. rewrite (vnext_none l A B L). split; [reflexivity|].
      apply IH. apply vinv_next. exact I.
  - destruct (find_pitch n l) as [vo|] eqn:F.
    + destruct (find_pitch_spec n l vo F) as [Hin Hp].
      assert (X : existsb (fun v => v_pitch v =? n) l = true) by (apply existsb_exists; exists vo; split; [exact Hin | lia]).
      rewrite X. exists vo. repeat split; try assumption.
      * eapply released_channel_free; eassumption.
      * apply IH. apply vinv_remove. exact I.
    + assert (X : existsb (fun v => v_pitch v =? n) l = false).
      { destruct (existsb (fun v => v_pitch v =? n) l) eqn:E; [|reflexivity].
        apply existsb_exists in E as [w [Hw Ew]]. pose proof (find_pitch_none n l F w Hw). lia. }
      rewrite X. split; [reflexivity | apply IH; exact I].
  - destruct (find_id i l) as [vo|] eqn:F.
    + destruct (find_id_spec i l vo F) as [Hin Hi]. repeat split.
      * rewrite <- Hi. eapply released_channel_free; eassumption.
      * apply IH. apply vinv_remove. exact I.
    + split; [reflexivity | apply IH; exact I].
  - destruct (find_id i l); (split; [reflexivity | apply IH; exact I]).
  - destruct (find_id i l); (split; [reflexivity | apply IH; exact I]).
  - destruct (find_id i l); (split; [reflexivity | apply IH; exact I]).
Qed.

(** the invariant after ANY call sequence *)
Theorem vfinal_inv : forall cs l k, vinv l k ->
  vinv (vs_sounding (vfinal (mkVS k l) cs)) (vs_next (vfinal (mkVS k l) cs)).
Proof.
  induction cs as [|c cs IH]; intros l k I; [exact I|].
  destruct c as [n v|n|i|i x|i x|i c x]; cbn [vfinal vstep vs_sounding vs_next].
  - destruct (vnext_channel l) as [ch|] eqn:E; cbn [fst]; apply IH.
    + unfold vnext_channel in E. apply find_some in E as [Hin Hf]. apply chan_free_spec in Hf. apply in_mpe_channels in Hin.
      apply vinv_cons; assumption.
    + apply vinv_next. exact I.
  - destruct (find_pitch n l); cbn [fst]; apply IH; [apply vinv_remove|]; exact I.
  - destruct (find_id i l); cbn [fst]; apply IH; [apply vinv_remove|]; exact I.
  - destruct (find_id i l); cbn [fst]; apply IH; exact I.
  - destruct (find_id i l); cbn [fst]; apply IH; exact I.
  - destruct (find_id i l); cbn [fst]; apply IH; exact I.
Qed.

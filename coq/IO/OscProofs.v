(* IO/OscProofs.v — the OSC 1.0 decoder inverts the encoder, for every address and every
   (finite, arbitrarily long) argument list of int32s, 4-byte float payloads and NUL-free strings. *)
From Isobar Require Import Base.Prelude IO.Osc.
Open Scope Z_scope.

(** ---- list plumbing ---- *)
Lemma skipn_length_app {A} (a r : list A) : skipn (List.length a) (a ++ r) = r.
Proof. induction a; simpl; auto. Qed.
Lemma firstn_length_app {A} (a r : list A) : firstn (List.length a) (a ++ r) = a.
Proof. induction a; simpl; auto. f_equal; auto. Qed.
Lemma forallb_repeat_zero k : forallb (fun b => b =? 0) (repeat 0 k) = true.
Proof. induction k; simpl; auto. Qed.

Lemma pad_len_pos n : (1 <= pad_len n <= 4)%nat.
Proof.
  unfold pad_len. pose proof (Nat.mod_upper_bound n 4 ltac:(discriminate)). lia.
Qed.

Lemma pad_len_aligned n : Nat.modulo (n + pad_len n) 4 = 0%nat.
Proof.
  unfold pad_len. pose proof (Nat.mod_upper_bound n 4 ltac:(discriminate)) as B.
  pose proof (Nat.div_mod n 4 ltac:(discriminate)) as E.
  replace (n + (4 - Nat.modulo n 4))%nat with ((Nat.div n 4 + 1) * 4)%nat by lia.
  apply Nat.mod_mul. discriminate.
Qed.

Lemma take_nz_app s r : nonzero_bytes s = true -> take_nz (s ++ 0 :: r) = s.
Proof.
  induction s as [|b s IH]; simpl; intros H; [reflexivity|].
  apply andb_true_iff in H as [Hb Hs]. destruct (b =? 0); [discriminate|].
  f_equal. apply IH. exact Hs.
Qed.

(** ---- OSC-string ---- *)
Lemma read_string_aux s k rest :
  nonzero_bytes s = true -> pad_len (List.length s) = S k ->
  read_string ((s ++ repeat 0 (S k)) ++ rest) = Some (s, rest).
Proof.
  intros Hs Ep. unfold read_string.
  assert (T : take_nz ((s ++ repeat 0 (S k)) ++ rest) = s).
  { rewrite <- app_assoc. cbn [repeat app]. apply take_nz_app. exact Hs. }
  rewrite T, Ep. set (n := List.length s).
  assert (L : List.length ((s ++ repeat 0 (S k)) ++ rest) = (n + S k + List.length rest)%nat).
  { rewrite !app_length, repeat_length. fold n. lia. }
  rewrite L.
  destruct (Nat.ltb_spec (n + S k + List.length rest) (n + S k)) as [Hlt|_]; [lia|].
  assert (S1 : skipn n ((s ++ repeat 0 (S k)) ++ rest) = repeat 0 (S k) ++ rest).
  { rewrite <- app_assoc. apply skipn_length_app. }
  rewrite S1.
  assert (F1 : firstn (S k) (repeat 0 (S k) ++ rest) = repeat 0 (S k)).
  { rewrite <- (repeat_length 0 (S k)) at 1. apply firstn_length_app. }
  rewrite F1, forallb_repeat_zero.
  assert (S2 : skipn (n + S k) ((s ++ repeat 0 (S k)) ++ rest) = rest).
  { replace (n + S k)%nat with (List.length (s ++ repeat 0 (S k))) by (rewrite app_length, repeat_length; reflexivity).
    apply skipn_length_app. }
  rewrite S2. reflexivity.
Qed.

Lemma read_string_osc_string s rest :
  nonzero_bytes s = true -> read_string (osc_string s ++ rest) = Some (s, rest).
Proof.
  intros Hs. unfold osc_string. pose proof (pad_len_pos (List.length s)) as Hp.
  destruct (pad_len (List.length s)) as [|k] eqn:Ep; [lia|].
  apply read_string_aux; assumption.
Qed.

Lemma osc_string_aligned s : Nat.modulo (List.length (osc_string s)) 4 = 0%nat.
Proof. unfold osc_string. rewrite app_length, repeat_length. apply pad_len_aligned. Qed.

(** ---- int32 ---- *)
Lemma be32_roundtrip z : is_int32 z = true ->
  match be32 z with
  | [b0; b1; b2; b3] => from_be32 b0 b1 b2 b3 = z
  | _ => False
  end.
Proof.
  intros H. unfold is_int32 in H. unfold be32, from_be32.
  set (u := z mod 4294967296).
  assert (Hu : 0 <= u < 4294967296) by (subst u; lia).
  assert (Hz : u = z \/ u = z + 4294967296) by (subst u; lia).
  assert (E : u / 16777216 * 16777216 + (u / 65536) mod 256 * 65536 + (u / 256) mod 256 * 256 + u mod 256 = u).
  { clearbody u. clear Hz H. lia. }
  rewrite E. destruct (u <? 2147483648) eqn:C; lia.
Qed.

Lemma be32_bytes z : forallb (fun b => (0 <=? b) && (b <=? 255)) (be32 z) = true.
Proof. unfold be32. cbn [forallb]. set (u := z mod 4294967296). assert (0 <= u < 4294967296) by (subst u; lia). lia. Qed.

(** ---- arguments ---- *)
Lemma tags_nonzero args : nonzero_bytes (44 :: map tag_of args) = true.
Proof.
  unfold nonzero_bytes. cbn [forallb]. cbn. induction args as [|a r IH]; simpl; auto.
  rewrite IH. destruct a; reflexivity.
Qed.

Lemma read_args_roundtrip args :
  forallb arg_ok args = true ->
  read_args (map tag_of args) (concat (map enc_arg args)) = Some args.
Proof.
  induction args as [|a r IH]; intros H; [reflexivity|].
  cbn [forallb] in H. apply andb_true_iff in H as [Ha Hr]. specialize (IH Hr).
  cbn [map concat]. destruct a as [z | b0 b1 b2 b3 | s]; cbn [tag_of enc_arg read_args].
  - pose proof (be32_roundtrip z Ha) as B. unfold be32 in *. cbn [app].
    replace (105 =? 105) with true by reflexivity. cbv iota.
    rewrite IH. rewrite B. reflexivity.
  - replace (102 =? 105) with false by reflexivity. replace (102 =? 102) with true by reflexivity.
    cbn [app]. cbv iota. rewrite IH. reflexivity.
  - replace (115 =? 105) with false by reflexivity. replace (115 =? 102) with false by reflexivity.
    replace (115 =? 115) with true by reflexivity. cbv iota.
    rewrite (read_string_osc_string s _ Ha). rewrite IH. reflexivity.
Qed.

(** ---- whole messages ---- *)
Theorem osc_roundtrip addr args :
  nonzero_bytes addr = true -> forallb arg_ok args = true ->
  osc_decode (osc_encode addr args) = Some (addr, args).
Proof.
  intros Ha Hargs. unfold osc_decode, osc_encode.
  rewrite (read_string_osc_string addr _ Ha).
  rewrite (read_string_osc_string (44 :: map tag_of args) _ (tags_nonzero args)).
  rewrite (read_args_roundtrip args Hargs). reflexivity.
Qed.

Theorem osc_encode_inj a1 l1 a2 l2 :
  nonzero_bytes a1 = true -> forallb arg_ok l1 = true ->
  nonzero_bytes a2 = true -> forallb arg_ok l2 = true ->
  osc_encode a1 l1 = osc_encode a2 l2 -> a1 = a2 /\ l1 = l2.
Proof.
  intros H1 H2 H3 H4 E.
  pose proof (osc_roundtrip a1 l1 H1 H2) as R1. pose proof (osc_roundtrip a2 l2 H3 H4) as R2.
  rewrite E in R1. rewrite R1 in R2. injection R2; auto.
Qed.

(** the datagram is a whole number of 4-byte words *)
Lemma enc_arg_aligned a : Nat.modulo (List.length (enc_arg a)) 4 = 0%nat.
Proof. destruct a; [reflexivity | reflexivity | apply osc_string_aligned]. Qed.

Lemma mod4_add a b : Nat.modulo a 4 = 0%nat -> Nat.modulo b 4 = 0%nat -> Nat.modulo (a + b) 4 = 0%nat.
Proof.
  intros Ha Hb. rewrite Nat.add_mod by discriminate. rewrite Ha, Hb. reflexivity.
Qed.

Lemma osc_encode_aligned addr args : Nat.modulo (List.length (osc_encode addr args)) 4 = 0%nat.
Proof.
  unfold osc_encode. rewrite !app_length.
  apply mod4_add; [apply osc_string_aligned|]. apply mod4_add; [apply osc_string_aligned|].
  induction args as [|a r IH]; [reflexivity|]. cbn [map concat]. rewrite app_length.
  apply mod4_add; [apply enc_arg_aligned | exact IH].
Qed.

(** ---- the documented forms, byte for byte, for 7/8-bit integer arguments ---- *)
Lemma be32_small n : 0 <= n <= 255 -> be32 n = [0; 0; 0; n].
Proof.
  intros H. unfold be32. assert (E : n mod 4294967296 = n) by lia. rewrite E.
  repeat f_equal; lia.
Qed.

Lemma osc_note_on_bytes n v c : 0 <= n <= 255 -> 0 <= v <= 255 -> 0 <= c <= 255 ->
  osc_wire (osc_note_on (OInt n) (OInt v) (OInt c))
  = [47; 110; 111; 116; 101; 0; 0; 0;  44; 105; 105; 105; 0; 0; 0; 0;
     0; 0; 0; n;  0; 0; 0; v;  0; 0; 0; c].
Proof.
  intros Hn Hv Hc. unfold osc_wire, osc_note_on, osc_encode. cbn [fst snd map tag_of enc_arg concat].
  rewrite (be32_small n Hn), (be32_small v Hv), (be32_small c Hc). reflexivity.
Qed.

Lemma osc_control_bytes k v c : 0 <= k <= 255 -> 0 <= v <= 255 -> 0 <= c <= 255 ->
  osc_wire (osc_control (OInt k) (OInt v) (OInt c))
  = [47; 99; 111; 110; 116; 114; 111; 108; 0; 0; 0; 0;  44; 105; 105; 105; 0; 0; 0; 0;
     0; 0; 0; k;  0; 0; 0; v;  0; 0; 0; c].
Proof.
  intros Hk Hv Hc. unfold osc_wire, osc_control, osc_encode. cbn [fst snd map tag_of enc_arg concat].
  rewrite (be32_small k Hk), (be32_small v Hv), (be32_small c Hc). reflexivity.
Qed.

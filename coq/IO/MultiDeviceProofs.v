(* IO/MultiDeviceProofs.v — non-interference: in ANY interleaving of calls to any number of devices, every device
   produces exactly what its own call subsequence produces on a device that is alone in the process. *)
From Isobar Require Import Base.Prelude IO.MidiBytes IO.Mpe IO.MpeProofs IO.MultiDevice.
Open Scope Z_scope.

Section ProductProofs.
  Variables (S C O : Type).
  Variable step : S -> C -> S * O.

  Lemma pupd_same (ps : pstate S) d s : pupd ps d s d = s.
  Proof. unfold pupd. rewrite Z.eqb_refl. reflexivity. Qed.
  Lemma pupd_other (ps : pstate S) d s x : x <> d -> pupd ps d s x = ps x.
  Proof. intros H. unfold pupd. destruct (x =? d) eqn:E; [lia | reflexivity]. Qed.

  (** the outputs of device d, and its final state, depend on d's own calls only *)
  Theorem noninterference : forall (cs : list (Z * C)) (ps : pstate S) d,
    outs_of d (prun step ps cs) = run1 step (ps d) (calls_of d cs)
    /\ pfinal step ps cs d = final1 step (ps d) (calls_of d cs).
  Proof.
    induction cs as [|[d' c] cs IH]; intros ps d; [split; reflexivity|].
    cbn [prun pfinal]. unfold pstep. cbn [fst snd].
    destruct (step (ps d') c) as [s' o] eqn:E. cbn [fst snd].
    unfold calls_of, outs_of. cbn [filter fst snd].
    destruct (IH (pupd ps d' s') d) as [I1 I2].
    destruct (d' =? d) eqn:D.
    - assert (d' = d) by lia. subst d'. cbn [map snd run1 final1]. rewrite E. cbn [fst].
      rewrite pupd_same in I1, I2. split; [f_equal; exact I1 | exact I2].
    - rewrite pupd_other in I1, I2 by lia. split; [exact I1 | exact I2].
  Qed.

  (** a device that receives no call keeps its state (in particular one that is created later starts fresh) *)
  Corollary untouched_device : forall (cs : list (Z * C)) (ps : pstate S) d,
    calls_of d cs = [] -> pfinal step ps cs d = ps d.
  Proof. intros cs ps d H. destruct (noninterference cs ps d) as [_ F]. rewrite F, H. reflexivity. Qed.

  (** two interleavings with the same per-device subsequences are indistinguishable on every device *)
  Corollary interleaving_irrelevant : forall (cs1 cs2 : list (Z * C)) (ps : pstate S) d,
    calls_of d cs1 = calls_of d cs2 ->
    outs_of d (prun step ps cs1) = outs_of d (prun step ps cs2).
  Proof.
    intros cs1 cs2 ps d H. destruct (noninterference cs1 ps d) as [A _]. destruct (noninterference cs2 ps d) as [B _].
    rewrite A, B, H. reflexivity.
  Qed.

  Lemma prun_length : forall (cs : list (Z * C)) (ps : pstate S), List.length (prun step ps cs) = List.length cs.
  Proof.
    induction cs as [|dc cs IH]; intros ps; [reflexivity|]. cbn [prun]. destruct (pstep step ps dc) as [ps' o].
    cbn [List.length]. rewrite IH. reflexivity.
  Qed.
End ProductProofs.

(** ---- the MPE allocator ---- *)
Lemma run1_mpe : forall cs s, run1 mpe_step s cs = mpe_run s cs.
Proof.
  induction cs as [|c cs IH]; intros s; [reflexivity|]. cbn [run1 mpe_run].
  destruct (mpe_step s c) as [s' o]. rewrite IH. reflexivity.
Qed.
Lemma final1_mpe : forall cs s, final1 mpe_step s cs = mpe_final s cs.
Proof. induction cs as [|c cs IH]; intros s; [reflexivity|]. cbn [final1 mpe_final]. apply IH. Qed.

(** any interleaving of calls to any devices: device d sends exactly what it would send alone ... *)
Lemma mpe_multi_alone cs d :
  outs_of d (mpe_multi_run cs) = mpe_run mpe_init (calls_of d cs)
  /\ pfinal mpe_step mpe_all_init cs d = mpe_final mpe_init (calls_of d cs).
Proof.
  unfold mpe_multi_run. destruct (noninterference _ _ _ mpe_step cs mpe_all_init d) as [A B].
  rewrite A, B, run1_mpe, final1_mpe. split; reflexivity.
Qed.

(** ... hence, for every device whose OWN calls are well-formed (whatever the other devices are asked to do, even
    sixteen notes at once or releases of notes that are up): every held note of d on a channel of its own in 1..15,
    release and expression on that channel, release frees it — and d's tables are those of a device alone *)
Lemma mpe_multi_ok cs d :
  mpe_wf [] (calls_of d cs) ->
  mpe_trace_ok [] (calls_of d cs) (outs_of d (mpe_multi_run cs))
  /\ let s := pfinal mpe_step mpe_all_init cs d in
     (forall n1 n2 c, note_chan s n1 = Some c -> note_chan s n2 = Some c -> n1 = n2)
     /\ (forall n c, note_chan s n = Some c -> 1 <= c <= 15).
Proof.
  intros W. destruct (mpe_multi_alone cs d) as [A B]. rewrite A. split.
  - apply mpe_run_ok; [exact inv_init | exact W].
  - cbn zeta. rewrite B.
    destruct (mpe_final_inv (calls_of d cs) [] mpe_init inv_init W) as [h [I _]].
    split; [intros n1 n2 c; apply (inv_distinct h); exact I | intros n c; apply (inv_range h); exact I].
Qed.

(* IO/ReaderHistoryProofs.v — lemmas about IO/ReaderHistory.v: what a long-lived reader object returns is a function of
   the file as it is at the time of the read — never of what the object has read before. *)
From Isobar Require Import Base.Prelude IO.MidiFile IO.MidiFileProofs IO.ReaderHistory.

Definition count_reads (ops : list hop) : nat := List.length (filter is_read ops).

Lemma hist_run_app : forall a f b, hist_run f (a ++ b) = hist_run f a ++ hist_run (fs_after f a) b.
Proof.
  induction a as [|o a IH]; intros f b; [reflexivity|].
  cbn [app hist_run fs_after]. destruct (hop_step f o) as [f' out] eqn:E. cbn [fst].
  destruct out; cbn [app]; rewrite IH; reflexivity.
Qed.

Lemma fs_after_app : forall a f b, fs_after f (a ++ b) = fs_after (fs_after f a) b.
Proof. induction a as [|o a IH]; intros f b; [reflexivity|]. cbn [app fs_after]. apply IH. Qed.

Lemma hist_run_length : forall ops f, List.length (hist_run f ops) = count_reads ops.
Proof.
  induction ops as [|o ops IH]; intros f; [reflexivity|].
  cbn [hist_run]. unfold count_reads. cbn [filter].
  destruct o; cbn [hop_step is_read List.length]; rewrite IH; reflexivity.
Qed.

(** an operation that does not touch path p leaves the file at p as it is — in particular every read *)
Lemma hop_step_untouched f o p : touches p o = false -> fst (hop_step f o) p = f p.
Proof.
  destruct o as [p' c|p' es|p'|p' q]; cbn [touches hop_step fst]; intros H; try reflexivity;
    unfold fs_set; rewrite Z.eqb_sym, H; reflexivity.
Qed.

Lemma fs_after_untouched : forall mid f p,
  forallb (fun o => negb (touches p o)) mid = true -> fs_after f mid p = f p.
Proof.
  induction mid as [|o mid IH]; intros f p H; [reflexivity|].
  cbn [forallb] in H. apply andb_true_iff in H as [H1 H2]. apply negb_true_iff in H1.
  cbn [fs_after]. rewrite IH by exact H2. apply hop_step_untouched. exact H1.
Qed.

(** the k-th read of a history, k = number of reads before it, returns the decoding (with ITS quantize value) of the
    file as it is after everything that happened before it *)
Lemma hist_read_spec f pre p q post :
  nth_error (hist_run f (pre ++ HRead p q :: post)) (count_reads pre)
  = Some (option_map (read_file_q q) (fs_after f pre p)).
Proof.
  rewrite hist_run_app. rewrite nth_error_app2 by (rewrite hist_run_length; lia).
  rewrite hist_run_length, Nat.sub_diag. reflexivity.
Qed.

Lemma fs_after_write f pre p c mid :
  forallb (fun o => negb (touches p o)) mid = true ->
  fs_after f (pre ++ HWrite p c :: mid) p = Some c.
Proof.
  intros H. rewrite fs_after_app. cbn [fs_after hop_step fst]. rewrite fs_after_untouched by exact H.
  unfold fs_set. rewrite Z.eqb_refl. reflexivity.
Qed.

Lemma fs_after_save f pre p es mid :
  forallb (fun o => negb (touches p o)) mid = true ->
  fs_after f (pre ++ HSave p es :: mid) p = Some [file_of_events es].
Proof.
  intros H. rewrite fs_after_app. cbn [fs_after hop_step fst]. rewrite fs_after_untouched by exact H.
  unfold fs_set. rewrite Z.eqb_refl. reflexivity.
Qed.

Lemma fs_after_remove f pre p mid :
  forallb (fun o => negb (touches p o)) mid = true ->
  fs_after f (pre ++ HRemove p :: mid) p = None.
Proof.
  intros H. rewrite fs_after_app. cbn [fs_after hop_step fst]. rewrite fs_after_untouched by exact H.
  unfold fs_set. rewrite Z.eqb_refl. reflexivity.
Qed.

(** each read returns the decoding of the LATEST write to its path, whatever was written, read (by this reader or any
    other, with any quantize value) or removed before that write, and whatever happened to other paths or was read
    since *)
Lemma hist_read_latest_write f pre p c mid q post :
  forallb (fun o => negb (touches p o)) mid = true ->
  nth_error (hist_run f (pre ++ HWrite p c :: mid ++ HRead p q :: post)) (count_reads (pre ++ HWrite p c :: mid))
  = Some (Some (read_file_q q c)).
Proof.
  intros H.
  replace (pre ++ HWrite p c :: mid ++ HRead p q :: post) with ((pre ++ HWrite p c :: mid) ++ HRead p q :: post)
    by (rewrite <- app_assoc; reflexivity).
  rewrite hist_read_spec, fs_after_write by exact H. reflexivity.
Qed.

Lemma hist_read_after_remove f pre p mid q post :
  forallb (fun o => negb (touches p o)) mid = true ->
  nth_error (hist_run f (pre ++ HRemove p :: mid ++ HRead p q :: post)) (count_reads (pre ++ HRemove p :: mid))
  = Some None.
Proof.
  intros H.
  replace (pre ++ HRemove p :: mid ++ HRead p q :: post) with ((pre ++ HRemove p :: mid) ++ HRead p q :: post)
    by (rewrite <- app_assoc; reflexivity).
  rewrite hist_read_spec, fs_after_remove by exact H. reflexivity.
Qed.

(** earlier reads play no role: the file system after a history is the one after its writes and removals alone *)
Lemma fs_after_reads_irrelevant : forall ops f p,
  fs_after f ops p = fs_after f (filter (fun o => negb (is_read o)) ops) p.
Proof.
  induction ops as [|o ops IH]; intros f p; [reflexivity|].
  destruct o as [p' c|p' es|p'|p' q]; cbn [filter is_read negb fs_after hop_step fst]; apply IH.
Qed.

Lemma hist_read_independent_of_reads f pre p q post :
  nth_error (hist_run f (pre ++ HRead p q :: post)) (count_reads pre)
  = Some (option_map (read_file_q q) (fs_after f (filter (fun o => negb (is_read o)) pre) p)).
Proof. rewrite hist_read_spec, <- fs_after_reads_irrelevant. reflexivity. Qed.

(** quantize None / 0: the reader of IO/MidiFile.v *)
Lemma read_file_q_0 c : read_file_q 0 c = read_file c.
Proof. reflexivity. Qed.

(** round trip through a history: isobar saved the events to p; since then p was not touched; the reader object of p
    — however old, whatever it has read before — reads back the events *)
Lemma hist_roundtrip f pre p es mid post :
  events_ok es = true -> place_all es 0 <> [] ->
  forallb (fun o => negb (touches p o)) mid = true ->
  nth_error (hist_run f (pre ++ HSave p es :: mid ++ HRead p 0 :: post)) (count_reads (pre ++ HSave p es :: mid))
  = Some (Some (ROk (expected es))).
Proof.
  intros Hok Hne H.
  replace (pre ++ HSave p es :: mid ++ HRead p 0 :: post) with ((pre ++ HSave p es :: mid) ++ HRead p 0 :: post)
    by (rewrite <- app_assoc; reflexivity).
  rewrite hist_read_spec, fs_after_save by exact H. cbn [option_map]. rewrite read_file_q_0.
  unfold read_file, file_of_events. cbn [find]. rewrite file_has_note_on by exact Hne.
  rewrite roundtrip_track by exact Hok. reflexivity.
Qed.

(** ---- quantize ---- *)
Lemma rhe_mul k q : 0 < q -> rhe (k * q) q = k.
Proof.
  intros Hq. unfold rhe. rewrite Z.div_mul, Z.mod_mul by lia.
  replace (2 * 0) with 0 by lia. destruct (0 <? q) eqn:E; [reflexivity|lia].
Qed.

(** round(a/q) is a nearest integer: |a - rhe a q * q| <= q/2 *)
Lemma rhe_nearest a q : 0 < q -> 2 * Z.abs (a - rhe a q * q) <= q.
Proof.
  intros Hq. unfold rhe.
  pose proof (Z.div_mod a q ltac:(lia)) as D. pose proof (Z.mod_pos_bound a q Hq) as B.
  set (k := a / q) in *. set (r := a mod q) in *. clearbody k r.
  destruct (2 * r <? q) eqn:E1; [nia|].
  destruct (q <? 2 * r) eqn:E2; [nia|].
  destruct (Z.even k); nia.
Qed.

Definition on_grid (q : Z) (n : note) : Prop :=
  (exists k, n_loc n = k * q) /\ match n_dur n with Some d => exists k, d = k * q | None => True end.

(** music that lies on the grid already is not changed by quantising to that grid *)
Lemma qnotes_on_grid q ns : Forall (on_grid q) ns -> qnotes q ns = ns.
Proof.
  intros H. unfold qnotes. destruct (0 <? q) eqn:Q; [|reflexivity].
  induction H as [|n ns [[k Hk] Hd] _ IH]; [reflexivity|].
  cbn [map]. rewrite IH. f_equal. destruct n as [p v l d]. cbn [n_loc n_dur] in *. unfold qnote. cbn [n_pitch n_vel n_loc n_dur].
  unfold qz. subst l. rewrite rhe_mul by lia. destruct d as [d|]; cbn [option_map]; [|reflexivity].
  destruct Hd as [k' ->]. rewrite rhe_mul by lia. reflexivity.
Qed.

Lemma read_track_q_on_grid q ms : Forall (on_grid q) (scan ms 0 []) -> read_track_q q ms = read_track ms.
Proof. intros H. unfold read_track_q, read_track. rewrite qnotes_on_grid by exact H. reflexivity. Qed.

(** ---- round trip under quantisation: music written on the grid is read back unchanged with quantize = the grid ---- *)
Definition events_on_grid (q : Z) (es : list event) : bool :=
  forallb (fun e => (e_dur e mod q =? 0) && forallb (fun v => v_len v mod q =? 0) (e_voices e)) es.

Lemma mod0_multiple x q : 0 < q -> x mod q = 0 -> exists k, x = k * q.
Proof. intros Hq H. exists (x / q). pose proof (Z.div_mod x q ltac:(lia)). lia. Qed.

Lemma place_all_on_grid q : 0 < q -> forall es o, events_on_grid q es = true -> o mod q = 0 ->
  Forall (on_grid q) (map cl (place_all es o)).
Proof.
  intros Hq. induction es as [|e es IH]; intros o G Ho; [constructor|].
  cbn [events_on_grid forallb] in G. apply andb_true_iff in G as [Ge G]. apply andb_true_iff in Ge as [Gd Gv].
  cbn [place_all]. rewrite map_app. apply Forall_app. split.
  - unfold place. rewrite map_map. apply Forall_forall. intros n Hn. apply in_map_iff in Hn as [v [<- Hv]].
    unfold cl, mkn, on_grid. cbn [n_loc n_dur f_on f_voice].
    split; [apply mod0_multiple; assumption|].
    rewrite forallb_forall in Gv. specialize (Gv v Hv). apply mod0_multiple; [exact Hq | lia].
  - apply IH; [exact G|]. rewrite Z.add_mod by lia. rewrite Ho. replace (e_dur e mod q) with 0 by lia. reflexivity.
Qed.

Lemma roundtrip_track_q q es tend : 0 < q -> events_ok es = true -> events_on_grid q es = true ->
  read_track_q q (encode 0 (sched_calls es) tend) = ROk (expected es).
Proof.
  intros Hq Hok G. rewrite read_track_q_on_grid; [apply roundtrip_track; exact Hok|].
  rewrite scan_file_of_calls by exact Hok. apply place_all_on_grid; [exact Hq | exact G | reflexivity].
Qed.

Lemma roundtrip_file_q q es : 0 < q -> events_ok es = true -> events_on_grid q es = true -> place_all es 0 <> [] ->
  read_file_q q [file_of_events es] = ROk (expected es).
Proof.
  intros Hq Hok G Hne. unfold read_file_q, file_of_events. cbn [find]. rewrite file_has_note_on by exact Hne.
  apply roundtrip_track_q; assumption.
Qed.

Lemma hist_roundtrip_q f pre p es mid q post :
  0 < q -> events_ok es = true -> events_on_grid q es = true -> place_all es 0 <> [] ->
  forallb (fun o => negb (touches p o)) mid = true ->
  nth_error (hist_run f (pre ++ HSave p es :: mid ++ HRead p q :: post)) (count_reads (pre ++ HSave p es :: mid))
  = Some (Some (ROk (expected es))).
Proof.
  intros Hq Hok G Hne H.
  replace (pre ++ HSave p es :: mid ++ HRead p q :: post) with ((pre ++ HSave p es :: mid) ++ HRead p q :: post)
    by (rewrite <- app_assoc; reflexivity).
  rewrite hist_read_spec, fs_after_save by exact H. cbn [option_map]. rewrite roundtrip_file_q by assumption. reflexivity.
Qed.

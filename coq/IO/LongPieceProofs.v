(* IO/LongPieceProofs.v — `events_short` (linear) implies `events_ok`; every voice of every event of a written piece is in the
   file as a note_on at its onset tick, however many there are; the endless score `long_piece` satisfies `events_short` for every
   start and every length, so the round-trip theorems hold for it beyond any limit. *)
From Isobar Require Import Base.Prelude IO.MidiFile IO.MidiFileProofs IO.LongPiece.

(** ---- events_short -> events_ok ---- *)
Lemma place_all_onsets : forall es o g, forallb event_ok es = true -> In g (place_all es o) -> o <= f_on g.
Proof.
  induction es as [|e es IH]; intros o g H Hin; [destruct Hin|].
  cbn [forallb] in H. apply andb_true_iff in H as [He H]. cbn [place_all] in Hin. apply in_app_or in Hin as [Hin|Hin].
  - unfold place in Hin. apply in_map_iff in Hin as [v [<- _]]. cbn. lia.
  - specialize (IH _ _ H Hin). unfold event_ok in He. apply andb_true_iff in He as [Hd _]. lia.
Qed.

Lemma no_overlap_app l1 l2 :
  no_overlap l1 = true -> no_overlap l2 = true ->
  (forall f g, In f l1 -> In g l2 -> f_pitch g <> f_pitch f \/ f_rel f <= f_on g) ->
  no_overlap (l1 ++ l2) = true.
Proof.
  induction l1 as [|f l1 IH]; intros H1 H2 X; [exact H2|].
  cbn [no_overlap app] in *. apply andb_true_iff in H1 as [A B]. apply andb_true_iff. split.
  - rewrite forallb_app. apply andb_true_iff. split; [exact A|].
    apply forallb_forall. intros g Hg. destruct (X f g (or_introl eq_refl) Hg) as [P|P].
    + destruct (f_pitch g =? f_pitch f) eqn:E; [lia | reflexivity].
    + apply orb_true_iff. right. lia.
  - apply IH; [exact B | exact H2 | intros f' g Hf Hg; apply X; [right; exact Hf | exact Hg]].
Qed.

Lemma no_overlap_place o d : forall vs, distinctb (map v_pitch vs) = true ->
  no_overlap (place o (mkEvent vs d)) = true.
Proof.
  unfold place. cbn [e_voices]. induction vs as [|v vs IH]; intros H; [reflexivity|].
  cbn [map distinctb] in H. apply andb_true_iff in H as [A B]. cbn [map no_overlap]. apply andb_true_iff. split; [|apply IH; exact B].
  apply forallb_forall. intros g Hg. apply in_map_iff in Hg as [w [<- Hw]]. unfold f_pitch. cbn [f_voice].
  apply negb_true_iff in A. destruct (v_pitch w =? v_pitch v) eqn:E; [|reflexivity].
  exfalso. assert (X : existsb (Z.eqb (v_pitch v)) (map v_pitch vs) = true).
  { apply existsb_exists. exists (v_pitch w). split; [apply in_map; exact Hw | lia]. }
  congruence.
Qed.

Lemma events_short_no_overlap : forall es o, forallb event_ok es = true -> forallb event_short es = true ->
  no_overlap (place_all es o) = true.
Proof.
  induction es as [|e es IH]; intros o Hok Hs; [reflexivity|].
  cbn [forallb] in Hok, Hs. apply andb_true_iff in Hok as [He Hok]. apply andb_true_iff in Hs as [Se Hs].
  cbn [place_all]. unfold event_short in Se. apply andb_true_iff in Se as [Sl Sd]. apply no_overlap_app.
  - destruct e as [vs d]. apply no_overlap_place. exact Sd.
  - apply IH; assumption.
  - intros f g Hf Hg. right. pose proof (place_all_onsets es (o + e_dur e) g Hok Hg) as G.
    unfold place in Hf. apply in_map_iff in Hf as [v [<- Hv]]. unfold f_rel. cbn [f_on f_voice].
    rewrite forallb_forall in Sl. specialize (Sl v Hv). lia.
Qed.

Lemma events_short_ok es : events_short es = true -> events_ok es = true.
Proof.
  unfold events_short, events_ok. intros H. apply andb_true_iff in H as [A B]. apply andb_true_iff. split; [exact A|].
  apply events_short_no_overlap; assumption.
Qed.

(** ---- every voice of every event is written, at its onset tick ---- *)
Lemma voices_written es : events_ok es = true ->
  ons_of (absolute 0 (file_of_events es)) = map vkey (place_all es 0).
Proof.
  intros Hok. pose proof (scan_file_of_calls es (sched_end es) Hok) as S. fold (file_of_events es) in S.
  assert (K : map nkey (scan (file_of_events es) 0 []) = ons_of (absolute 0 (file_of_events es))).
  { rewrite scan_absolute, scan_abs_steps, steps_keys. reflexivity. }
  rewrite <- K, S, map_map. apply map_ext. intros f. reflexivity.
Qed.

(** ---- the endless score ---- *)
Lemma long_event_ok j : 0 <= j -> event_ok (long_event j) = true /\ event_short (long_event j) = true.
Proof.
  intros Hj. unfold long_event, event_ok, event_short, voice_ok.
  destruct (j mod 7 =? 3) eqn:E; cbn [e_dur e_voices forallb map v_vel v_len v_pitch distinctb existsb].
  - repeat rewrite andb_true_iff. repeat split; lia.
  - repeat rewrite andb_true_iff. repeat split; lia.
Qed.

Lemma long_piece_short : forall n i, 0 <= i -> events_short (long_piece i n) = true.
Proof.
  unfold events_short. induction n as [|n IH]; intros i Hi; [reflexivity|].
  cbn [long_piece forallb]. destruct (long_event_ok i Hi) as [A B]. rewrite A, B. cbn [andb]. apply IH. lia.
Qed.

Lemma long_piece_length : forall n i, List.length (long_piece i n) = n.
Proof. induction n as [|n IH]; intros i; [reflexivity|]. cbn [long_piece List.length]. rewrite IH. reflexivity. Qed.

Lemma long_piece_sounds : forall n i, n <> O -> place_all (long_piece i n) 0 <> [].
Proof.
  intros [|n] i H; [congruence|]. cbn [long_piece place_all]. unfold place, long_event.
  destruct (i mod 7 =? 3); cbn; discriminate.
Qed.

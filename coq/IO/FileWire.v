(* IO/FileWire.v — property C19: WHEN a request lands in the MIDI file (delta times), and what a
   HISTORY of requests on one output device puts on the wire.

   Mirrors isobar/io/midifile/output.py (MidiFileOutputDevice):
       tick():      self.time += 1.0 / self.ticks_per_beat
       note_on():   dt = self.time - self.last_event_time
                    dt_ticks = int(round(dt * self.midifile.ticks_per_beat))
                    self.miditrack.append(Message('note_on', ..., time=dt_ticks))   # raises on bad fields
                    self.last_event_time = self.time
       note_off():  the same with 'note_off'
       write():     the same with the dummy note_off(note 0, channel 0), then save
       control(), program_change(): inherited from OutputDevice (isobar/io/output.py): `pass` —
                    nothing is written and last_event_time is NOT touched ([FSilent]); a device that
                    does override them appends the message like note_on ([FReq]).
   A request whose fields mido rejects raises inside Message(...), i.e. BEFORE the append and before
   last_event_time is resynchronised: it leaves the device untouched.

   Time is kept in FILE TICKS (integers): self.time = ticks / ticks_per_beat, and with exact
   arithmetic  round((a/tpb - b/tpb) * tpb) = a - b  for every tpb > 0 (FileWireProofs.round_beats_exact,
   on rationals with Python's round-half-even).  The float error of the real code is not modelled; the
   correspondence check compares the integer delta times of the saved file with this model, so any
   loss in the running time shows.

   [FTicks n] stands for n consecutive tick() calls (run-length form, so that gaps of 100+ beats stay
   small terms); FileWireProofs.ticks_run_length proves it is the same as n single ticks.

   Messages are IO.MidiBytes.midi_msg (note, velocity/value, channel as the port model has them).
   No proofs in this file. *)
From Isobar Require Import Base.Prelude IO.MidiBytes IO.Osc.
Open Scope Z_scope.

(* ------------------------------------------------------------------------------------------ *)
(** * The MIDI-file device as a state machine *)

Inductive fop : Type :=
| FTicks (n : Z)          (* n consecutive tick() calls *)
| FReq (m : midi_msg)     (* a request the device writes (note_on, note_off, ...), fields already int()-ed *)
| FSilent.                (* a request the device inherits as a no-op *)

Definition tmsg : Type := (Z * midi_msg)%type.        (* (delta or absolute time in ticks, message) *)

Record fdev : Type := mkF {
  f_time : Z;              (* self.time * ticks_per_beat *)
  f_last : Z;              (* self.last_event_time * ticks_per_beat *)
  f_track : list tmsg      (* self.miditrack, most recent first *)
}.

Definition f_init : fdev := mkF 0 0 [].

Definition f_emit (d : fdev) (m : midi_msg) : fdev :=
  if msg_valid m
  then mkF (f_time d) (f_time d) ((f_time d - f_last d, m) :: f_track d)
  else d.                                       (* Message(...) raised: nothing appended, no resync *)

Definition f_step (d : fdev) (o : fop) : fdev :=
  match o with
  | FTicks n => mkF (f_time d + n) (f_last d) (f_track d)
  | FReq m => f_emit d m
  | FSilent => d
  end.

Definition f_run (ops : list fop) (d : fdev) : fdev := fold_left f_step ops d.

(* the dummy note_off write() appends (mido's default release velocity) *)
Definition closing : midi_msg := NoteOff 0 0 default_release_velocity.

(* write(): append the closing message with its delta; the track in file order *)
Definition f_write (d : fdev) : list tmsg := rev ((f_time d - f_last d, closing) :: f_track d).

Definition file_written (ops : list fop) : list tmsg := f_write (f_run ops f_init).

(* ------------------------------------------------------------------------------------------ *)
(** * What the property asks for: every request at the tick it was made on *)

(* each written request tagged with the number of tick() calls that preceded it; then the closing
   message at the end of the run *)
Fixpoint timed (now : Z) (ops : list fop) : list tmsg :=
  match ops with
  | [] => [(now, closing)]
  | FTicks n :: r => timed (now + n) r
  | FReq m :: r => if msg_valid m then (now, m) :: timed now r else timed now r
  | FSilent :: r => timed now r
  end.

(* delta times -> absolute ticks (what a reader of the file computes) *)
Fixpoint absolute (t0 : Z) (ms : list tmsg) : list tmsg :=
  match ms with
  | [] => []
  | (d, m) :: r => (t0 + d, m) :: absolute (t0 + d) r
  end.

(* the same run, written forward (no state record): used by the proofs *)
Fixpoint f_out (time last : Z) (ops : list fop) : list tmsg :=
  match ops with
  | [] => [(time - last, closing)]
  | FTicks n :: r => f_out (time + n) last r
  | FReq m :: r => if msg_valid m then (time - last, m) :: f_out time time r else f_out time last r
  | FSilent :: r => f_out time last r
  end.

Definition ticks_ok (ops : list fop) : bool :=
  forallb (fun o => match o with FTicks n => 0 <=? n | _ => true end) ops.

(* ------------------------------------------------------------------------------------------ *)
(** * Comparison with a saved file: (delta time, bytes) of every non-meta message, in file order *)

Fixpoint all2f {A B} (f : A -> B -> bool) (l1 : list A) (l2 : list B) : bool :=
  match l1, l2 with [], [] => true | x :: xs, y :: ys => f x y && all2f f xs ys | _, _ => false end.

Definition tmsg_agrees (e : tmsg) (o : Z * list Z) : bool :=
  (fst e =? fst o) && same_request (snd e) (snd o).

Definition file_agrees (ops : list fop) (observed : list (Z * list Z)) : bool :=
  all2f tmsg_agrees (file_written ops) observed.

(* the absolute tick of every message of the saved file is the tick the model says *)
Fixpoint abs_ticks (t0 : Z) (deltas : list Z) : list Z :=
  match deltas with [] => [] | d :: r => (t0 + d) :: abs_ticks (t0 + d) r end.

Definition file_ticks_agree (ops : list fop) (observed : list (Z * list Z)) : bool :=
  list_eqb Z.eqb (map fst (timed 0 ops)) (abs_ticks 0 (map fst observed)).

(* ------------------------------------------------------------------------------------------ *)
(** * A history of OSC requests on one device: the device keeps no state between requests *)

Definition osc_history (reqs : list osc_msg) : list (list Z) := map osc_wire reqs.

Definition osc_history_agrees (reqs : list osc_msg) (dgrams : list (list Z)) : bool :=
  all2f dgram_agrees reqs dgrams.

(* a history of requests on a MIDI port: one message per valid request, none for a rejected one *)
Definition port_history (reqs : list midi_msg) : list (option (list Z)) := map checked reqs.

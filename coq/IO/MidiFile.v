(* IO/MidiFile.v — executable model of isobar's MIDI-file writer and reader (property C16).

   Mirrors  isobar/io/midifile/output.py  (MidiFileOutputDevice: tick / note_on / note_off / write)
            isobar/io/midifile/input.py   (MidiFileInputDevice.read, quantize=None)
   and the part of the scheduler that decides in which order and on which tick the device is called
   for a sequence of note/chord events (Timeline.tick: note-offs, then the track's event, then the
   device tick; Track.perform_event: one note_on per voice, one pending note-off per voice).

   Everything is over ABSTRACT MESSAGE LISTS  list (delta * msg) ; the bytes of the Standard MIDI File
   are mido's business (trusted, and exercised by the correspondence check, which parses every file the
   implementation writes with mido and builds every foreign file with mido).

   Times are integers in FILE TICKS.  isobar keeps beats in floats (tick / ticks_per_beat); the
   correspondence check converts the floats it observes back to ticks (they must be within 1e-6 tick of
   an integer).  The float arithmetic itself (time += 1.0/tpb, int(round(dt * tpb))) is not modelled:
   with exact arithmetic the rounding is the identity.

   No proofs in this file. *)
From Isobar Require Import Base.Prelude.

(* ------------------------------------------------------------------------------------------ *)
(** * Messages *)

(* what the reader can distinguish: note_on, note_off, anything else (control_change, pitchwheel,
   program_change, any meta message ...), identified by an opaque tag *)
Inductive msg : Type :=
| NoteOn (ch note vel : Z)
| NoteOff (ch note : Z)
| Other (tag : Z).

Definition tmsg : Type := (Z * msg)%type.      (* (delta time in ticks, message) as in a MIDI track *)

Definition msg_eqb (a b : msg) : bool :=
  match a, b with
  | NoteOn c n v, NoteOn c' n' v' => (c =? c') && (n =? n') && (v =? v')
  | NoteOff c n, NoteOff c' n' => (c =? c') && (n =? n')
  | Other t, Other t' => t =? t'
  | _, _ => false
  end.
Definition tmsg_eqb (a b : tmsg) : bool := (fst a =? fst b) && msg_eqb (snd a) (snd b).

(* delta times -> absolute ticks, starting from [t0] *)
Fixpoint absolute (t0 : Z) (ms : list tmsg) : list tmsg :=
  match ms with
  | [] => []
  | (d, m) :: r => (t0 + d, m) :: absolute (t0 + d) r
  end.

Definition sumd (ms : list tmsg) : Z := fold_right (fun dm a => fst dm + a) 0 ms.

(* ------------------------------------------------------------------------------------------ *)
(** * Writer: MidiFileOutputDevice *)

(* the calls the device receives, in order *)
Inductive op : Type :=
| OTick                         (* tick():     time += 1/ticks_per_beat *)
| OOn (note vel ch : Z)         (* note_on(note, velocity, channel) *)
| OOff (note ch : Z).           (* note_off(note, channel) *)

Record dev : Type := mkDev {
  d_time : Z;                   (* self.time, in ticks *)
  d_last : Z;                   (* self.last_event_time, in ticks *)
  d_track : list tmsg           (* self.miditrack, most recent message first *)
}.

Definition dev0 : dev := mkDev 0 0 [].

(* dt_ticks = int(round((self.time - self.last_event_time) * ticks_per_beat)) ; append ; last := time *)
Definition dev_emit (d : dev) (m : msg) : dev :=
  mkDev (d_time d) (d_time d) ((d_time d - d_last d, m) :: d_track d).

Definition dev_step (d : dev) (o : op) : dev :=
  match o with
  | OTick => mkDev (d_time d + 1) (d_last d) (d_track d)
  | OOn n v c => dev_emit d (NoteOn c n v)
  | OOff n c => dev_emit d (NoteOff c n)
  end.

Definition dev_run (ops : list op) (d : dev) : dev := fold_left dev_step ops d.

(* write(): append the closing dummy note_off(note 0, channel 0), then save the track *)
Definition dev_write (d : dev) : list tmsg := rev (d_track (dev_emit d (NoteOff 0 0))).

Definition write_file (ops : list op) : list tmsg := dev_write (dev_run ops dev0).

(* the same, seen per call: every call tagged with the number of ticks that preceded it *)
Fixpoint timed_calls (now : Z) (ops : list op) : list tmsg :=
  match ops with
  | [] => []
  | OTick :: r => timed_calls (now + 1) r
  | OOn n v c :: r => (now, NoteOn c n v) :: timed_calls now r
  | OOff n c :: r => (now, NoteOff c n) :: timed_calls now r
  end.

Fixpoint count_ticks (ops : list op) : Z :=
  match ops with
  | [] => 0
  | OTick :: r => 1 + count_ticks r
  | _ :: r => count_ticks r
  end.

(* delta encoding of absolute-timed calls, closed by the dummy note_off at [tend] *)
Fixpoint encode (last : Z) (calls : list tmsg) (tend : Z) : list tmsg :=
  match calls with
  | [] => [(tend - last, NoteOff 0 0)]
  | (t, m) :: r => (t - last, m) :: encode t r tend
  end.

(* a call sequence with the ticks put back in (used for examples and by the harness) *)
Fixpoint ops_of_timed (now : Z) (calls : list tmsg) (tend : Z) : list op :=
  match calls with
  | [] => repeat OTick (Z.to_nat (tend - now))
  | (t, m) :: r =>
      repeat OTick (Z.to_nat (t - now)) ++
      match m with
      | NoteOn c n v => [OOn n v c]
      | NoteOff c n => [OOff n c]
      | Other _ => []
      end ++ ops_of_timed (Z.max now t) r tend
  end.

(* ------------------------------------------------------------------------------------------ *)
(** * Reader: MidiFileInputDevice.read(quantize=None) *)

Record note : Type := mkNote {
  n_pitch : Z;
  n_vel : Z;
  n_loc : Z;                    (* MidiNote.location, ticks *)
  n_dur : option Z              (* MidiNote.duration, ticks; None until the release is seen *)
}.

Definition is_open (n : note) : bool := match n_dur n with None => true | Some _ => false end.

(* for note in reversed(notes): if note.pitch == event.note and note.duration is None:
       note.duration = offset - note.location; break
   [l] is the list of notes most recent first *)
Fixpoint close_first (p off : Z) (l : list note) : list note :=
  match l with
  | [] => []
  | n :: r =>
      if (n_pitch n =? p) && is_open n
      then mkNote (n_pitch n) (n_vel n) (n_loc n) (Some (off - n_loc n)) :: r
      else n :: close_first p off r
  end.

(* one message at absolute time [t] (the running offset AFTER adding this message's delta) *)
Definition note_step (t : Z) (m : msg) (acc : list note) : list note :=
  match m with
  | NoteOn _ p v =>
      if 0 <? v then mkNote p v t None :: acc            (* note_on, velocity > 0 *)
      else if v =? 0 then close_first p t acc             (* note_on, velocity 0: a release *)
      else acc
  | NoteOff _ p => close_first p t acc
  | Other _ => acc
  end.

(* the scanning loop.  REPAIRED behaviour (fix: commit in the repository): the delta of EVERY message
   is added to the offset before the message-type test.  The pinned code added it only inside the two
   note branches, dropping the delta of every other message. *)
Fixpoint scan (ms : list tmsg) (offset : Z) (acc : list note) : list note :=
  match ms with
  | [] => rev acc
  | (d, m) :: r => scan r (offset + d) (note_step (offset + d) m acc)
  end.

(* the same over absolute-timed messages *)
Fixpoint scan_abs (ms : list tmsg) (acc : list note) : list note :=
  match ms with
  | [] => rev acc
  | (t, m) :: r => scan_abs r (note_step t m acc)
  end.

(* notes_by_time / times = sorted(notes_by_time.keys()) *)
Fixpoint insert_uniq (t : Z) (l : list Z) : list Z :=
  match l with
  | [] => [t]
  | x :: r => if t <? x then t :: l else if t =? x then l else x :: insert_uniq t r
  end.
Definition times_of (ns : list note) : list Z := fold_right insert_uniq [] (map n_loc ns).
Definition group_at (t : Z) (ns : list note) : list note := filter (fun n => n_loc n =? t) ns.
Definition groups_of (ns : list note) : list (Z * list note) :=
  map (fun t => (t, group_at t ns)) (times_of ns).

(* what read() returns: four parallel sequences.  A one-note event is a scalar, a chord a tuple. *)
Inductive pv (A : Type) : Type := One (a : A) | Many (l : list A).
Arguments One {A} a.
Arguments Many {A} l.

Record rresult : Type := mkR {
  r_note : list (pv Z);
  r_amp : list (pv Z);
  r_gate : list (pv (Z * Z));   (* gate = sounding length / duration, kept as the pair (length, duration) *)
  r_dur : list Z                (* duration = ticks until the next onset *)
}.

Inductive routcome : Type :=
| ROk (r : rresult)
| RNoNoteTrack                  (* ValueError("Could not find any tracks with note data") *)
| RUnterminated                 (* a note without release: duration None reaches the %.3f format -> TypeError *)
| RZeroDiv.                     (* last event is a chord whose voices all have length 0 -> ZeroDivisionError *)

Definition dur_of (n : note) : Z := match n_dur n with Some d => d | None => 0 end.
Definition max_dur (ns : list note) : Z :=
  match ns with [] => 0 | n :: r => fold_left Z.max (map dur_of r) (dur_of n) end.

Definition r_cons_one (n : note) (d : Z) (r : rresult) : rresult :=
  mkR (One (n_pitch n) :: r_note r) (One (n_vel n) :: r_amp r) (One (dur_of n, d) :: r_gate r) (d :: r_dur r).
Definition r_cons_dur (d : Z) (r : rresult) : rresult :=
  mkR (r_note r) (r_amp r) (r_gate r) (d :: r_dur r).
Definition r_cons_many (ns : list note) (d : Z) (r : rresult) : rresult :=
  mkR (Many (map n_pitch ns) :: r_note r) (Many (map n_vel ns) :: r_amp r)
      (Many (map (fun n => (dur_of n, d)) ns) :: r_gate r) (d :: r_dur r).

(* for i, t in enumerate(times): ... ; [None] = ZeroDivisionError *)
Fixpoint assemble (gs : list (Z * list note)) : option rresult :=
  match gs with
  | [] => Some (mkR [] [] [] [])
  | (t, ns) :: rest =>
      let next := match rest with (t', _) :: _ => t' | [] => t + max_dur ns end in
      let d := next - t in
      match assemble rest with
      | None => None
      | Some r =>
          match ns with
          | [n] => if d =? 0 then Some (r_cons_dur d r)       (* if time_until_next_note: ... *)
                   else Some (r_cons_one n d r)
          | _ => if d =? 0 then None else Some (r_cons_many ns d r)
          end
      end
  end.

Definition read_notes (ns : list note) : routcome :=
  if existsb is_open ns then RUnterminated
  else match assemble (groups_of ns) with
       | Some r => ROk r
       | None => RZeroDiv
       end.

Definition read_track (ms : list tmsg) : routcome := read_notes (scan ms 0 []).

(* note_tracks = tracks containing a note_on message (any velocity); the first one is read *)
Definition is_note_on (dm : tmsg) : bool := match snd dm with NoteOn _ _ _ => true | _ => false end.
Definition read_file (tracks : list (list tmsg)) : routcome :=
  match find (existsb is_note_on) tracks with
  | Some tr => read_track tr
  | None => RNoNoteTrack
  end.

(* ------------------------------------------------------------------------------------------ *)
(** * The call trace the scheduler produces for a sequence of note/chord events *)

Record voice : Type := mkVoice { v_pitch : Z; v_vel : Z; v_len : Z }.   (* length = duration * gate, ticks *)
Record event : Type := mkEvent { e_voices : list voice; e_dur : Z }.    (* no voices: a rest *)

(* a voice placed in time *)
Record fvoice : Type := mkFV { f_on : Z; f_voice : voice }.
Definition f_rel (f : fvoice) : Z := f_on f + v_len (f_voice f).
Definition f_pitch (f : fvoice) : Z := v_pitch (f_voice f).

Definition place (o : Z) (e : event) : list fvoice := map (mkFV o) (e_voices e).

(* stable insertion sort by release tick (fold_right inserts earlier voices into the sorted later ones, so ties go first): Track.note_offs is kept in insertion order and on every tick
   the due entries are sent in list order, so over several ticks the order is (release tick, insertion) *)
Fixpoint ins_rel (f : fvoice) (l : list fvoice) : list fvoice :=
  match l with
  | [] => [f]
  | g :: r => if f_rel f <=? f_rel g then f :: l else g :: ins_rel f r
  end.
Definition sort_rel (l : list fvoice) : list fvoice := fold_right ins_rel [] l.

Definition off_msg (f : fvoice) : tmsg := (f_rel f, NoteOff 0 (f_pitch f)).
Definition on_msg (f : fvoice) : tmsg := (f_on f, NoteOn 0 (f_pitch f) (v_vel (f_voice f))).

(* note_offs sent on ticks t+1 .. t' (process_note_offs), for the voices started so far *)
Definition flush (t t' : Z) (done : list fvoice) : list tmsg :=
  map off_msg (sort_rel (filter (fun f => (t <? f_rel f) && (f_rel f <=? t')) done)).
(* ... and all that remain after the last event *)
Definition flush_all (t : Z) (done : list fvoice) : list tmsg :=
  map off_msg (sort_rel (filter (fun f => t <? f_rel f) done)).

(* [o]: onset of the next event; [t]: tick up to which note-offs have been sent; [done]: voices started *)
Fixpoint sched_from (es : list event) (o t : Z) (done : list fvoice) : list tmsg :=
  match es with
  | [] => flush_all t done
  | e :: r => flush t o done ++ map on_msg (place o e) ++ sched_from r (o + e_dur e) o (done ++ place o e)
  end.
Definition sched_calls (es : list event) : list tmsg := sched_from es 0 0 [].

Fixpoint place_all (es : list event) (o : Z) : list fvoice :=
  match es with
  | [] => []
  | e :: r => place o e ++ place_all r (o + e_dur e)
  end.

(* the tick of the final write(): the track is finished on the first tick on which the pattern is
   exhausted (sum of the durations) and no note-off is pending; the timeline stops before ticking the
   device on that tick *)
Definition total_dur (es : list event) : Z := fold_right (fun e a => e_dur e + a) 0 es.
Definition sched_end (es : list event) : Z :=
  fold_left Z.max (map f_rel (place_all es 0)) (total_dur es).

(* the file isobar writes for [es] *)
Definition file_of_events (es : list event) : list tmsg := encode 0 (sched_calls es) (sched_end es).

(* ------------------------------------------------------------------------------------------ *)
(** * What the property expects to read back *)

(* events with at least one voice, with their onsets *)
Fixpoint sounding (es : list event) (o : Z) : list (Z * list voice) :=
  match es with
  | [] => []
  | e :: r => match e_voices e with
              | [] => sounding r (o + e_dur e)
              | vs => (o, vs) :: sounding r (o + e_dur e)
              end
  end.

Definition max_len (vs : list voice) : Z :=
  match vs with [] => 0 | v :: r => fold_left Z.max (map v_len r) (v_len v) end.

(* duration = gap to the next sounding event (rests are absorbed by the event before them; a leading
   rest is not represented in the returned sequences); last event: its longest voice *)
Definition cons_event (vs : list voice) (d : Z) (r : rresult) : rresult :=
  match vs with
  | [v] => mkR (One (v_pitch v) :: r_note r) (One (v_vel v) :: r_amp r)
               (One (v_len v, d) :: r_gate r) (d :: r_dur r)
  | _ => mkR (Many (map v_pitch vs) :: r_note r) (Many (map v_vel vs) :: r_amp r)
             (Many (map (fun v => (v_len v, d)) vs) :: r_gate r) (d :: r_dur r)
  end.
Fixpoint expected_from (gs : list (Z * list voice)) : rresult :=
  match gs with
  | [] => mkR [] [] [] []
  | (o, vs) :: rest =>
      cons_event vs (match rest with (o', _) :: _ => o' - o | [] => max_len vs end) (expected_from rest)
  end.
Definition expected (es : list event) : rresult := expected_from (sounding es 0).

(* hypotheses of the round trip, as a boolean *)
Definition voice_ok (v : voice) : bool := (0 <? v_vel v) && (0 <? v_len v).
Definition event_ok (e : event) : bool := (0 <? e_dur e) && forallb voice_ok (e_voices e).
(* no two overlapping notes of the same pitch: in start order, a later voice of the same pitch starts
   at or after the release of the earlier one *)
Fixpoint no_overlap (l : list fvoice) : bool :=
  match l with
  | [] => true
  | f :: r => forallb (fun g => negb (f_pitch g =? f_pitch f) || (f_rel f <=? f_on g)) r && no_overlap r
  end.
Definition events_ok (es : list event) : bool :=
  forallb event_ok es && no_overlap (place_all es 0).

(* ------------------------------------------------------------------------------------------ *)
(** * Boolean equalities used by the correspondence check *)
Definition pv_eqb {A} (eqb : A -> A -> bool) (a b : pv A) : bool :=
  match a, b with
  | One x, One y => eqb x y
  | Many l, Many l' => list_eqb eqb l l'
  | _, _ => false
  end.
Definition zz_eqb (a b : Z * Z) : bool := (fst a =? fst b) && (snd a =? snd b).
Definition rresult_eqb (a b : rresult) : bool :=
  list_eqb (pv_eqb Z.eqb) (r_note a) (r_note b) && list_eqb (pv_eqb Z.eqb) (r_amp a) (r_amp b)
  && list_eqb (pv_eqb zz_eqb) (r_gate a) (r_gate b) && list_eqb Z.eqb (r_dur a) (r_dur b).
Definition routcome_eqb (a b : routcome) : bool :=
  match a, b with
  | ROk x, ROk y => rresult_eqb x y
  | RNoNoteTrack, RNoNoteTrack => true
  | RUnterminated, RUnterminated => true
  | RZeroDiv, RZeroDiv => true
  | _, _ => false
  end.

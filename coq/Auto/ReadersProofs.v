(* Auto/ReadersProofs.v — a reader of an LFO is a pure observer: lemmas about Auto/Readers.v.
   [obs m]: the computation m leaves the LFO exactly as it found it, and its result depends on the LFO only through
   lfo.value at that moment.  Every pattern operation (next / reset / all on every reader tree, the event stream of a
   track, Timeline.reset) is such a computation, for every amount of fuel and every outcome (also RFuel / RErr). *)
From Isobar Require Import Base.Prelude Auto.Automation Auto.Lfo Auto.AutomationProofs Auto.LfoProofs Auto.Readers.
From Coq Require Import QArith Qreduction Lqa.
Local Open Scope Q_scope.

Definition obs {A} (m : M A) : Prop :=
  forall l, snd (m l) = l /\ forall l', l_value l = l_value l' -> fst (m l) = fst (m l').

Lemma obs_ret {A} (x : A) : obs (ret x).
Proof. intros l. split; [reflexivity|]. intros l' _. reflexivity. Qed.

Lemma obs_read : obs read_value.
Proof. intros l. split; [reflexivity|]. intros l' H. unfold read_value, lfo_value. cbn [fst]. exact H. Qed.

Lemma obs_bind {A B} (m : M A) (k : A -> M B) : obs m -> (forall x, obs (k x)) -> obs (bind m k).
Proof.
  intros Hm Hk l. unfold bind. destruct (Hm l) as [S1 V1]. destruct (m l) as [x l1] eqn:E. cbn [fst snd] in *. subst l1.
  destruct (Hk x l) as [S2 V2]. split; [exact S2|]. intros l' Hv.
  specialize (V1 l' Hv). destruct (Hm l') as [S1' _]. destruct (m l') as [x' l1'] eqn:E'. cbn [fst snd] in *. subst l1' x'.
  apply V2, Hv.
Qed.

Ltac obs_step IH :=
  first
    [ apply obs_ret
    | apply obs_read
    | apply IH
    | apply obs_bind; [|intros ?]
    | match goal with
      | |- obs (match ?x with _ => _ end) => destruct x
      | |- obs (if ?b then _ else _) => destruct b
      | |- obs (let '(_, _) := ?x in _) => destruct x
      end ].

Lemma each_reset_obs run items : (forall it, obs (run it)) -> obs (each_reset run items).
Proof.
  intros H. induction items as [|it rest IH]; cbn [each_reset]; [apply obs_ret|].
  apply obs_bind; [apply H|]. intros x. destruct (fst x); try apply obs_ret.
  apply obs_bind; [exact IH|]. intros y. apply obs_ret.
Qed.

Lemma each_next_obs run items : (forall it, obs (run it)) -> obs (each_next run items).
Proof.
  intros H. induction items as [|it rest IH]; cbn [each_next]; [apply obs_ret|].
  apply obs_bind; [apply H|]. intros x. destruct (fst x); try apply obs_ret.
  apply obs_bind; [exact IH|]. intros y. apply obs_ret.
Qed.

Lemma each_track_obs run ts : (forall t, obs (run t)) -> obs (each_track run ts).
Proof.
  intros H. induction ts as [|t rest IH]; cbn [each_track]; [apply obs_ret|].
  apply obs_bind; [apply H|]. intros x. apply obs_bind; [exact IH|]. intros y. apply obs_ret.
Qed.

(* every pattern operation on every reader tree is an observation *)
Lemma rd_run_obs fuel : forall c r, obs (rd_run fuel c r).
Proof.
  induction fuel as [|f IH]; intros c r; [apply obs_ret|].
  destruct c as [| |m]; [destruct r|destruct r|destruct m]; cbn [rd_run];
    try (apply obs_bind; [apply each_reset_obs; intros it; apply IH|intros ?; apply obs_ret]);
    repeat obs_step IH.
Qed.

Lemma each_build_obs run items : (forall it, obs (run it)) -> obs (each_build run items).
Proof.
  intros H. induction items as [|it rest IH]; cbn [each_build]; [apply obs_ret|].
  apply obs_bind; [apply H|]. intros x. destruct (fst x); try apply obs_ret.
  apply obs_bind; [exact IH|]. intros y. apply obs_ret.
Qed.

(* so is every construction *)
Lemma build_obs fuel : forall s, obs (build fuel s).
Proof.
  induction fuel as [|f IH]; intros s; [apply obs_ret|].
  destruct s; cbn [build];
    try (apply obs_bind; [apply each_build_obs; intros it; apply IH|intros ?; apply obs_ret]);
    repeat first [apply rd_run_obs | progress unfold new_pingpong | obs_step IH].
Qed.

Lemma rd_run_keeps fuel c r l : snd (rd_run fuel c r l) = l.
Proof. exact (proj1 (rd_run_obs fuel c r l)). Qed.

Lemma rd_run_value_only fuel c r l l' : l_value l = l_value l' -> fst (rd_run fuel c r l) = fst (rd_run fuel c r l').
Proof. exact (proj2 (rd_run_obs fuel c r l) l'). Qed.

(* what a PLFO yields: lfo.value at that moment *)
Lemma rd_next_lfo fuel l : rd_run (S fuel) CNext RdLfo l = ((RVal (lfo_value l), RdLfo), l).
Proof. reflexivity. Qed.

(* an arithmetic expression yields the operator applied to what its operands yield at that moment *)
Lemma rd_next_bin fuel o a b l va a' vb b' :
  fst (rd_run fuel CNext a l) = (RVal va, a') -> fst (rd_run fuel CNext b l) = (RVal vb, b') ->
  rd_run (S fuel) CNext (RdBin o a b) l = ((RVal (binop_apply o va vb), RdBin o a' b'), l).
Proof.
  intros Ha Hb. cbn [rd_run]. unfold bind.
  pose proof (rd_run_keeps fuel CNext a l) as Ka. destruct (rd_run fuel CNext a l) as [xa la]. cbn [fst snd] in *. subst la xa.
  cbn [fst snd]. pose proof (rd_run_keeps fuel CNext b l) as Kb. destruct (rd_run fuel CNext b l) as [xb lb].
  cbn [fst snd] in *. subst lb xb. reflexivity.
Qed.

Section WorldFacts.
  Variable sin2pi : Q -> Q.

  Lemma w_step_lfo fuel tpb w o :
    w_lfo (fst (w_step sin2pi fuel tpb w o)) = if is_wtick o then lfo_tick sin2pi tpb (w_lfo w) else w_lfo w.
  Proof.
    destruct o as [|i c|s|j|j|]; cbn [w_step is_wtick].
    - reflexivity.
    - destruct (nth_error (w_readers w) i) as [r|]; [|reflexivity].
      pose proof (rd_run_keeps fuel c r (w_lfo w)) as K. destruct (rd_run fuel c r (w_lfo w)) as [[x r'] l'].
      cbn [fst snd w_lfo] in *. exact K.
    - pose proof (proj1 (build_obs fuel s (w_lfo w))) as K. destruct (build fuel s (w_lfo w)) as [[x r] l'].
      cbn [fst snd w_lfo] in *. exact K.
    - destruct (nth_error (w_tracks w) j) as [t|]; [|reflexivity].
      pose proof (proj1 (each_next_obs (rd_run fuel CNext) t (rd_run_obs fuel CNext) (w_lfo w))) as K.
      destruct (each_next (rd_run fuel CNext) t (w_lfo w)) as [[x t'] l']. cbn [fst snd w_lfo] in *. exact K.
    - destruct (nth_error (w_tracks w) j) as [t|]; [|reflexivity].
      pose proof (proj1 (each_reset_obs (rd_run fuel CReset) t (rd_run_obs fuel CReset) (w_lfo w))) as K.
      destruct (each_reset (rd_run fuel CReset) t (w_lfo w)) as [[x t'] l']. cbn [fst snd w_lfo] in *. exact K.
    - pose proof (proj1 (each_track_obs (each_reset (rd_run fuel CReset)) (w_tracks w)
                           (fun t => each_reset_obs _ t (rd_run_obs fuel CReset)) (w_lfo w))) as K.
      destruct (each_track (each_reset (rd_run fuel CReset)) (w_tracks w) (w_lfo w)) as [ts l'].
      cbn [fst snd w_lfo] in *. exact K.
  Qed.

  (* the LFO after ANY history of ticks and pattern operations is the LFO of the tick-only history *)
  Lemma w_run_lfo fuel tpb ops : forall w,
    w_lfo (w_run sin2pi fuel tpb w ops) = lfo_ticks sin2pi tpb (w_ticks ops) (w_lfo w).
  Proof.
    induction ops as [|o r IH]; intros w; [reflexivity|]. cbn [w_run]. rewrite IH, w_step_lfo.
    unfold w_ticks. cbn [filter]. destruct (is_wtick o); reflexivity.
  Qed.

  Lemma w_run_app fuel tpb a b w : w_run sin2pi fuel tpb w (a ++ b) = w_run sin2pi fuel tpb (w_run sin2pi fuel tpb w a) b.
  Proof. revert w; induction a as [|o r IH]; intros w; [reflexivity|]. cbn [app w_run]. apply IH. Qed.

  Lemma w_ticks_app a b : w_ticks (a ++ b) = (w_ticks a + w_ticks b)%nat.
  Proof. unfold w_ticks. rewrite filter_app, app_length. reflexivity. Qed.
End WorldFacts.

(* Auto/Automation.v — executable model of isobar/timelines/automation.py over exact rationals (Q).

   What is modelled (the repaired code of the work-package branch, see docs/C18.md):
     AutomationEnvelope.__init__   -> [linspace], [set_slice], [raw_envelope], [envelope]
     AutomationEnvelope.tick /
     AutomationModulation.tick     -> [mod_tick]
     Automation.value              -> [value]   (range None / "clip" / "wrap")
     Automation.tick               -> [tick]
     Automation.jump_to            -> [jump_to]
     Automation.move_by / move_to  -> [move_by], [move_to]
     Automation.bind_to            -> [bind_to]
   Floats are exact rationals here; the correspondence check compares numpy's float sums with these
   rationals to 1e-9.  A call that the real code rejects (negative duration, envelope fraction outside
   [0, 1]) is [None].  Bound attributes / methods are identified by an integer; "calling a binding" is
   an entry (id, value) of the list of calls an operation returns.  No proofs in this file. *)
From Isobar Require Import Base.Prelude.
From Coq Require Import QArith Qround Qabs Qreduction.
Local Open Scope Q_scope.

(** * Number helpers *)

(* Python int(x) on a float: truncation toward zero *)
Definition Qtrunc (x : Q) : Z := if Qle_bool 0 x then Qfloor x else Qceiling x.

(* Python round(x): half to even *)
Definition round_half_even (x : Q) : Z :=
  let f := Qfloor x in
  match Qcompare (x - inject_Z f) (1 # 2) with
  | Lt => f
  | Gt => (f + 1)%Z
  | Eq => if Z.even f then f else (f + 1)%Z
  end.

(* round(x, 8) *)
Definition round8 (x : Q) : Q := inject_Z (round_half_even (x * 100000000)) / 100000000.

(* move_by:  duration_ticks = int(math.ceil(round(duration / self.tick_duration, 8)))
   with tick_duration = 1 / ticks_per_beat *)
Definition duration_ticks (tpb : Z) (d : Q) : Z := Qceiling (round8 (d * inject_Z tpb)).

(* move_by:  envelope_ticks = int(envelope * duration_ticks) *)
Definition envelope_ticks (e : Q) (N : Z) : Z := Qtrunc (e * inject_Z N).

Definition qmin (a b : Q) : Q := if Qle_bool a b then a else b.
Definition qmax (a b : Q) : Q := if Qle_bool a b then b else a.
(* Python's x % w for w > 0: the representative in [0, w) *)
Definition qmod (x w : Q) : Q := x - w * inject_Z (Qfloor (x / w)).
(* sum of a list; reduced at every step so that denominators stay small when evaluated *)
Definition qsum (l : list Q) : Q := fold_right (fun x acc => Qred (x + acc)) 0 l.
Definition qnat (n : nat) : Q := inject_Z (Z.of_nat n).

(** * AutomationEnvelope *)

(* np.linspace(a, b, n): n = 1 gives [a]; otherwise a + j * (b - a) / (n - 1) *)
Definition linspace (a b : Q) (n : nat) : list Q :=
  map (fun j => if (n =? 1)%nat then a else Qred (a + (b - a) * (qnat j / (qnat n - 1)))) (seq 0 n).

(* l[start : start + len(vals)] = vals   (the slice is inside l) *)
Definition set_slice (l : list Q) (start : nat) (vals : list Q) : list Q :=
  firstn start l ++ vals ++ skipn (start + List.length vals) l.

(* self.envelope = np.ones(total_ticks)
   if envelope_ticks > 0:                                     (guard added by the repair)
       self.envelope[0:envelope_ticks]  = np.linspace(0, 1, envelope_ticks)
       self.envelope[-envelope_ticks:]  = np.linspace(1, 0, envelope_ticks)     (second assignment wins) *)
Definition raw_envelope (N E : nat) : list Q :=
  if (E =? 0)%nat then repeat 1 N
  else set_slice (set_slice (repeat 1 N) 0 (linspace 0 1 E)) (N - E) (linspace 1 0 E).

(* mean_value_per_tick = sum / (len or 1);  envelope /= mean *)
Definition envelope_mean (r : list Q) : Q :=
  qsum r / (if (List.length r =? 0)%nat then 1 else qnat (List.length r)).
Definition envelope (N E : nat) : list Q :=
  let r := raw_envelope N E in
  let mean := envelope_mean r in
  map (fun w => Qred (w / mean)) r.

(** * AutomationModulation (+ its envelope's read position)
   [m_rest] is the part of the envelope not yet consumed (envelope[current_tick:]); [m_empty] says
   len(envelope) == 0, in which case AutomationEnvelope.tick returns 1. *)
Record modulation := mkMod {
  m_delta : Q;          (* delta_per_tick *)
  m_ticks : Z;          (* duration_ticks *)
  m_cur : Z;            (* current_tick *)
  m_rest : list Q;
  m_empty : bool }.

(* AutomationModulation.tick: returns (delta for this tick, is_finished, new state) *)
Definition mod_tick (m : modulation) : Q * bool * modulation :=
  let cur := (m_cur m + 1)%Z in
  let fin := (m_ticks m <=? cur)%Z in
  let '(rv, rest) :=
    if m_empty m then (1, [])
    else match m_rest m with
         | [] => (0, [])                 (* envelope.is_finished: return 0 *)
         | w :: r => (w, r)
         end in
  (Qred (m_delta m * rv), fin, mkMod (m_delta m) (m_ticks m) cur rest (m_empty m)).

(** * Automation *)
Inductive boundary := Clip | Wrap.

Record automation := mkAuto {
  a_range : option (Q * Q);
  a_bound : boundary;
  a_cv : Q;                     (* current_value *)
  a_mods : list modulation;     (* modulations, in list order *)
  a_binds : list Z;             (* bindings, in bind order *)
  a_default : Q }.              (* default_duration *)

(* Automation.__init__: initial None -> centre of the range, or 0 *)
Definition initial_value (range : option (Q * Q)) (initial : option Q) : Q :=
  match initial, range with
  | Some v, _ => v
  | None, Some (lo, hi) => (1 # 2) * (lo + hi)
  | None, None => 0
  end.
Definition new_automation (range : option (Q * Q)) (b : boundary) (initial : option Q) (default : Q) : automation :=
  mkAuto range b (initial_value range initial) [] [] default.

(* the value property *)
Definition clip (lo hi x : Q) : Q := qmax lo (qmin hi x).
Definition wrap (lo hi x : Q) : Q := lo + qmod (x - lo) (hi - lo).
Definition value (a : automation) : Q :=
  match a_range a with
  | None => a_cv a
  | Some (lo, hi) => match a_bound a with Clip => clip lo hi (a_cv a) | Wrap => wrap lo hi (a_cv a) end
  end.

Definition set_cv (a : automation) (v : Q) : automation :=
  mkAuto (a_range a) (a_bound a) v (a_mods a) (a_binds a) (a_default a).
Definition set_mods (a : automation) (ms : list modulation) : automation :=
  mkAuto (a_range a) (a_bound a) (a_cv a) ms (a_binds a) (a_default a).

(* the calls made by jump_to / bind_to: (binding id, value passed) *)
Definition call := (Z * Q)%type.
Definition notify (a : automation) : list call := map (fun b => (b, value a)) (a_binds a).

(* jump_to: set current_value, then push self.value to every binding *)
Definition jump_to (a : automation) (v : Q) : automation * list call :=
  let a' := set_cv a v in (a', notify a').

(* the loop of Automation.tick over self.modulations[:]: sum of deltas, finished ones removed *)
Fixpoint tick_mods (ms : list modulation) : Q * list modulation :=
  match ms with
  | [] => (0, [])
  | m :: r =>
      let '(d, fin, m') := mod_tick m in
      let '(s, r') := tick_mods r in
      (d + s, if fin then r' else m' :: r')
  end.

(* Automation.tick: only send an update if the value has changed *)
Definition tick (a : automation) : automation * list call :=
  let '(s, ms) := tick_mods (a_mods a) in
  let nv := Qred (a_cv a + s) in
  let a1 := set_mods a ms in
  if Qeq_bool nv (a_cv a) then (a1, []) else jump_to a1 nv.

(* move_by; None = the real code raises (np.ones / np.linspace / slice assignment reject the sizes) *)
Definition move_by (tpb : Z) (a : automation) (v : Q) (d : option Q) (e : Q) : option automation :=
  let dur := match d with Some x => x | None => a_default a end in
  let N := duration_ticks tpb dur in
  if (N <? 0)%Z then None else
  let E := envelope_ticks e N in
  if (N <? E)%Z then None else          (* E <= 0: no ramp (the repaired guard); E > N: the slice assignment raises *)
  let dpt := v / (if (0 <? N)%Z then inject_Z N else 1) in
  Some (set_mods a (a_mods a ++ [mkMod (Qred dpt) N 0 (envelope (Z.to_nat N) (Z.to_nat E)) (N =? 0)%Z])).

(* move_to: self.modulations.clear(); self.move_by(value - self.current_value, ...) *)
Definition move_to (tpb : Z) (a : automation) (v : Q) (d : option Q) (e : Q) : option automation :=
  move_by tpb (set_mods a []) (v - a_cv a) d e.

(* bind_to: append the binding and initialise it with the current value *)
Definition bind_to (a : automation) (b : Z) : automation * list call :=
  (mkAuto (a_range a) (a_bound a) (a_cv a) (a_mods a) (a_binds a ++ [b]) (a_default a), [(b, value a)]).

(* FIX-C18: automation.range = ..., automation.boundaries = ..., automation.default_duration = ... are plain
   attributes: [range] and [boundaries] are read by the value property alone, afresh on every read (the initial
   value was fixed in __init__), [default_duration] by move_by when no duration is given.  Assigning them calls
   nobody and touches neither current_value nor the moves under way. *)
Definition set_range (a : automation) (r : option (Q * Q)) : automation :=
  mkAuto r (a_bound a) (a_cv a) (a_mods a) (a_binds a) (a_default a).
Definition set_bound (a : automation) (b : boundary) : automation :=
  mkAuto (a_range a) b (a_cv a) (a_mods a) (a_binds a) (a_default a).
Definition set_default (a : automation) (d : Q) : automation :=
  mkAuto (a_range a) (a_bound a) (a_cv a) (a_mods a) (a_binds a) d.

(** * Scenarios: what the correspondence check runs *)
Inductive op :=
| OTick
| OMoveTo (v : Q) (d : option Q) (e : Q)
| OMoveBy (v : Q) (d : option Q) (e : Q)
| OJumpTo (v : Q)
| OBind (b : Z)
(* FIX-C18: the automation is re-configured after construction, possibly while a move is running *)
| OSetRange (r : option (Q * Q))
| OSetBound (b : boundary)
| OSetDefault (d : Q).

Definition step (tpb : Z) (a : automation) (o : op) : option (automation * list call) :=
  match o with
  | OTick => Some (tick a)
  | OMoveTo v d e => option_map (fun a' => (a', [])) (move_to tpb a v d e)
  | OMoveBy v d e => option_map (fun a' => (a', [])) (move_by tpb a v d e)
  | OJumpTo v => Some (jump_to a v)
  | OBind b => Some (bind_to a b)
  | OSetRange r => Some (set_range a r, [])
  | OSetBound b => Some (set_bound a b, [])
  | OSetDefault d => Some (set_default a d, [])
  end.

(* n ticks; the list of (value after the tick, calls made by the tick) *)
Fixpoint ticks (n : nat) (a : automation) : automation * list (Q * list call) :=
  match n with
  | O => (a, [])
  | S k => let '(a1, c) := tick a in
           let '(a2, tr) := ticks k a1 in (a2, (value a1, c) :: tr)
  end.
Definition run_ticks (n : nat) (a : automation) : automation := fst (ticks n a).

(* Auto/AutomationProofs.v — lemmas about the model of Auto/Automation.v.

   Road map
     sums                 [psum], [qsum_spec]
     envelope weights     [envelope_length], [envelope_nonneg], [envelope_sum]          (C18_weights)
     modulations          [wf], [pending], [remaining], [mod_tick_spec], [tick_mods_spec]
                          conservation: a tick moves exactly what it takes off the pending amount
     automation           [settled_value], [tick_spec], [run_ticks_spec], [arrived], [monotone_up/down]
     move_by / move_to    [move_by_spec], [move_to_spec], [move_by_accepts]
     duration in ticks    [duration_ticks_near], [duration_ticks_whole], [duration_ticks_nonneg]
     reported value       [clip_range], [clip_inside], [wrap_range], [wrap_inside], [wrap_congruent], [report_proper]
     bindings             [tick_calls], [jump_to_calls], [bind_to_calls]
     reachability         [reachable], [reachable_wf] *)
From Isobar Require Import Base.Prelude Auto.Automation.
From Coq Require Import QArith Qround Qabs Qreduction Lqa.
Local Open Scope Q_scope.

(** sums *)
Definition psum (l : list Q) : Q := fold_right Qplus 0 l.

Lemma qsum_spec l : qsum l == psum l.
Proof. unfold qsum, psum. induction l as [|x l IH]; cbn [fold_right]; [reflexivity|]. rewrite Qred_correct, IH. reflexivity. Qed.

Lemma psum_app l1 l2 : psum (l1 ++ l2) == psum l1 + psum l2.
Proof. unfold psum. induction l1 as [|x l IH]; cbn [app fold_right]; [ring|]. rewrite IH. ring. Qed.

Lemma psum_nonneg l : Forall (fun w => 0 <= w) l -> 0 <= psum l.
Proof. unfold psum. induction 1; cbn [fold_right]; cbv beta in *; lra. Qed.

Lemma psum_repeat1 n : psum (repeat 1 n) == qnat n.
Proof.
  induction n as [|n IH]; [reflexivity|]. cbn [repeat psum fold_right]. fold (psum (repeat 1 n)). rewrite IH.
  unfold qnat. rewrite Nat2Z.inj_succ, <- Z.add_1_r, inject_Z_plus. ring.
Qed.

Lemma psum_map_div l m : psum (map (fun w => Qred (w / m)) l) == psum l / m.
Proof.
  unfold psum. induction l as [|x l IH]; cbn [map fold_right]; [unfold Qdiv; ring|]. rewrite Qred_correct, IH. unfold Qdiv. ring.
Qed.

Lemma qnat_S n : qnat (S n) == qnat n + 1.
Proof. unfold qnat. rewrite Nat2Z.inj_succ, <- Z.add_1_r, inject_Z_plus. reflexivity. Qed.
Lemma qnat_nonneg n : 0 <= qnat n.
Proof. unfold qnat. change 0 with (inject_Z 0). rewrite <- Zle_Qle. lia. Qed.
Lemma qnat_le i j : (i <= j)%nat -> qnat i <= qnat j.
Proof. intros H. unfold qnat. rewrite <- Zle_Qle. lia. Qed.
Lemma qnat_lt i j : (i < j)%nat -> qnat i + 1 <= qnat j.
Proof. intros H. rewrite <- qnat_S. apply qnat_le. lia. Qed.
Lemma qnat_pos n : (1 <= n)%nat -> 1 <= qnat n.
Proof. intros H. change 1 with (qnat 1). apply qnat_le. exact H. Qed.

Lemma Forall_firstn {A} (P : A -> Prop) n l : Forall P l -> Forall P (firstn n l).
Proof. revert l; induction n; intros l H; [constructor|]. destruct H; simpl; constructor; auto. Qed.
Lemma Forall_skipn {A} (P : A -> Prop) n l : Forall P l -> Forall P (skipn n l).
Proof. revert l; induction n; intros l H; [exact H|]. destruct H; simpl; [constructor|auto]. Qed.
Lemma Forall_repeat {A} (P : A -> Prop) x n : P x -> Forall P (repeat x n).
Proof. intros H; induction n; simpl; constructor; auto. Qed.

Definition nonneg (w : Q) : Prop := 0 <= w.

Lemma linspace_length a b n : List.length (linspace a b n) = n.
Proof. unfold linspace. rewrite map_length, seq_length. reflexivity. Qed.

Lemma frac_bounds j n : (j < n)%nat -> n <> 1%nat -> 0 <= qnat j / (qnat n - 1) <= 1.
Proof.
  intros Hj Hn. assert (Hd : 0 < qnat n - 1).
  { assert (2 <= n)%nat by lia. pose proof (qnat_le 2 n H). change (qnat 2) with 2 in H0. lra. }
  split.
  - apply Qle_shift_div_l; [exact Hd|]. pose proof (qnat_nonneg j). lra.
  - apply Qle_shift_div_r; [exact Hd|]. pose proof (qnat_lt j n Hj). lra.
Qed.

Lemma linspace01_nonneg n : Forall nonneg (linspace 0 1 n).
Proof.
  apply Forall_forall. intros x Hx. unfold linspace in Hx. apply in_map_iff in Hx as [j [<- Hj]].
  apply in_seq in Hj. unfold nonneg. destruct (Nat.eqb_spec n 1); [lra|].
  rewrite Qred_correct. pose proof (frac_bounds j n ltac:(lia) n0). lra.
Qed.
Lemma linspace10_nonneg n : Forall nonneg (linspace 1 0 n).
Proof.
  apply Forall_forall. intros x Hx. unfold linspace in Hx. apply in_map_iff in Hx as [j [<- Hj]].
  apply in_seq in Hj. unfold nonneg. destruct (Nat.eqb_spec n 1); [lra|].
  rewrite Qred_correct. pose proof (frac_bounds j n ltac:(lia) n0). lra.
Qed.
Lemma linspace10_head n : (1 <= n)%nat -> exists h t, linspace 1 0 n = h :: t /\ h == 1.
Proof.
  intros H. destruct n as [|n]; [lia|]. unfold linspace. cbn [seq map].
  eexists; eexists; split; [reflexivity|].
  destruct (Nat.eqb_spec (S n) 1); [reflexivity|]. rewrite Qred_correct.
  change (qnat 0) with 0. unfold Qdiv. ring.
Qed.

Lemma raw_envelope_length N E : (E <= N)%nat -> List.length (raw_envelope N E) = N.
Proof.
  intros H. unfold raw_envelope. destruct (Nat.eqb_spec E 0); [apply repeat_length|].
  unfold set_slice. repeat (rewrite ?app_length, ?firstn_length, ?skipn_length, ?linspace_length, ?repeat_length).
  cbn [firstn List.length]. repeat (rewrite ?app_length, ?firstn_length, ?skipn_length, ?linspace_length, ?repeat_length). lia.
Qed.

Lemma raw_envelope_nonneg N E : Forall nonneg (raw_envelope N E).
Proof.
  unfold raw_envelope. destruct (E =? 0)%nat; [apply Forall_repeat; unfold nonneg; lra|].
  assert (H1 : Forall nonneg (set_slice (repeat 1 N) 0 (linspace 0 1 E))).
  { unfold set_slice. apply Forall_app; split; [apply Forall_firstn, Forall_repeat; unfold nonneg; lra|].
    apply Forall_app; split; [apply linspace01_nonneg|apply Forall_skipn, Forall_repeat; unfold nonneg; lra]. }
  unfold set_slice at 1. apply Forall_app; split; [apply Forall_firstn, H1|].
  apply Forall_app; split; [apply linspace10_nonneg|apply Forall_skipn, H1].
Qed.

Lemma raw_envelope_sum_ge1 N E : (1 <= N)%nat -> (E <= N)%nat -> 1 <= psum (raw_envelope N E).
Proof.
  intros HN HE. pose proof (raw_envelope_nonneg N E) as Hnn. unfold raw_envelope in *.
  destruct (Nat.eqb_spec E 0).
  - rewrite psum_repeat1. apply qnat_pos, HN.
  - unfold set_slice at 1. unfold set_slice at 1 in Hnn.
    apply Forall_app in Hnn as [Ha Hb]. apply Forall_app in Hb as [Hb Hc].
    rewrite !psum_app. destruct (linspace10_head E ltac:(lia)) as [h [t [Eq Hh]]].
    rewrite Eq in *. inversion Hb; subst. apply psum_nonneg in Ha, Hc. apply psum_nonneg in H2.
    cbn [psum fold_right]. fold (psum t). lra.
Qed.

(** the weights: >= 0, N of them, summing to N *)
Lemma envelope_length N E : (E <= N)%nat -> List.length (envelope N E) = N.
Proof. intros H. unfold envelope. rewrite map_length. apply raw_envelope_length, H. Qed.

Lemma envelope_mean_pos N E : (1 <= N)%nat -> (E <= N)%nat ->
  envelope_mean (raw_envelope N E) == psum (raw_envelope N E) / qnat N /\ 0 < envelope_mean (raw_envelope N E).
Proof.
  intros HN HE. unfold envelope_mean. rewrite raw_envelope_length by exact HE.
  destruct (Nat.eqb_spec N 0); [lia|]. rewrite qsum_spec. split; [reflexivity|].
  pose proof (raw_envelope_sum_ge1 N E HN HE). pose proof (qnat_pos N HN).
  apply Qlt_shift_div_l; lra.
Qed.

Lemma envelope_nonneg N E : (1 <= N)%nat -> (E <= N)%nat -> Forall nonneg (envelope N E).
Proof.
  intros HN HE. unfold envelope. destruct (envelope_mean_pos N E HN HE) as [_ Hm].
  pose proof (raw_envelope_nonneg N E) as H. apply Forall_forall. intros x Hx.
  apply in_map_iff in Hx as [w [<- Hw]]. rewrite Forall_forall in H. specialize (H w Hw).
  unfold nonneg in *. rewrite Qred_correct. apply Qle_shift_div_l; [exact Hm|lra].
Qed.

Lemma envelope_sum N E : (1 <= N)%nat -> (E <= N)%nat -> psum (envelope N E) == qnat N.
Proof.
  intros HN HE. unfold envelope. rewrite psum_map_div. destruct (envelope_mean_pos N E HN HE) as [Hm _].
  rewrite Hm. pose proof (raw_envelope_sum_ge1 N E HN HE). pose proof (qnat_pos N HN). field. split; lra.
Qed.

(** * Modulations: what is still to come *)
Definition wf_mod (m : modulation) : Prop :=
  (m_empty m = true /\ m_rest m = [])
  \/ (m_empty m = false /\ m_rest m <> [] /\ (m_ticks m - m_cur m)%Z = Z.of_nat (List.length (m_rest m))
      /\ Forall nonneg (m_rest m)).
Definition wf_empty_ticks (m : modulation) : Prop := m_empty m = true -> (m_ticks m <= m_cur m + 1)%Z.
Definition wf (m : modulation) : Prop := wf_mod m /\ wf_empty_ticks m.

Definition pending (m : modulation) : Q := if m_empty m then m_delta m else m_delta m * psum (m_rest m).
Definition remaining (m : modulation) : nat := if m_empty m then 1%nat else List.length (m_rest m).
Definition pending_all (ms : list modulation) : Q := psum (map pending ms).
Definition max_remaining (ms : list modulation) : nat := fold_right (fun m acc => Nat.max (remaining m) acc) 0%nat ms.

Lemma remaining_pos m : wf m -> (1 <= remaining m)%nat.
Proof.
  intros [[[He _]|[He [Hne _]]] _]; unfold remaining; rewrite He; [lia|].
  destruct (m_rest m); [congruence|simpl; lia].
Qed.

Lemma mod_tick_spec m : wf m ->
  let '(d, fin, m') := mod_tick m in
  (fin = true -> d == pending m /\ remaining m = 1%nat)
  /\ (fin = false -> d + pending m' == pending m /\ wf m' /\ remaining m = S (remaining m') /\ m_delta m' = m_delta m)
  /\ (0 <= m_delta m -> 0 <= d) /\ (m_delta m <= 0 -> d <= 0).
Proof.
  intros [[[He Hr]|[He [Hne [Hlen Hnn]]]] Het]; unfold mod_tick, pending, remaining; rewrite He.
  - specialize (Het He). destruct (Z.leb_spec (m_ticks m) (m_cur m + 1)); [|lia].
    repeat split; try discriminate; intros; rewrite ?Qred_correct; try lra; try nra; try ring.
  - destruct (m_rest m) as [|w r] eqn:Er; [congruence|]. clear Hne.
    inversion Hnn as [|? ? Hw Hr']; subst. unfold nonneg in Hw.
    cbn [List.length] in Hlen. cbn [m_empty m_rest m_delta m_ticks m_cur].
    destruct (Z.leb_spec (m_ticks m) (m_cur m + 1)).
    + assert (r = []) by (destruct r; [reflexivity|cbn [List.length] in Hlen; lia]). subst r.
      repeat split; try discriminate; intros; rewrite ?Qred_correct; cbn [psum fold_right]; try nra; try ring.
    + assert (r <> []) by (intros ->; cbn [List.length] in Hlen; lia).
      repeat split; try discriminate; try (rewrite Qred_correct; cbn [psum fold_right]; nra).
      * rewrite Qred_correct. unfold psum. cbn [fold_right]. ring.
      * right. cbn [m_empty m_rest m_ticks m_cur]. repeat split; auto. lia.
Qed.

Lemma tick_mods_spec ms : Forall wf ms ->
  let '(s, ms') := tick_mods ms in
  s + pending_all ms' == pending_all ms /\ Forall wf ms'
  /\ max_remaining ms' = pred (max_remaining ms)
  /\ (Forall (fun m => 0 <= m_delta m) ms -> 0 <= s /\ Forall (fun m => 0 <= m_delta m) ms')
  /\ (Forall (fun m => m_delta m <= 0) ms -> s <= 0 /\ Forall (fun m => m_delta m <= 0) ms').
Proof.
  induction 1 as [|m ms Hm Hms IH]; cbn [tick_mods].
  - unfold pending_all; cbn. repeat split; try constructor; lra.
  - pose proof (mod_tick_spec m Hm) as Hs. pose proof (remaining_pos m Hm) as Hp.
    destruct (mod_tick m) as [[d fin] m']. destruct (tick_mods ms) as [s ms'].
    destruct IH as [I1 [I2 [I3 [I4 I5]]]]. destruct Hs as [S1 [S2 [S3 S4]]].
    unfold pending_all in *. cbn [map psum fold_right max_remaining]. fold (max_remaining ms).
    destruct fin.
    + destruct (S1 eq_refl) as [Sd Sr]. repeat split.
      * fold (psum (map pending ms)). rewrite <- I1, Sd. ring.
      * exact I2.
      * rewrite I3, Sr. lia.
      * inversion H; subst. destruct (I4 H3). specialize (S3 H2). lra.
      * inversion H; subst. destruct (I4 H3). assumption.
      * inversion H; subst. destruct (I5 H3). specialize (S4 H2). lra.
      * inversion H; subst. destruct (I5 H3). assumption.
    + destruct (S2 eq_refl) as [Sd [Sw [Sr Sdel]]]. cbn [map psum fold_right max_remaining]. fold (max_remaining ms').
      repeat split.
      * fold (psum (map pending ms)). fold (psum (map pending ms')). rewrite <- I1, <- Sd. ring.
      * constructor; assumption.
      * rewrite I3, Sr. pose proof (remaining_pos m' Sw). lia.
      * inversion H; subst. destruct (I4 H3). specialize (S3 H2). lra.
      * inversion H; subst. destruct (I4 H3). constructor; [rewrite Sdel|]; assumption.
      * inversion H; subst. destruct (I5 H3). specialize (S4 H2). lra.
      * inversion H; subst. destruct (I5 H3). constructor; [rewrite Sdel|]; assumption.
Qed.

Lemma max_remaining_0 ms : Forall wf ms -> max_remaining ms = 0%nat -> ms = [].
Proof.
  destruct 1 as [|m ms Hm _]; [reflexivity|]. cbn [max_remaining fold_right].
  pose proof (remaining_pos m Hm). lia.
Qed.

Definition wf_auto (a : automation) : Prop := Forall wf (a_mods a).
Definition all_up (a : automation) : Prop := Forall (fun m => 0 <= m_delta m) (a_mods a).
Definition all_down (a : automation) : Prop := Forall (fun m => m_delta m <= 0) (a_mods a).
(* where the automation is heading: its value once every active modulation has run out *)
Definition settled_value (a : automation) : Q := a_cv a + pending_all (a_mods a).
Definition ticks_left (a : automation) : nat := max_remaining (a_mods a).

Lemma tick_fields a :
  let a' := fst (tick a) in
  a_range a' = a_range a /\ a_bound a' = a_bound a /\ a_binds a' = a_binds a /\ a_default a' = a_default a
  /\ a_mods a' = snd (tick_mods (a_mods a)) /\ a_cv a' == a_cv a + fst (tick_mods (a_mods a)).
Proof.
  unfold tick. destruct (tick_mods (a_mods a)) as [s ms]. cbn [fst snd].
  destruct (Qeq_bool (Qred (a_cv a + s)) (a_cv a)) eqn:E; cbn [fst jump_to set_cv set_mods a_range a_bound a_binds a_default a_mods a_cv].
  - repeat split. apply Qeq_bool_eq in E. rewrite Qred_correct in E. rewrite E. reflexivity.
  - repeat split. apply Qred_correct.
Qed.

Lemma tick_spec a : wf_auto a ->
  let a' := fst (tick a) in
  settled_value a' == settled_value a /\ wf_auto a' /\ ticks_left a' = pred (ticks_left a)
  /\ (all_up a -> a_cv a <= a_cv a' /\ all_up a')
  /\ (all_down a -> a_cv a' <= a_cv a /\ all_down a').
Proof.
  intros Hw. destruct (tick_fields a) as [_ [_ [_ [_ [Hm Hc]]]]].
  pose proof (tick_mods_spec (a_mods a) Hw) as Hs. destruct (tick_mods (a_mods a)) as [s ms].
  cbn [fst snd] in *. destruct Hs as [S1 [S2 [S3 [S4 S5]]]].
  unfold settled_value, wf_auto, ticks_left, all_up, all_down. cbv zeta. rewrite Hm, Hc.
  repeat split; try assumption.
  - rewrite <- S1. ring.
  - destruct (S4 H). lra.
  - destruct (S4 H). assumption.
  - destruct (S5 H). lra.
  - destruct (S5 H). assumption.
Qed.

Lemma run_ticks_S k a : run_ticks (S k) a = run_ticks k (fst (tick a)).
Proof.
  unfold run_ticks. cbn [ticks]. destruct (tick a) as [a1 c]. cbn [fst]. destruct (ticks k a1) as [a2 tr]. reflexivity.
Qed.
Lemma run_ticks_snoc k a : run_ticks (S k) a = fst (tick (run_ticks k a)).
Proof.
  revert a. induction k as [|k IH]; intros a.
  - rewrite run_ticks_S. reflexivity.
  - rewrite run_ticks_S. rewrite IH. rewrite <- run_ticks_S. reflexivity.
Qed.

Lemma run_ticks_fields k a :
  a_range (run_ticks k a) = a_range a /\ a_bound (run_ticks k a) = a_bound a /\ a_binds (run_ticks k a) = a_binds a.
Proof.
  induction k as [|k IH]; [repeat split|]. rewrite run_ticks_snoc.
  destruct (tick_fields (run_ticks k a)) as [H1 [H2 [H3 _]]]. cbv zeta in *. destruct IH as [I1 [I2 I3]].
  rewrite H1, H2, H3. auto.
Qed.

Lemma run_ticks_spec k a : wf_auto a ->
  settled_value (run_ticks k a) == settled_value a /\ wf_auto (run_ticks k a)
  /\ ticks_left (run_ticks k a) = (ticks_left a - k)%nat
  /\ (all_up a -> all_up (run_ticks k a)) /\ (all_down a -> all_down (run_ticks k a)).
Proof.
  intros Hw. induction k as [|k IH].
  - change (run_ticks 0 a) with a. repeat split; auto; try reflexivity. lia.
  - rewrite run_ticks_snoc. destruct IH as [I1 [I2 [I3 [I4 I5]]]].
    destruct (tick_spec (run_ticks k a) I2) as [T1 [T2 [T3 [T4 T5]]]]. cbv zeta in *.
    repeat split.
    + rewrite T1. exact I1.
    + exact T2.
    + rewrite T3, I3. lia.
    + intros H. apply T4, I4, H.
    + intros H. apply T5, I5, H.
Qed.

(* once every modulation has run out the value is the settled value, and it stays *)
Lemma arrived k a : wf_auto a -> (ticks_left a <= k)%nat ->
  a_cv (run_ticks k a) == settled_value a /\ a_mods (run_ticks k a) = [].
Proof.
  intros Hw Hk. destruct (run_ticks_spec k a Hw) as [S1 [S2 [S3 _]]].
  assert (E : a_mods (run_ticks k a) = []) by (apply max_remaining_0; [exact S2|unfold ticks_left in *; lia]).
  split; [|exact E]. rewrite <- S1. unfold settled_value. rewrite E. unfold pending_all; cbn. ring.
Qed.

Lemma monotone_up k a : wf_auto a -> all_up a -> a_cv (run_ticks k a) <= a_cv (run_ticks (S k) a).
Proof.
  intros Hw Hu. rewrite run_ticks_snoc. destruct (run_ticks_spec k a Hw) as [_ [S2 [_ [S4 _]]]].
  destruct (tick_spec (run_ticks k a) S2) as [_ [_ [_ [T4 _]]]]. apply T4, S4, Hu.
Qed.
Lemma monotone_down k a : wf_auto a -> all_down a -> a_cv (run_ticks (S k) a) <= a_cv (run_ticks k a).
Proof.
  intros Hw Hu. rewrite run_ticks_snoc. destruct (run_ticks_spec k a Hw) as [_ [S2 [_ [_ S5]]]].
  destruct (tick_spec (run_ticks k a) S2) as [_ [_ [_ [_ T5]]]]. apply T5, S5, Hu.
Qed.

(** * move_by / move_to *)
Definition move_ticks (N : Z) : nat := Z.to_nat (Z.max N 1).

Lemma pending_all_app ms1 ms2 : pending_all (ms1 ++ ms2) == pending_all ms1 + pending_all ms2.
Proof. unfold pending_all. rewrite map_app, psum_app. reflexivity. Qed.
Lemma max_remaining_app ms1 ms2 : max_remaining (ms1 ++ ms2) = Nat.max (max_remaining ms1) (max_remaining ms2).
Proof. induction ms1 as [|m ms IH]; [reflexivity|]. cbn [app max_remaining fold_right]. fold (max_remaining (ms ++ ms2)). fold (max_remaining ms). rewrite IH. lia. Qed.

Lemma qnat_to_nat N : (0 <= N)%Z -> qnat (Z.to_nat N) == inject_Z N.
Proof. intros H. unfold qnat. rewrite Z2Nat.id by exact H. reflexivity. Qed.

Lemma some_inj {A} (x y : A) : Some x = Some y -> x = y.
Proof. congruence. Qed.

Lemma move_by_spec tpb a v d e a' : wf_auto a -> move_by tpb a v d e = Some a' ->
  let N := duration_ticks tpb (match d with Some x => x | None => a_default a end) in
  (0 <= N)%Z
  /\ a_cv a' = a_cv a /\ a_range a' = a_range a /\ a_bound a' = a_bound a /\ a_binds a' = a_binds a
  /\ wf_auto a'
  /\ settled_value a' == settled_value a + v
  /\ ticks_left a' = Nat.max (ticks_left a) (move_ticks N)
  /\ (all_up a -> 0 <= v -> all_up a') /\ (all_down a -> v <= 0 -> all_down a').
Proof.
  intros Hw. unfold move_by. set (N := duration_ticks tpb _). cbv zeta.
  destruct (Z.ltb_spec N 0) as [|HN]; [discriminate|].
  set (E := envelope_ticks e N). destruct (Z.ltb_spec N E) as [|HE]; [discriminate|].
  intros H; apply some_inj in H; subst a'.
  set (m := mkMod _ _ _ _ _).
  assert (Hm : wf m /\ pending m == v /\ remaining m = move_ticks N
               /\ (0 <= v -> 0 <= m_delta m) /\ (v <= 0 -> m_delta m <= 0)).
  { unfold m, wf, wf_mod, wf_empty_ticks, pending, remaining, move_ticks.
    cbn [m_empty m_rest m_ticks m_cur m_delta].
    destruct (Z.eqb_spec N 0) as [E0|E0].
    - assert (EE : Z.to_nat E = 0%nat) by lia. rewrite E0 in *. rewrite EE.
      change (Z.to_nat 0) with 0%nat. unfold envelope, raw_envelope. cbn [Nat.eqb repeat map].
      destruct (Z.ltb_spec 0 0); [lia|]. rewrite !Qred_correct.
      repeat split; auto; try lia; intros; try (unfold Qdiv; field_simplify; lra).
    - assert (H1 : (1 <= Z.to_nat N)%nat) by lia. assert (H2 : (Z.to_nat E <= Z.to_nat N)%nat) by lia.
      destruct (Z.ltb_spec 0 N); [|lia].
      assert (Hq : 0 < inject_Z N) by (change 0 with (inject_Z 0); rewrite <- Zlt_Qlt; lia).
      rewrite !Qred_correct. rewrite envelope_sum, envelope_length by assumption.
      rewrite qnat_to_nat by lia.
      repeat split; try discriminate.
      + right. repeat split; auto.
        * intros Hx. pose proof (envelope_length (Z.to_nat N) (Z.to_nat E) H2) as HL. rewrite Hx in HL. cbn in HL. lia.
        * lia.
        * apply envelope_nonneg; assumption.
      + field. lra.
      + lia.
      + intros Hv. apply Qle_shift_div_l; lra.
      + intros Hv. apply Qle_shift_div_r; lra. }
  destruct Hm as [M1 [M2 [M3 [M4 M5]]]].
  unfold wf_auto, settled_value, ticks_left, all_up, all_down.
  cbn [set_mods a_cv a_mods a_range a_bound a_binds].
  repeat split; auto.
  - apply Forall_app; split; [exact Hw|constructor; [exact M1|constructor]].
  - rewrite pending_all_app. unfold pending_all at 2. cbn [map psum fold_right]. rewrite M2. ring.
  - rewrite max_remaining_app. cbn [max_remaining fold_right]. rewrite M3. lia.
  - intros Hu Hv. apply Forall_app; split; [exact Hu|constructor; [apply M4, Hv|constructor]].
  - intros Hu Hv. apply Forall_app; split; [exact Hu|constructor; [apply M5, Hv|constructor]].
Qed.

Lemma move_to_spec tpb a v d e a' : move_to tpb a v d e = Some a' ->
  let N := duration_ticks tpb (match d with Some x => x | None => a_default a end) in
  (0 <= N)%Z
  /\ a_cv a' = a_cv a /\ a_range a' = a_range a /\ a_bound a' = a_bound a /\ a_binds a' = a_binds a
  /\ wf_auto a'
  /\ settled_value a' == v
  /\ ticks_left a' = move_ticks N
  /\ (a_cv a <= v -> all_up a') /\ (v <= a_cv a -> all_down a').
Proof.
  unfold move_to. intros H.
  assert (Hw : wf_auto (set_mods a [])) by constructor.
  destruct (move_by_spec tpb (set_mods a []) (v - a_cv a) d e a' Hw H) as [S0 [S1 [S2 [S3 [S4 [S5 [S6 [S7 [S8 S9]]]]]]]]].
  cbv zeta in *. unfold set_mods in *. cbn [a_cv a_range a_bound a_binds a_default] in *.
  assert (P0 : pending_all [] == 0) by (unfold pending_all; cbn; reflexivity).
  repeat split; auto.
  - rewrite S6. unfold settled_value. cbn [a_cv a_mods]. rewrite P0. ring.
  - intros Hv. apply S8; [constructor|lra].
  - intros Hv. apply S9; [constructor|lra].
Qed.

(** * duration in ticks *)
Lemma rhe_bounds x : inject_Z (round_half_even x) - x <= 1 # 2 /\ x - inject_Z (round_half_even x) <= 1 # 2.
Proof.
  unfold round_half_even. pose proof (Qfloor_le x) as H1. pose proof (Qlt_floor x) as H2.
  rewrite inject_Z_plus in H2. change (inject_Z 1) with 1 in H2.
  destruct (Qcompare (x - inject_Z (Qfloor x)) (1 # 2)) eqn:C.
  - apply Qeq_alt in C. destruct (Z.even (Qfloor x)); [|rewrite inject_Z_plus; change (inject_Z 1) with 1]; lra.
  - apply Qlt_alt in C. lra.
  - apply Qgt_alt in C. rewrite inject_Z_plus. change (inject_Z 1) with 1. lra.
Qed.

Lemma rhe_floor_le x : (Qfloor x <= round_half_even x)%Z.
Proof. unfold round_half_even. destruct (Qcompare _ _); [destruct (Z.even _)|..]; lia. Qed.

Lemma rhe_near x m : - (1 # 2) < x - inject_Z m < 1 # 2 -> round_half_even x = m.
Proof.
  intros [H1 H2]. destruct (rhe_bounds x) as [B1 B2]. set (z := round_half_even x) in *.
  assert (A : inject_Z (z - m) < inject_Z 1).
  { unfold Zminus. rewrite inject_Z_plus, inject_Z_opp. change (inject_Z 1) with 1. lra. }
  assert (B : inject_Z (-1) < inject_Z (z - m)).
  { unfold Zminus. rewrite inject_Z_plus, inject_Z_opp. change (inject_Z (-1)) with (-(1)). lra. }
  rewrite <- Zlt_Qlt in A, B. lia.
Qed.

(* a duration within 5e-9 ticks of a whole number m of ticks lasts exactly m ticks: float error in
   duration / tick_duration does not add a tick *)
Lemma duration_ticks_near tpb d m :
  - (1 # 200000000) < d * inject_Z tpb - inject_Z m < 1 # 200000000 -> duration_ticks tpb d = m.
Proof.
  intros [H1 H2]. unfold duration_ticks, round8.
  assert (E : round_half_even (d * inject_Z tpb * 100000000) = (m * 100000000)%Z).
  { apply rhe_near. rewrite inject_Z_mult. change (inject_Z 100000000) with 100000000. split; lra. }
  rewrite E. rewrite inject_Z_mult. change (inject_Z 100000000) with 100000000.
  assert (Q : inject_Z m * 100000000 / 100000000 == inject_Z m) by (field).
  rewrite Q. apply Qceiling_Z.
Qed.

Lemma duration_ticks_whole tpb d m : d * inject_Z tpb == inject_Z m -> duration_ticks tpb d = m.
Proof. intros H. apply duration_ticks_near. rewrite H. split; lra. Qed.

Lemma duration_ticks_nonneg tpb d : 0 <= d -> (0 <= tpb)%Z -> (0 <= duration_ticks tpb d)%Z.
Proof.
  intros Hd Ht. unfold duration_ticks, round8.
  assert (Hx : 0 <= d * inject_Z tpb * 100000000).
  { assert (0 <= inject_Z tpb) by (change 0 with (inject_Z 0); rewrite <- Zle_Qle; exact Ht). nra. }
  assert (Hr : (0 <= round_half_even (d * inject_Z tpb * 100000000))%Z).
  { pose proof (rhe_floor_le (d * inject_Z tpb * 100000000)). pose proof (Qfloor_resp_le _ _ Hx). change (Qfloor 0) with 0%Z in H0. lia. }
  change 0%Z with (Qceiling 0). apply Qceiling_resp_le.
  apply Qle_shift_div_l; [reflexivity|]. rewrite Qmult_0_l. change 0 with (inject_Z 0). rewrite <- Zle_Qle. exact Hr.
Qed.

Lemma envelope_ticks_bounds e N : 0 <= e <= 1 -> (0 <= N)%Z -> (0 <= envelope_ticks e N <= N)%Z.
Proof.
  intros [He0 He1] HN. unfold envelope_ticks, Qtrunc.
  assert (HNq : 0 <= inject_Z N) by (change 0 with (inject_Z 0); rewrite <- Zle_Qle; exact HN).
  assert (H0 : 0 <= e * inject_Z N) by nra. assert (H1 : e * inject_Z N <= inject_Z N) by nra.
  destruct (Qle_bool 0 (e * inject_Z N)) eqn:B.
  - pose proof (Qfloor_resp_le _ _ H0). pose proof (Qfloor_resp_le _ _ H1). rewrite Qfloor_Z in H2.
    change (Qfloor 0) with 0%Z in H. lia.
  - apply Qle_bool_iff in H0. congruence.
Qed.

(* every call inside the property's domain is accepted *)
Lemma move_by_accepts tpb a v d e :
  (0 <= tpb)%Z -> 0 <= (match d with Some x => x | None => a_default a end) -> 0 <= e <= 1 ->
  exists a', move_by tpb a v d e = Some a'.
Proof.
  intros Ht Hd He. unfold move_by. set (N := duration_ticks tpb _).
  pose proof (duration_ticks_nonneg tpb _ Hd Ht) as HN. fold N in HN.
  pose proof (envelope_ticks_bounds e N He HN) as HE. cbv zeta.
  destruct (Z.ltb_spec N 0); [lia|]. destruct (Z.ltb_spec N (envelope_ticks e N)); [lia|].
  eexists; reflexivity.
Qed.

(** * the reported value *)
Lemma qmin_spec a b : qmin a b <= a /\ qmin a b <= b /\ (qmin a b == a \/ qmin a b == b).
Proof.
  unfold qmin. destruct (Qle_bool a b) eqn:E.
  - apply Qle_bool_iff in E. repeat split; try lra; try (left; reflexivity).
  - assert (~ a <= b) by (intros H; apply Qle_bool_iff in H; congruence). repeat split; try lra; try (right; reflexivity).
Qed.
Lemma qmax_spec a b : a <= qmax a b /\ b <= qmax a b /\ (qmax a b == a \/ qmax a b == b).
Proof.
  unfold qmax. destruct (Qle_bool a b) eqn:E.
  - apply Qle_bool_iff in E. repeat split; try lra; try (right; reflexivity).
  - assert (~ a <= b) by (intros H; apply Qle_bool_iff in H; congruence). repeat split; try lra; try (left; reflexivity).
Qed.

Lemma clip_range lo hi x : lo <= hi -> lo <= clip lo hi x <= hi.
Proof.
  intros H. unfold clip. destruct (qmin_spec hi x) as [A [B C]]. destruct (qmax_spec lo (qmin hi x)) as [D [E F]].
  split; [exact D|]. destruct F as [F|F]; rewrite F; lra.
Qed.
Lemma clip_inside lo hi x : lo <= x <= hi -> clip lo hi x == x.
Proof.
  intros H. unfold clip. destruct (qmin_spec hi x) as [A [B C]]. destruct (qmax_spec lo (qmin hi x)) as [D [E F]].
  destruct F as [F|F]; destruct C as [C|C]; lra.
Qed.
Lemma clip_mono lo hi x y : x <= y -> clip lo hi x <= clip lo hi y.
Proof.
  intros H. unfold clip.
  destruct (qmin_spec hi x) as [A [B C]]. destruct (qmin_spec hi y) as [A' [B' C']].
  destruct (qmax_spec lo (qmin hi x)) as [D [E F]]. destruct (qmax_spec lo (qmin hi y)) as [D' [E' F']].
  destruct F as [F|F]; destruct C as [C|C]; destruct F' as [F'|F']; destruct C' as [C'|C']; lra.
Qed.

Lemma qmod_range x w : 0 < w -> 0 <= qmod x w < w.
Proof.
  intros Hw. unfold qmod. pose proof (Qfloor_le (x / w)) as H1. pose proof (Qlt_floor (x / w)) as H2.
  rewrite inject_Z_plus in H2. change (inject_Z 1) with 1 in H2. set (f := inject_Z (Qfloor (x / w))) in *.
  assert (E : x == (x / w) * w) by (field; lra). split.
  - assert (f * w <= x / w * w) by nra. lra.
  - assert (x / w * w < (f + 1) * w) by nra. lra.
Qed.
Lemma qfloor_unit y : 0 <= y < 1 -> Qfloor y = 0%Z.
Proof.
  intros [H0 H1]. pose proof (Qfloor_le y) as A. pose proof (Qlt_floor y) as B.
  assert (inject_Z (Qfloor y) < inject_Z 1) by (change (inject_Z 1) with 1; lra).
  assert (inject_Z (-1) < inject_Z (Qfloor y)).
  { rewrite inject_Z_plus in B. change (inject_Z 1) with 1 in B. change (inject_Z (-1)) with (-(1)). lra. }
  rewrite <- Zlt_Qlt in *. lia.
Qed.
Lemma qmod_inside x w : 0 <= x < w -> qmod x w == x.
Proof.
  intros [H0 H1]. unfold qmod. assert (Hw : 0 < w) by lra.
  assert (F : Qfloor (x / w) = 0%Z).
  { apply qfloor_unit. split; [apply Qle_shift_div_l; lra|apply Qlt_shift_div_r; lra]. }
  rewrite F. change (inject_Z 0) with 0. ring.
Qed.

Lemma wrap_range lo hi x : lo < hi -> lo <= wrap lo hi x < hi.
Proof. intros H. unfold wrap. pose proof (qmod_range (x - lo) (hi - lo) ltac:(lra)). lra. Qed.
Lemma wrap_inside lo hi x : lo <= x < hi -> wrap lo hi x == x.
Proof. intros H. unfold wrap. rewrite qmod_inside by lra. ring. Qed.
Lemma wrap_congruent lo hi x : exists k : Z, wrap lo hi x == x + inject_Z k * (hi - lo).
Proof.
  exists (- Qfloor ((x - lo) / (hi - lo)))%Z. unfold wrap, qmod. rewrite inject_Z_opp. ring.
Qed.

(** * bindings *)
Lemma tick_calls a :
  let '(a', calls) := tick a in
  (a_cv a' == a_cv a /\ calls = [])
  \/ (~ a_cv a' == a_cv a /\ calls = map (fun b => (b, value a')) (a_binds a')).
Proof.
  unfold tick. destruct (tick_mods (a_mods a)) as [s ms].
  destruct (Qeq_bool (Qred (a_cv a + s)) (a_cv a)) eqn:E.
  - left. split; reflexivity.
  - right. unfold jump_to, notify. cbn [set_cv set_mods a_cv a_binds]. split; [|reflexivity].
    intros H. apply Qeq_bool_neq in E. contradiction.
Qed.

Lemma jump_to_calls a v :
  let '(a', calls) := jump_to a v in
  a_cv a' = v /\ a_mods a' = a_mods a /\ a_binds a' = a_binds a
  /\ calls = map (fun b => (b, value a')) (a_binds a').
Proof. unfold jump_to, notify. cbn. repeat split. Qed.

Lemma bind_to_calls a b :
  let '(a', calls) := bind_to a b in
  a_cv a' = a_cv a /\ a_mods a' = a_mods a /\ a_binds a' = a_binds a ++ [b] /\ value a' = value a
  /\ calls = [(b, value a')].
Proof. unfold bind_to. cbn. repeat split. Qed.

(** * every state reachable through the API is well formed *)
Lemma wf_new range b initial default : wf_auto (new_automation range b initial default).
Proof. constructor. Qed.

Lemma wf_step tpb a o a' calls : wf_auto a -> step tpb a o = Some (a', calls) -> wf_auto a'.
Proof.
  intros Hw. destruct o as [|v d e|v d e|v|b|r|b|dd]; cbn [step].
  - intros H. apply some_inj in H. pose proof (tick_spec a Hw) as [_ [T _]]. rewrite H in T. exact T.
  - destruct (move_to tpb a v d e) as [a1|] eqn:E; [|discriminate]. cbn [option_map]. intros H; apply some_inj in H.
    inversion H; subst. apply (move_to_spec _ _ _ _ _ _ E).
  - destruct (move_by tpb a v d e) as [a1|] eqn:E; [|discriminate]. cbn [option_map]. intros H; apply some_inj in H.
    inversion H; subst. apply (move_by_spec _ _ _ _ _ _ Hw E).
  - intros H; apply some_inj in H. inversion H; subst. exact Hw.
  - intros H; apply some_inj in H. inversion H; subst. exact Hw.
  - intros H; apply some_inj in H. inversion H; subst. exact Hw.
  - intros H; apply some_inj in H. inversion H; subst. exact Hw.
  - intros H; apply some_inj in H. inversion H; subst. exact Hw.
Qed.

Inductive reachable (tpb : Z) : automation -> Prop :=
| reach_new range b initial default : reachable tpb (new_automation range b initial default)
| reach_step a o a' calls : reachable tpb a -> step tpb a o = Some (a', calls) -> reachable tpb a'.

Lemma reachable_wf tpb a : reachable tpb a -> wf_auto a.
Proof. induction 1; [apply wf_new|eapply wf_step; eassumption]. Qed.

(** * the reported value as a function of current_value *)
Definition report (range : option (Q * Q)) (b : boundary) (x : Q) : Q :=
  match range with
  | None => x
  | Some (lo, hi) => match b with Clip => clip lo hi x | Wrap => wrap lo hi x end
  end.
Lemma value_report a : value a = report (a_range a) (a_bound a) (a_cv a).
Proof. unfold value, report. destruct (a_range a) as [[lo hi]|]; reflexivity. Qed.

Lemma report_proper range b x y : x == y -> report range b x == report range b y.
Proof.
  intros H. unfold report. destruct range as [[lo hi]|]; [|exact H]. destruct b.
  - unfold clip, qmax, qmin. rewrite (Qleb_comp _ _ (Qeq_refl hi) _ _ H).
    destruct (Qle_bool hi y); [reflexivity|]. rewrite (Qleb_comp _ _ (Qeq_refl lo) _ _ H).
    destruct (Qle_bool lo y); [exact H|reflexivity].
  - unfold wrap, qmod. assert (E : (x - lo) / (hi - lo) == (y - lo) / (hi - lo)) by (rewrite H; reflexivity).
    rewrite (Qfloor_comp _ _ E), H. reflexivity.
Qed.

Lemma report_mono range x y : x <= y -> report range Clip x <= report range Clip y.
Proof. intros H. unfold report. destruct range as [[lo hi]|]; [apply clip_mono, H|exact H]. Qed.

(** * more on the duration in ticks: it is ceil(duration / tick) unless the quotient is within 5e-9 above a
   whole number (then it is that whole number, [duration_ticks_near]) *)
Lemma rhe_le_ceiling x : (round_half_even x <= Qceiling x)%Z.
Proof.
  unfold round_half_even. pose proof (Qfloor_le x) as H1. pose proof (Qle_ceiling x) as H2.
  assert (F : (Qfloor x <= Qceiling x)%Z) by (rewrite Zle_Qle; lra).
  destruct (Qcompare (x - inject_Z (Qfloor x)) (1 # 2)) eqn:C.
  - apply Qeq_alt in C. destruct (Z.even _); [exact F|].
    assert (H : inject_Z (Qfloor x) < inject_Z (Qceiling x)) by lra. rewrite <- Zlt_Qlt in H. lia.
  - exact F.
  - apply Qgt_alt in C.
    assert (H : inject_Z (Qfloor x) < inject_Z (Qceiling x)) by lra. rewrite <- Zlt_Qlt in H. lia.
Qed.

Lemma qceiling_unique q m : inject_Z (m - 1) < q <= inject_Z m -> Qceiling q = m.
Proof.
  intros [A B]. pose proof (Qle_ceiling q) as H1. pose proof (Qceiling_lt q) as H2.
  assert (H3 : inject_Z (Qceiling q - 1) < inject_Z m) by lra.
  assert (H4 : inject_Z (m - 1) < inject_Z (Qceiling q)) by lra.
  rewrite <- Zlt_Qlt in H3, H4. lia.
Qed.

Lemma duration_ticks_ceiling tpb d m :
  inject_Z (m - 1) + (1 # 200000000) < d * inject_Z tpb <= inject_Z m -> duration_ticks tpb d = m.
Proof.
  intros [H1 H2]. unfold duration_ticks, round8. set (y := d * inject_Z tpb * 100000000).
  unfold Zminus in H1. rewrite inject_Z_plus, inject_Z_opp in H1. change (inject_Z 1) with 1 in H1.
  assert (U : (round_half_even y <= m * 100000000)%Z).
  { pose proof (rhe_le_ceiling y) as R. assert (Y : y <= inject_Z (m * 100000000)).
    { rewrite inject_Z_mult. change (inject_Z 100000000) with 100000000. unfold y. lra. }
    apply Qceiling_resp_le in Y. rewrite Qceiling_Z in Y. lia. }
  assert (L : ((m - 1) * 100000000 < round_half_even y)%Z).
  { destruct (rhe_bounds y) as [_ B]. rewrite Zlt_Qlt, inject_Z_mult. unfold Zminus.
    rewrite inject_Z_plus, inject_Z_opp. change (inject_Z 100000000) with 100000000. change (inject_Z 1) with 1.
    unfold y in *. lra. }
  apply qceiling_unique. rewrite Zle_Qle in U. rewrite Zlt_Qlt in L. rewrite inject_Z_mult in U, L.
  change (inject_Z 100000000) with 100000000 in U, L. split.
  - apply Qlt_shift_div_l; [reflexivity|]. exact L.
  - apply Qle_shift_div_r; [reflexivity|]. exact U.
Qed.

Lemma move_to_accepts tpb a v d e :
  (0 <= tpb)%Z -> 0 <= (match d with Some x => x | None => a_default a end) -> 0 <= e <= 1 ->
  exists a', move_to tpb a v d e = Some a'.
Proof. intros Ht Hd He. unfold move_to. apply move_by_accepts; assumption. Qed.

(** * monotone approach over any number of ticks, never past the settled value *)
Lemma monotone_up_le j k a : wf_auto a -> all_up a -> (j <= k)%nat -> a_cv (run_ticks j a) <= a_cv (run_ticks k a).
Proof.
  intros Hw Hu H. induction H as [|k H IH]; [apply Qle_refl|].
  eapply Qle_trans; [exact IH|apply monotone_up; assumption].
Qed.
Lemma monotone_down_le j k a : wf_auto a -> all_down a -> (j <= k)%nat -> a_cv (run_ticks k a) <= a_cv (run_ticks j a).
Proof.
  intros Hw Hu H. induction H as [|k H IH]; [apply Qle_refl|].
  eapply Qle_trans; [apply monotone_down; assumption|exact IH].
Qed.
Lemma below_settled k a : wf_auto a -> all_up a -> a_cv (run_ticks k a) <= settled_value a.
Proof.
  intros Hw Hu. destruct (arrived (Nat.max k (ticks_left a)) a Hw ltac:(lia)) as [E _]. rewrite <- E.
  apply monotone_up_le; [assumption..|lia].
Qed.
Lemma above_settled k a : wf_auto a -> all_down a -> settled_value a <= a_cv (run_ticks k a).
Proof.
  intros Hw Hu. destruct (arrived (Nat.max k (ticks_left a)) a Hw ltac:(lia)) as [E _]. rewrite <- E.
  apply monotone_down_le; [assumption..|lia].
Qed.

(** * the trace of n ticks: every tick either calls nobody or calls every binding, in bind order, with the
   value reported after that tick *)
Lemma ticks_trace_calls n a :
  Forall (fun vc : Q * list call => snd vc = [] \/ snd vc = map (fun b => (b, fst vc)) (a_binds a)) (snd (ticks n a)).
Proof.
  revert a. induction n as [|n IH]; intros a; cbn [ticks]; [constructor|].
  pose proof (tick_calls a) as Hc. destruct (tick_fields a) as [_ [_ [Hb _]]]. cbv zeta in Hb.
  destruct (tick a) as [a1 c]. cbn [fst] in Hb. specialize (IH a1). destruct (ticks n a1) as [a2 tr].
  cbn [snd] in *. constructor.
  - cbn [fst snd]. destruct Hc as [[_ ->]|[_ ->]]; [left; reflexivity|right; rewrite Hb; reflexivity].
  - rewrite <- Hb. exact IH.
Qed.

(** * FIX-C18: range / boundaries / default_duration re-assigned after construction, also while moves are running.
   The movement of current_value depends on current_value and the active moves alone, so a move under way
   arrives when it would have, and what is reported is that value clipped / wrapped into the range in force *)
Definition same_motion (a b : automation) : Prop := a_cv a = a_cv b /\ a_mods a = a_mods b.

Lemma tick_same_motion a b : same_motion a b -> same_motion (fst (tick a)) (fst (tick b)).
Proof.
  intros [C M]. unfold tick. rewrite M. destruct (tick_mods (a_mods b)) as [s ms]. rewrite C.
  destruct (Qeq_bool (Qred (a_cv b + s)) (a_cv b)); unfold jump_to, same_motion;
    cbn [fst set_cv set_mods a_cv a_mods]; split; auto.
Qed.

Lemma run_ticks_same_motion n a b : same_motion a b -> same_motion (run_ticks n a) (run_ticks n b).
Proof.
  revert a b; induction n as [|n IH]; intros a b H; [exact H|]. rewrite !run_ticks_S. apply IH, tick_same_motion, H.
Qed.

Lemma reconfig_same_motion a r b d : same_motion (set_default (set_bound (set_range a r) b) d) a.
Proof. split; reflexivity. Qed.

Lemma reconfig_value n a r b d :
  let a' := set_default (set_bound (set_range a r) b) d in
  a_cv (run_ticks n a') = a_cv (run_ticks n a)
  /\ a_mods (run_ticks n a') = a_mods (run_ticks n a)
  /\ a_binds (run_ticks n a') = a_binds a
  /\ value (run_ticks n a') = report r b (a_cv (run_ticks n a)).
Proof.
  cbv zeta. destruct (run_ticks_same_motion n _ _ (reconfig_same_motion a r b d)) as [C M].
  destruct (run_ticks_fields n (set_default (set_bound (set_range a r) b) d)) as [F1 [F2 F3]].
  repeat split; try assumption.
  rewrite value_report, F1, F2, C. reflexivity.
Qed.

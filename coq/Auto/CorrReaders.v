(* Auto/CorrReaders.v — comparison functions of the correspondence check (harness/c18.py) for histories in which an LFO is
   read through patterns (Auto/Readers.v): every operation of the history with what the implementation returned and
   the lfo.value it showed afterwards. *)
From Isobar Require Import Base.Prelude Auto.Automation Auto.Lfo Auto.Corr Auto.Readers.
From Coq Require Import QArith Qround Qabs Qreduction Uint63.
Local Open Scope Q_scope.

(* what the implementation returned: nothing / a value / a list (all) / a length (len) / StopIteration / another exception *)
Inductive wexp := XNone | XVal (i : int) | XList (l : list int) | XLen (n : Z) | XStop | XErr.

Definition res_matches (x : res) (e : wexp) : bool :=
  match x, e with
  | RUnit, XNone => true
  | RVal q, XVal i => close q (fst (dec i))
  | RList vs, XList l => all2 (fun m i => close m (fst (dec i))) vs l
  | RList vs, XLen n => (Z.of_nat (List.length vs) =? n)%Z
  | RStop, XStop => true
  | RErr, XErr => true
  | _, _ => false
  end.

(* one step of the history: the operation, what it returned, lfo.value afterwards *)
Definition W_ (o : wop) (e : wexp) (v : int) : wop * wexp * int := (o, e, v).
Arguments W_ o e v%uint63.

Fixpoint check_world_steps (s : Q -> Q) (fuel : nat) (tpb : Z) (w : world) (steps : list (wop * wexp * int)) : bool :=
  match steps with
  | [] => true
  | (o, e, v) :: rest =>
      let '(w1, x) := w_step s fuel tpb w o in
      res_matches x e && close (lfo_value (w_lfo w1)) (fst (dec v)) && check_world_steps s fuel tpb w1 rest
  end.

Definition check_world (tab : list (Z * positive * int)) (fuel : nat) (tpb : Z) (f lo hi : Q) (init : int)
                       (tracks : list (list reader)) (steps : list (wop * wexp * int)) : bool :=
  let l0 := new_lfo f lo hi in
  close (lfo_value l0) (fst (dec init)) && check_world_steps (sin_of_assoc tab) fuel tpb (mkWorld l0 [] tracks) steps.

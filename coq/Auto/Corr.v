(* Auto/Corr.v — comparison functions used only by the correspondence check (harness/c18.py): they run
   the model of Auto/Automation.v and Auto/Lfo.v on a scenario and compare every observation with the
   numbers the implementation produced.  Implementation floats arrive as primitive 63-bit integers
   (cheap to parse):  lit = 2 * (round(x * 10^12) + 2^61) + flag. *)
From Isobar Require Import Base.Prelude Auto.Automation Auto.Lfo.
From Coq Require Import QArith Qround Qabs Qreduction Uint63.
Local Open Scope Q_scope.

Definition dec (i : int) : Z * bool :=
  let z := Uint63.to_Z i in ((z / 2 - 2305843009213693952)%Z, Z.odd z).

Definition unit12 : Q := 1000000000000.
(* |m - z * 1e-12| <= 1e-9 + 1e-9 * |z * 1e-12|   (+ the rounding of the literal) *)
Definition close (m : Q) (z : Z) : bool :=
  Qle_bool (Qabs (m * unit12 - inject_Z z)) (1001 + Qabs (inject_Z z) / 1000000000).

(* the reported value; under "wrap" a float current_value within 1e-9 of a multiple of the width may land
   on either end of the range *)
Definition close_value (a : automation) (z : Z) : bool :=
  close (value a) z ||
  match a_range a, a_bound a with
  | Some (lo, hi), Wrap =>
      let w := hi - lo in
      let r := qmod (a_cv a - lo) w in
      let tol := (1 # 1000000000) * (1 + Qabs (a_cv a)) in
      (Qle_bool r tol || Qle_bool (w - tol) r) && (close lo z || close hi z)
  | _, _ => false
  end.

(* is "did the value change on this tick" decided by exact arithmetic?  Not when two or more non-zero deltas
   cancel exactly, nor when the change is below float resolution of the current value *)
Definition ambiguous (a : automation) : bool :=
  let ds := map (fun m => fst (fst (mod_tick m))) (a_mods a) in
  let s := qsum ds in
  let nz := List.length (filter (fun d => negb (Qeq_bool d 0)) ds) in
  if Qeq_bool s 0 then
    (* ... nor when a move whose exact delta is 0 is active (move_to the value already reached): in floats the
       value reached carries a residual (1e-14) that such a move "moves", with binding calls *)
    (2 <=? nz)%nat || existsb (fun m => Qeq_bool (m_delta m) 0) (a_mods a)
  else Qle_bool (Qabs s) ((1 # 1000000000000) * (1 + Qabs (a_cv a))).

(* one tick: value close; when the model calls (the exact value changed) the flag "every binding was called
   exactly once with the new value" must be set; when the model does not call, the implementation may still have
   re-sent the (unchanged to 1e-9) value to every binding: the property demands that every new value is
   delivered, not silence *)
Definition check_tick (a : automation) (lit : int) : bool * automation :=
  let '(z, flag) := dec lit in
  let amb := ambiguous a in
  let '(a1, calls) := tick a in
  let called := match calls with [] => false | _ => true end in
  (close_value a1 z &&
   (match a_binds a with [] => negb flag | _ => amb || implb called flag end), a1).

Fixpoint check_ticks (a : automation) (lits : list int) : bool * automation :=
  match lits with
  | [] => (true, a)
  | l :: r => let '(ok, a1) := check_tick a l in
              if ok then check_ticks a1 r else (false, a1)
  end.

Fixpoint all2 {A B} (f : A -> B -> bool) (l1 : list A) (l2 : list B) : bool :=
  match l1, l2 with
  | [], [] => true
  | x :: xs, y :: ys => f x y && all2 f xs ys
  | _, _ => false
  end.

Definition check_calls (a : automation) (calls : list call) (exp : list (Z * int)) : bool :=
  all2 (fun (c : call) (e : Z * int) => (fst c =? fst e)%Z && (close (snd c) (fst (dec (snd e))) || close_value a (fst (dec (snd e))))) calls exp.

(* a segment: an operation with what the implementation showed right after it (None = it raised; else
   value and the calls it made, sorted by binding id), followed by ticks *)
Record seg := mkSeg { s_op : option op; s_exp : option (int * list (Z * int)); s_ticks : list int }.

Fixpoint check_segs (tpb : Z) (a : automation) (segs : list seg) : bool :=
  match segs with
  | [] => true
  | s :: rest =>
      let r := match s_op s with
               | None => Some (a, [])
               | Some o => step tpb a o
               end in
      match r, s_exp s with
      | None, None => true                       (* both reject the call: the scenario ends here *)
      | Some (a1, calls), Some (vl, ecalls) =>
          if close_value a1 (fst (dec vl)) && check_calls a1 calls ecalls then
            let '(ok, a2) := check_ticks a1 (s_ticks s) in
            if ok then check_segs tpb a2 rest else false
          else false
      | _, _ => false
      end
  end.

(* index of the first failing tick of a scenario, for diagnostics *)
Fixpoint first_bad_tick (a : automation) (lits : list int) (i : nat) : option (nat * Q * Q) :=
  match lits with
  | [] => None
  | l :: r => let '(ok, a1) := check_tick a l in
              if ok then first_bad_tick a1 r (S i) else Some (i, a_cv a1, value a1)
  end.

(** LFO: sin2pi is a table indexed by the tick number k (phase k * f / tpb), values scaled by 10^15 *)
Definition sin_of_table (tab : list int) (f : Q) (tpb : Z) (x : Q) : Q :=
  let k := Qred (x * inject_Z tpb / f) in
  if (Zpos (Qden k) =? 1)%Z && (0 <=? Qnum k)%Z then
    match nth_error tab (Z.to_nat (Qnum k)) with
    | Some i => inject_Z (fst (dec i)) / 1000000000000000
    | None => 0
    end
  else 0.

Definition check_lfo (tab : list int) (tpb : Z) (f lo hi : Q) (init : int) (exp : list int) : bool :=
  let s := sin_of_table tab f tpb in
  let l0 := new_lfo f lo hi in
  close (lfo_value l0) (fst (dec init)) &&
  all2 (fun m e => close m (fst (dec e))) (lfo_trace s tpb (List.length exp) l0) exp.

(** LFO histories with re-configuration (FIX-C18).  The frequency changes along the way, so the sine table is keyed by
    the exact phase x = current_time * frequency (reduced numerator / denominator), values scaled by 10^15 *)
Definition se (n : Z) (d : positive) (i : int) : Z * positive * int := (n, d, i).
Arguments se n%Z d%positive i%uint63.
Fixpoint assoc_find (n : Z) (d : positive) (tab : list (Z * positive * int)) : option int :=
  match tab with
  | [] => None
  | (n', d', i) :: r => if (n' =? n)%Z && (d' =? d)%positive then Some i else assoc_find n d r
  end.
Definition sin_of_assoc (tab : list (Z * positive * int)) (x : Q) : Q :=
  let k := Qred x in
  match assoc_find (Qnum k) (Qden k) tab with
  | Some i => inject_Z (fst (dec i)) / 1000000000000000
  | None => 0
  end.

(* a segment: an optional re-configuration with the value the implementation showed right after it, then the
   values after each of the following ticks *)
Record lseg := mkLseg { ls_op : option lfo_op; ls_val : option int; ls_ticks : list int }.

Fixpoint check_lfo_ticks (s : Q -> Q) (tpb : Z) (l : lfo) (lits : list int) : bool * lfo :=
  match lits with
  | [] => (true, l)
  | e :: r => let l1 := lfo_tick s tpb l in
              if close (lfo_value l1) (fst (dec e)) then check_lfo_ticks s tpb l1 r else (false, l1)
  end.

Fixpoint check_lfo_segs (s : Q -> Q) (tpb : Z) (l : lfo) (segs : list lseg) : bool :=
  match segs with
  | [] => true
  | g :: rest =>
      let l1 := match ls_op g with Some o => lfo_step s tpb o l | None => l end in
      (match ls_val g with Some v => close (lfo_value l1) (fst (dec v)) | None => true end) &&
      (let '(ok, l2) := check_lfo_ticks s tpb l1 (ls_ticks g) in ok && check_lfo_segs s tpb l2 rest)
  end.

Definition check_lfo_script (tab : list (Z * positive * int)) (tpb : Z) (f lo hi : Q) (init : int) (segs : list lseg) : bool :=
  let l0 := new_lfo f lo hi in
  close (lfo_value l0) (fst (dec init)) && check_lfo_segs (sin_of_assoc tab) tpb l0 segs.

(* Timeline.lfo(params, name): the timeline holds the LFO named 0 followed by LFOs created later under the names
   [others]; does the call return the first LFO (position 0), and how many LFOs does the timeline hold
   afterwards?  (None = the real code raised) *)
Definition check_tl_lfo (others : list (option Z)) (name : option Z) (props : list (lfo_key * Q)) (exp : option (bool * Z)) : bool :=
  match tl_lfo name props ((Some 0%Z, new_lfo 1 0 1) :: map (fun n => (n, new_lfo 1 0 1)) others), exp with
  | None, None => true
  | Some (ls, i), Some (same, n) => Bool.eqb (Nat.eqb i 0) same && (Z.of_nat (List.length ls) =? n)%Z
  | _, _ => false
  end.

(* Auto/CorrRetime.v — comparison functions of the correspondence check (harness/c18.py) for histories in which the
   timeline's resolution changes between two operations (Auto/Retime.v): the same comparisons as Auto/Corr.v, with
   the resolution carried in the state. *)
From Isobar Require Import Base.Prelude Auto.Automation Auto.Lfo Auto.Corr Auto.Retime.
From Coq Require Import QArith Qround Qabs Qreduction Uint63.
Local Open Scope Q_scope.

(* a segment: an operation (an API call of the automation, or a change of the timeline's resolution) with what the
   implementation showed right after it (None = it raised), followed by ticks *)
Record rseg := mkRseg { rs_op : option ra_op; rs_exp : option (int * list (Z * int)); rs_ticks : list int }.

Fixpoint check_rsegs (st : Z * automation) (segs : list rseg) : bool :=
  match segs with
  | [] => true
  | s :: rest =>
      let r := match rs_op s with
               | None => Some (st, [])
               | Some o => ra_step st o
               end in
      match r, rs_exp s with
      | None, None => true
      | Some (st1, calls), Some (vl, ecalls) =>
          if close_value (snd st1) (fst (dec vl)) && check_calls (snd st1) calls ecalls then
            let '(ok, a2) := check_ticks (snd st1) (rs_ticks s) in
            if ok then check_rsegs (fst st1, a2) rest else false
          else false
      | _, _ => false
      end
  end.

(* LFO: an optional operation (re-configuration of the LFO, reset, or a change of the resolution) with the value shown
   right after it, then the values after each of the following ticks, which last 1 / (resolution in force) beats *)
Record rlseg := mkRlseg { rls_op : option rl_op; rls_val : option int; rls_ticks : list int }.

Fixpoint check_rl_segs (s : Q -> Q) (st : Z * lfo) (segs : list rlseg) : bool :=
  match segs with
  | [] => true
  | g :: rest =>
      let st1 := match rls_op g with Some o => rl_step s st o | None => st end in
      (match rls_val g with Some v => close (lfo_value (snd st1)) (fst (dec v)) | None => true end) &&
      (let '(ok, l2) := check_lfo_ticks s (fst st1) (snd st1) (rls_ticks g) in ok && check_rl_segs s (fst st1, l2) rest)
  end.

Definition check_lfo_retime (tab : list (Z * positive * int)) (tpb : Z) (f lo hi : Q) (init : int) (segs : list rlseg) : bool :=
  let l0 := new_lfo f lo hi in
  close (lfo_value l0) (fst (dec init)) && check_rl_segs (sin_of_assoc tab) (tpb, l0) segs.

(* Auto/TargetsProofs.v — every object that was ever bound hears every new value, whatever the other bound objects
   look like: lemmas about Auto/Targets.v over whole histories (Auto/Retime.v: ticks, API calls, resolution changes). *)
From Isobar Require Import Base.Prelude Auto.Automation Auto.AutomationProofs Auto.Retime Auto.RetimeProofs Auto.Targets.
From Coq Require Import QArith Lqa.
Local Open Scope Q_scope.

Lemma ra_binds_app a b : ra_binds (a ++ b) = ra_binds a ++ ra_binds b.
Proof.
  induction a as [|o r IH]; [reflexivity|]. destruct o as [[| | | | | | |]|n]; cbn [app ra_binds]; rewrite IH; reflexivity.
Qed.

Lemma ra_binds_bind_ops ts : ra_binds (bind_ops ts) = map tg_id ts.
Proof. unfold bind_ops. induction ts as [|t r IH]; [reflexivity|]. cbn [map ra_binds]. rewrite IH. reflexivity. Qed.

(* binding is never refused and never looks at the targets already there *)
Lemma bind_ops_run st ts : exists a' tr,
  ra_run st (bind_ops ts) = Some ((fst st, a'), tr)
  /\ a_cv a' = a_cv (snd st) /\ a_mods a' = a_mods (snd st) /\ a_binds a' = a_binds (snd st) ++ map tg_id ts
  /\ a_range a' = a_range (snd st) /\ a_bound a' = a_bound (snd st)
  /\ tr = map (fun t => [(tg_id t, value (snd st))]) ts.
Proof.
  unfold bind_ops. revert st; induction ts as [|t r IH]; intros st.
  - exists (snd st), []. destruct st as [tpb a]. cbn. rewrite app_nil_r. repeat split.
  - cbn [map ra_run ra_step step option_map fst snd].
    destruct (IH (fst st, fst (bind_to (snd st) (tg_id t)))) as [a' [tr [E [C [M [B [R [D T]]]]]]]].
    rewrite E. cbn [option_map fst snd] in *.
    exists a', (snd (bind_to (snd st) (tg_id t)) :: tr). unfold bind_to in *. cbn [fst snd a_cv a_mods a_binds a_range a_bound] in *.
    rewrite C, M, B, R, D, <- app_assoc. repeat split.
    rewrite T. cbn [map]. f_equal.
Qed.

Lemma calls_to_notify i v bs : calls_to i (map (fun b : Z => (b, v)) bs) = bound_times i bs.
Proof.
  unfold calls_to, bound_times. induction bs as [|b r IH]; [reflexivity|]. cbn [map filter fst].
  destruct (b =? i)%Z; cbn [List.length]; rewrite IH; reflexivity.
Qed.

Lemma bound_times_in i bs : In i bs -> (1 <= bound_times i bs)%nat.
Proof.
  unfold bound_times. induction bs as [|b r IH]; intros H; [destruct H|]. cbn [filter].
  destruct H as [->|H].
  - rewrite Z.eqb_refl. cbn [List.length]. lia.
  - destruct (b =? i)%Z; cbn [List.length]; [lia|apply IH, H].
Qed.

(* after ANY history the next tick that changes the value calls every binding made so far, once per binding, in
   bind order, with the value reported after the tick; jump_to likewise *)
Lemma history_tick_calls st ops st1 tr : ra_run st ops = Some (st1, tr) ->
  let bs := a_binds (snd st) ++ ra_binds ops in
  a_binds (snd st1) = bs
  /\ (let '(a', calls) := tick (snd st1) in
        (a_cv a' == a_cv (snd st1) /\ calls = [])
        \/ (~ a_cv a' == a_cv (snd st1) /\ calls = map (fun b => (b, value a')) bs))
  /\ (forall v, let '(a', calls) := jump_to (snd st1) v in calls = map (fun b => (b, value a')) bs).
Proof.
  intros H. cbv zeta. pose proof (ra_run_binds _ _ _ _ H) as B. split; [exact B|]. split.
  - pose proof (tick_calls (snd st1)) as Hc. destruct (tick_fields (snd st1)) as [_ [_ [Hb _]]]. cbv zeta in Hb.
    destruct (tick (snd st1)) as [a' calls]. cbn [fst] in Hb. destruct Hc as [Hc|[Hn Hc]]; [left; exact Hc|right].
    rewrite Hb, B in Hc. auto.
  - intros v. pose proof (jump_to_calls (snd st1) v) as Hc. destruct (jump_to (snd st1) v) as [a' calls].
    destruct Hc as [_ [_ [C3 C4]]]. rewrite C3, B in C4. exact C4.
Qed.

(* Auto/Retime.v — the timeline's resolution is re-configured in the middle of a run (FIX-C18, second round).

   Timeline.ticks_per_beat = n  (the public setter hands n to the clock source) and
   Timeline.clock_source = <a clock with another ticks_per_beat>  both change what
       Timeline.tick_duration   (property: 1.0 / self.ticks_per_beat)
   returns from then on.  LFO.tick_duration and Automation.tick_duration are properties that return
   self.timeline.tick_duration, read afresh
       - by LFO.tick          (current_time += self.tick_duration)             on every tick,
       - by Automation.move_by (duration_ticks = ceil(round(duration / self.tick_duration, 8)))  at every call.
   Nothing else in lfo.py / automation.py looks at the resolution: a move that is under way keeps the number of
   ticks computed at its call; Automation.tick does not depend on the resolution.

   The existing model functions already take the resolution as an argument of every single step
   ([lfo_tick tpb], [step tpb]); a history in which the resolution changes is a run in which this argument is
   carried in the state and replaced by the operation [RLTpb n] / [RATpb n].  The LFO / automation state is carried
   over unchanged.  No proofs in this file. *)
From Isobar Require Import Base.Prelude Auto.Automation Auto.Lfo.
From Coq Require Import QArith Qreduction.
Local Open Scope Q_scope.

(** * LFO histories with resolution changes *)
Inductive rl_op :=
| RL (o : lfo_op)          (* a tick, an update of the LFO's parameters, a reset: as in Auto/Lfo.v *)
| RLTpb (n : Z).           (* timeline.ticks_per_beat = n / a clock source with resolution n *)

(* the operations that leave the LFO's configuration and phase clock origin alone: ticks and resolution changes *)
Definition rl_plain (o : rl_op) : bool :=
  match o with RL LTick => true | RLTpb _ => true | _ => false end.
Definition rl_noreset (o : rl_op) : bool :=
  match o with RL LReset => false | _ => true end.

Section SineRetime.
  Variable sin2pi : Q -> Q.

  (* state: the resolution in force and the LFO *)
  Definition rl_step (st : Z * lfo) (o : rl_op) : Z * lfo :=
    match o with
    | RL o' => (fst st, lfo_step sin2pi (fst st) o' (snd st))
    | RLTpb n => (n, snd st)
    end.
  Fixpoint rl_run (st : Z * lfo) (ops : list rl_op) : Z * lfo :=
    match ops with [] => st | o :: r => rl_run (rl_step st o) r end.

  (* what is seen after every operation: (was it a tick, value, (min, max) at that moment) *)
  Fixpoint rl_trace (st : Z * lfo) (ops : list rl_op) : list (bool * Q * (Q * Q)) :=
    match ops with
    | [] => []
    | o :: r => let st' := rl_step st o in
                (match o with RL LTick => true | _ => false end, l_value (snd st'), (l_min (snd st'), l_max (snd st')))
                :: rl_trace st' r
    end.
End SineRetime.

(* the beats that elapse during a history: every tick lasts 1 / (the resolution in force at that tick) beats *)
Fixpoint rl_beats (tpb : Z) (ops : list rl_op) : Q :=
  match ops with
  | [] => 0
  | RL LTick :: r => 1 / inject_Z tpb + rl_beats tpb r
  | RL _ :: r => rl_beats tpb r
  | RLTpb n :: r => rl_beats n r
  end.
(* the resolution in force after a history *)
Fixpoint rl_tpb (tpb : Z) (ops : list rl_op) : Z :=
  match ops with
  | [] => tpb
  | RLTpb n :: r => rl_tpb n r
  | _ :: r => rl_tpb tpb r
  end.

(** * Automation histories with resolution changes *)
Inductive ra_op :=
| RA (o : op)              (* a tick or an API call: as in Auto/Automation.v, at the resolution in force *)
| RATpb (n : Z).

Definition ra_step (st : Z * automation) (o : ra_op) : option ((Z * automation) * list call) :=
  match o with
  | RA o' => option_map (fun r : automation * list call => ((fst st, fst r), snd r)) (step (fst st) (snd st) o')
  | RATpb n => Some ((n, snd st), [])
  end.

(* a whole history; None = some call was rejected.  Second component: the calls made by each operation *)
Fixpoint ra_run (st : Z * automation) (ops : list ra_op) : option ((Z * automation) * list (list call)) :=
  match ops with
  | [] => Some (st, [])
  | o :: r => match ra_step st o with
              | None => None
              | Some (st', c) => option_map (fun x : (Z * automation) * list (list call) => (fst x, c :: snd x)) (ra_run st' r)
              end
  end.

(* only ticks and resolution changes (what happens while a move is under way and nobody calls the automation) *)
Definition ra_idle (o : ra_op) : bool :=
  match o with RA OTick => true | RATpb _ => true | _ => false end.
Definition ra_is_tick (o : ra_op) : bool := match o with RA OTick => true | _ => false end.
Definition ra_ticks (ops : list ra_op) : nat := List.length (filter ra_is_tick ops).

(* the bindings made during a history, in order *)
Fixpoint ra_binds (ops : list ra_op) : list Z :=
  match ops with
  | [] => []
  | RA (OBind b) :: r => b :: ra_binds r
  | _ :: r => ra_binds r
  end.

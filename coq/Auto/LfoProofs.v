(* Auto/LfoProofs.v — lemmas about the LFO model of Auto/Lfo.v.  The sine enters as a Section variable with
   three hypotheses (bounded by 1, period 1, compatible with equality of rationals); nothing is axiomatised. *)
From Isobar Require Import Base.Prelude Auto.Automation Auto.Lfo Auto.AutomationProofs.
From Coq Require Import QArith Qround Qabs Qreduction Lqa.
Local Open Scope Q_scope.
Lemma scale_unit s lo hi : scale_lin_lin s (-1) 1 lo hi == (s + 1) / 2 * (hi - lo) + lo.
Proof. unfold scale_lin_lin. field. Qed.

Lemma scale_range s lo hi : lo <= hi -> -1 <= s <= 1 -> lo <= scale_lin_lin s (-1) 1 lo hi <= hi.
Proof.
  intros H [H1 H2]. rewrite scale_unit.
  assert (A : 0 <= (s + 1) / 2 <= 1) by (split; [apply Qle_shift_div_l|apply Qle_shift_div_r]; lra).
  destruct A. split; nra.
Qed.

Lemma scale_proper s s' lo hi : s == s' -> scale_lin_lin s (-1) 1 lo hi == scale_lin_lin s' (-1) 1 lo hi.
Proof. intros H. unfold scale_lin_lin. rewrite H. reflexivity. Qed.

Section SineFacts.
  Variable sin2pi : Q -> Q.
  Hypothesis sin_range : forall x, -1 <= sin2pi x <= 1.
  Hypothesis sin_period : forall x, sin2pi (x + 1) == sin2pi x.
  Hypothesis sin_proper : forall x y, x == y -> sin2pi x == sin2pi y.

  Lemma wave_range f lo hi t : lo <= hi -> lo <= lfo_wave sin2pi f lo hi t <= hi.
  Proof. intros H. unfold lfo_wave. apply scale_range; [exact H|apply sin_range]. Qed.

  Lemma wave_proper f lo hi t t' : t == t' -> lfo_wave sin2pi f lo hi t == lfo_wave sin2pi f lo hi t'.
  Proof. intros H. unfold lfo_wave. apply scale_proper, sin_proper. rewrite H. reflexivity. Qed.

  Lemma wave_period f lo hi t t' : t' * f == t * f + 1 -> lfo_wave sin2pi f lo hi t' == lfo_wave sin2pi f lo hi t.
  Proof.
    intros H. unfold lfo_wave. apply scale_proper. rewrite (sin_proper _ _ H). apply sin_period.
  Qed.

  Lemma lfo_ticks_snoc tpb n l : lfo_ticks sin2pi tpb (S n) l = lfo_tick sin2pi tpb (lfo_ticks sin2pi tpb n l).
  Proof. revert l; induction n as [|n IH]; intros l; [reflexivity|]. cbn [lfo_ticks] in *. rewrite IH. reflexivity. Qed.

  Lemma lfo_ticks_fields tpb n l :
    let l' := lfo_ticks sin2pi tpb n l in
    l_freq l' = l_freq l /\ l_min l' = l_min l /\ l_max l' = l_max l
    /\ l_time l' == l_time l + qnat n * (1 / inject_Z tpb).
  Proof.
    induction n as [|n IH]; cbv zeta.
    - change (lfo_ticks sin2pi tpb 0 l) with l. repeat split. change (qnat 0) with 0. ring.
    - rewrite lfo_ticks_snoc. destruct IH as [I1 [I2 [I3 I4]]]. unfold lfo_tick. cbn [l_freq l_min l_max l_time].
      repeat split; auto. rewrite Qred_correct, I4, qnat_S. ring.
  Qed.

  (* the value after n >= 1 ticks is the waveform at time t0 + n / tpb *)
  Lemma lfo_value_after tpb n l :
    l_value (lfo_ticks sin2pi tpb (S n) l)
    == lfo_wave sin2pi (l_freq l) (l_min l) (l_max l) (l_time l + qnat (S n) * (1 / inject_Z tpb)).
  Proof.
    rewrite lfo_ticks_snoc. destruct (lfo_ticks_fields tpb n l) as [I1 [I2 [I3 I4]]]. cbv zeta in *.
    unfold lfo_tick. cbn [l_value]. rewrite I1, I2, I3. apply wave_proper.
    rewrite Qred_correct, I4, qnat_S. ring.
  Qed.

  Lemma lfo_range tpb f lo hi n : lo <= hi -> lo <= lfo_value (lfo_ticks sin2pi tpb n (new_lfo f lo hi)) <= hi.
  Proof.
    intros H. unfold lfo_value. destruct n as [|n].
    - cbn [lfo_ticks new_lfo l_value]. apply scale_range; [exact H|lra].
    - rewrite lfo_value_after. apply wave_range. exact H.
  Qed.

  Lemma lfo_periodic tpb f lo hi (p n : nat) : (0 < tpb)%Z -> qnat p * f == inject_Z tpb ->
    lfo_value (lfo_ticks sin2pi tpb (S n + p) (new_lfo f lo hi)) == lfo_value (lfo_ticks sin2pi tpb (S n) (new_lfo f lo hi)).
  Proof.
    intros Ht Hp. unfold lfo_value. change (S n + p)%nat with (S (n + p)). rewrite !lfo_value_after.
    cbn [new_lfo l_freq l_min l_max l_time]. apply wave_period.
    assert (Hq : 0 < inject_Z tpb) by (change 0 with (inject_Z 0); rewrite <- Zlt_Qlt; exact Ht).
    rewrite !qnat_S. unfold qnat. rewrite Nat2Z.inj_add, inject_Z_plus. fold (qnat n) (qnat p).
    assert (E : qnat p * f / inject_Z tpb == 1) by (rewrite Hp; field; lra).
    transitivity ((0 + (qnat n + 1) * (1 / inject_Z tpb)) * f + qnat p * f / inject_Z tpb); [field; lra|].
    rewrite E. reflexivity.
  Qed.
  (* period 1 / frequency beats, for the waveform as a function of time *)
  Lemma wave_period_beats f lo hi t : ~ f == 0 ->
    lfo_wave sin2pi f lo hi (t + 1 / f) == lfo_wave sin2pi f lo hi t.
  Proof. intros Hf. apply wave_period. field. exact Hf. Qed.

  (* the same two facts from any state of the LFO (after reset / a change of its fields), not only a new one *)
  Lemma lfo_range_from tpb l n : l_min l <= l_max l ->
    l_min l <= lfo_value (lfo_ticks sin2pi tpb (S n) l) <= l_max l.
  Proof. intros H. unfold lfo_value. rewrite lfo_value_after. apply wave_range. exact H. Qed.

  Lemma lfo_periodic_from tpb l (p n : nat) : (0 < tpb)%Z -> qnat p * l_freq l == inject_Z tpb ->
    lfo_value (lfo_ticks sin2pi tpb (S n + p) l) == lfo_value (lfo_ticks sin2pi tpb (S n) l).
  Proof.
    intros Ht Hp. unfold lfo_value. change (S n + p)%nat with (S (n + p)). rewrite !lfo_value_after.
    apply wave_period.
    assert (Hq : 0 < inject_Z tpb) by (change 0 with (inject_Z 0); rewrite <- Zlt_Qlt; exact Ht).
    rewrite !qnat_S. unfold qnat. rewrite Nat2Z.inj_add, inject_Z_plus. fold (qnat n) (qnat p).
    assert (E : qnat p * l_freq l / inject_Z tpb == 1) by (rewrite Hp; field; lra).
    transitivity ((l_time l + (qnat n + 1) * (1 / inject_Z tpb)) * l_freq l + qnat p * l_freq l / inject_Z tpb); [field; lra|].
    rewrite E. reflexivity.
  Qed.
End SineFacts.

(* non-vacuity of the hypotheses on sin2pi: any function of the fractional part of x with values in [-1, 1]
   satisfies them, e.g. the table of math.sin values the correspondence check uses, or this square wave *)
Definition frac (x : Q) : Q := x - inject_Z (Qfloor x).
Lemma frac_period x : frac (x + 1) == frac x.
Proof.
  unfold frac. assert (Qfloor (x + 1) = (Qfloor x + 1)%Z).
  { pose proof (Qfloor_le x). pose proof (Qlt_floor x). pose proof (Qfloor_le (x + 1)). pose proof (Qlt_floor (x + 1)).
    rewrite inject_Z_plus in *. change (inject_Z 1) with 1 in *.
    assert (inject_Z (Qfloor (x + 1)) < inject_Z (Qfloor x + 1 + 1)) by (rewrite !inject_Z_plus; change (inject_Z 1) with 1; lra).
    assert (inject_Z (Qfloor x) < inject_Z (Qfloor (x + 1))) by lra.
    rewrite <- Zlt_Qlt in *. lia. }
  rewrite H, inject_Z_plus. change (inject_Z 1) with 1. ring.
Qed.
Lemma frac_proper x y : x == y -> frac x == frac y.
Proof. intros H. unfold frac. rewrite (Qfloor_comp _ _ H), H. reflexivity. Qed.

Definition square (x : Q) : Q := if Qle_bool (frac x) (1 # 2) then 1 else -1.
Lemma square_facts :
  (forall x, -1 <= square x <= 1) /\ (forall x, square (x + 1) == square x) /\ (forall x y, x == y -> square x == square y).
Proof.
  unfold square. repeat split.
  - try intros x; destruct (Qle_bool _ _); lra.
  - try intros x; destruct (Qle_bool _ _); lra.
  - intros x. rewrite (Qleb_comp _ _ (frac_period x) _ _ (Qeq_refl _)). reflexivity.
  - intros x y H. rewrite (Qleb_comp _ _ (frac_proper x y H) _ _ (Qeq_refl _)). reflexivity.
Qed.

(* Auto/LfoProofs.v — lemmas about the LFO model of Auto/Lfo.v.  The sine enters as a Section variable with
   three hypotheses (bounded by 1, period 1, compatible with equality of rationals); nothing is axiomatised. *)
From Isobar Require Import Base.Prelude Auto.Automation Auto.Lfo Auto.AutomationProofs.
From Coq Require Import QArith Qround Qabs Qreduction Lqa.
Local Open Scope Q_scope.
Lemma scale_unit s lo hi : scale_lin_lin s (-1) 1 lo hi == (s + 1) / 2 * (hi - lo) + lo.
Proof. unfold scale_lin_lin. field. Qed.

Lemma scale_range s lo hi : lo <= hi -> -1 <= s <= 1 -> lo <= scale_lin_lin s (-1) 1 lo hi <= hi.
Proof.
  intros H [H1 H2]. rewrite scale_unit.
  assert (A : 0 <= (s + 1) / 2 <= 1) by (split; [apply Qle_shift_div_l|apply Qle_shift_div_r]; lra).
  destruct A. split; nra.
Qed.

Lemma scale_proper s s' lo hi : s == s' -> scale_lin_lin s (-1) 1 lo hi == scale_lin_lin s' (-1) 1 lo hi.
Proof. intros H. unfold scale_lin_lin. rewrite H. reflexivity. Qed.

Section SineFacts.
  Variable sin2pi : Q -> Q.
  Hypothesis sin_range : forall x, -1 <= sin2pi x <= 1.
  Hypothesis sin_period : forall x, sin2pi (x + 1) == sin2pi x.
  Hypothesis sin_proper : forall x y, x == y -> sin2pi x == sin2pi y.

  Lemma wave_range f lo hi t : lo <= hi -> lo <= lfo_wave sin2pi f lo hi t <= hi.
  Proof. intros H. unfold lfo_wave. apply scale_range; [exact H|apply sin_range]. Qed.

  Lemma wave_proper f lo hi t t' : t == t' -> lfo_wave sin2pi f lo hi t == lfo_wave sin2pi f lo hi t'.
  Proof. intros H. unfold lfo_wave. apply scale_proper, sin_proper. rewrite H. reflexivity. Qed.

  Lemma wave_period f lo hi t t' : t' * f == t * f + 1 -> lfo_wave sin2pi f lo hi t' == lfo_wave sin2pi f lo hi t.
  Proof.
    intros H. unfold lfo_wave. apply scale_proper. rewrite (sin_proper _ _ H). apply sin_period.
  Qed.

  Lemma lfo_ticks_snoc tpb n l : lfo_ticks sin2pi tpb (S n) l = lfo_tick sin2pi tpb (lfo_ticks sin2pi tpb n l).
  Proof. revert l; induction n as [|n IH]; intros l; [reflexivity|]. cbn [lfo_ticks] in *. rewrite IH. reflexivity. Qed.

  Lemma lfo_ticks_fields tpb n l :
    let l' := lfo_ticks sin2pi tpb n l in
    l_freq l' = l_freq l /\ l_min l' = l_min l /\ l_max l' = l_max l
    /\ l_time l' == l_time l + qnat n * (1 / inject_Z tpb).
  Proof.
    induction n as [|n IH]; cbv zeta.
    - change (lfo_ticks sin2pi tpb 0 l) with l. repeat split. change (qnat 0) with 0. ring.
    - rewrite lfo_ticks_snoc. destruct IH as [I1 [I2 [I3 I4]]]. unfold lfo_tick. cbn [l_freq l_min l_max l_time].
      repeat split; auto. rewrite Qred_correct, I4, qnat_S. ring.
  Qed.

  (* the value after n >= 1 ticks is the waveform at time t0 + n / tpb *)
  Lemma lfo_value_after tpb n l :
    l_value (lfo_ticks sin2pi tpb (S n) l)
    == lfo_wave sin2pi (l_freq l) (l_min l) (l_max l) (l_time l + qnat (S n) * (1 / inject_Z tpb)).
  Proof.
    rewrite lfo_ticks_snoc. destruct (lfo_ticks_fields tpb n l) as [I1 [I2 [I3 I4]]]. cbv zeta in *.
    unfold lfo_tick. cbn [l_value]. rewrite I1, I2, I3. apply wave_proper.
    rewrite Qred_correct, I4, qnat_S. ring.
  Qed.

  Lemma lfo_range tpb f lo hi n : lo <= hi -> lo <= lfo_value (lfo_ticks sin2pi tpb n (new_lfo f lo hi)) <= hi.
  Proof.
    intros H. unfold lfo_value. destruct n as [|n].
    - cbn [lfo_ticks new_lfo l_value]. apply scale_range; [exact H|lra].
    - rewrite lfo_value_after. apply wave_range. exact H.
  Qed.

  Lemma lfo_periodic tpb f lo hi (p n : nat) : (0 < tpb)%Z -> qnat p * f == inject_Z tpb ->
    lfo_value (lfo_ticks sin2pi tpb (S n + p) (new_lfo f lo hi)) == lfo_value (lfo_ticks sin2pi tpb (S n) (new_lfo f lo hi)).
  Proof.
    intros Ht Hp. unfold lfo_value. change (S n + p)%nat with (S (n + p)). rewrite !lfo_value_after.
    cbn [new_lfo l_freq l_min l_max l_time]. apply wave_period.
    assert (Hq : 0 < inject_Z tpb) by (change 0 with (inject_Z 0); rewrite <- Zlt_Qlt; exact Ht).
    rewrite !qnat_S. unfold qnat. rewrite Nat2Z.inj_add, inject_Z_plus. fold (qnat n) (qnat p).
    assert (E : qnat p * f / inject_Z tpb == 1) by (rewrite Hp; field; lra).
    transitivity ((0 + (qnat n + 1) * (1 / inject_Z tpb)) * f + qnat p * f / inject_Z tpb); [field; lra|].
    rewrite E. reflexivity.
  Qed.
  (* period 1 / frequency beats, for the waveform as a function of time *)
  Lemma wave_period_beats f lo hi t : ~ f == 0 ->
    lfo_wave sin2pi f lo hi (t + 1 / f) == lfo_wave sin2pi f lo hi t.
  Proof. intros Hf. apply wave_period. field. exact Hf. Qed.

  (* the same two facts from any state of the LFO (after reset / a change of its fields), not only a new one *)
  Lemma lfo_range_from tpb l n : l_min l <= l_max l ->
    l_min l <= lfo_value (lfo_ticks sin2pi tpb (S n) l) <= l_max l.
  Proof. intros H. unfold lfo_value. rewrite lfo_value_after. apply wave_range. exact H. Qed.

  Lemma lfo_periodic_from tpb l (p n : nat) : (0 < tpb)%Z -> qnat p * l_freq l == inject_Z tpb ->
    lfo_value (lfo_ticks sin2pi tpb (S n + p) l) == lfo_value (lfo_ticks sin2pi tpb (S n) l).
  Proof.
    intros Ht Hp. unfold lfo_value. change (S n + p)%nat with (S (n + p)). rewrite !lfo_value_after.
    apply wave_period.
    assert (Hq : 0 < inject_Z tpb) by (change 0 with (inject_Z 0); rewrite <- Zlt_Qlt; exact Ht).
    rewrite !qnat_S. unfold qnat. rewrite Nat2Z.inj_add, inject_Z_plus. fold (qnat n) (qnat p).
    assert (E : qnat p * l_freq l / inject_Z tpb == 1) by (rewrite Hp; field; lra).
    transitivity ((l_time l + (qnat n + 1) * (1 / inject_Z tpb)) * l_freq l + qnat p * l_freq l / inject_Z tpb); [field; lra|].
    rewrite E. reflexivity.
  Qed.
End SineFacts.

(* non-vacuity of the hypotheses on sin2pi: any function of the fractional part of x with values in [-1, 1]
   satisfies them, e.g. the table of math.sin values the correspondence check uses, or this square wave *)
Definition frac (x : Q) : Q := x - inject_Z (Qfloor x).
Lemma frac_period x : frac (x + 1) == frac x.
Proof.
  unfold frac. assert (Qfloor (x + 1) = (Qfloor x + 1)%Z).
  { pose proof (Qfloor_le x). pose proof (Qlt_floor x). pose proof (Qfloor_le (x + 1)). pose proof (Qlt_floor (x + 1)).
    rewrite inject_Z_plus in *. change (inject_Z 1) with 1 in *.
    assert (inject_Z (Qfloor (x + 1)) < inject_Z (Qfloor x + 1 + 1)) by (rewrite !inject_Z_plus; change (inject_Z 1) with 1; lra).
    assert (inject_Z (Qfloor x) < inject_Z (Qfloor (x + 1))) by lra.
    rewrite <- Zlt_Qlt in *. lia. }
  rewrite H, inject_Z_plus. change (inject_Z 1) with 1. ring.
Qed.
Lemma frac_proper x y : x == y -> frac x == frac y.
Proof. intros H. unfold frac. rewrite (Qfloor_comp _ _ H), H. reflexivity. Qed.

Definition square (x : Q) : Q := if Qle_bool (frac x) (1 # 2) then 1 else -1.
Lemma square_facts :
  (forall x, -1 <= square x <= 1) /\ (forall x, square (x + 1) == square x) /\ (forall x y, x == y -> square x == square y).
Proof.
  unfold square. repeat split.
  - try intros x; destruct (Qle_bool _ _); lra.
  - try intros x; destruct (Qle_bool _ _); lra.
  - intros x. rewrite (Qleb_comp _ _ (frac_period x) _ _ (Qeq_refl _)). reflexivity.
  - intros x y H. rewrite (Qleb_comp _ _ (frac_proper x y H) _ _ (Qeq_refl _)). reflexivity.
Qed.

(** * Re-configuration after construction (FIX-C18): attribute assignment, LFO.update, Timeline.lfo(name=existing),
   LFO.reset, at any point of a history of ticks *)
Lemma key_eqb_eq a b : key_eqb a b = true <-> a = b.
Proof. destruct a, b; split; intro H; try reflexivity; discriminate H. Qed.

Lemma setattr_keeps k x l : l_value (lfo_setattr k x l) = l_value l /\ l_time (lfo_setattr k x l) = l_time l.
Proof. destruct k; split; reflexivity. Qed.

Lemma update_keeps ps l : l_value (lfo_update ps l) = l_value l /\ l_time (lfo_update ps l) = l_time l.
Proof.
  revert l; induction ps as [|[k x] r IH]; intros l; [split; reflexivity|]. cbn [lfo_update].
  destruct (IH (lfo_setattr k x l)) as [A B]. destruct (setattr_keeps k x l) as [C D].
  rewrite A, B, C, D. split; reflexivity.
Qed.

Lemma setattr_get k k' x l : lfo_get k (lfo_setattr k' x l) = if key_eqb k k' then x else lfo_get k l.
Proof. destruct k, k'; reflexivity. Qed.

Lemma update_get_notin k ps l : lookup_key k ps = None -> lfo_get k (lfo_update ps l) = lfo_get k l.
Proof.
  revert l; induction ps as [|[k' x] r IH]; intros l H; [reflexivity|]. cbn [lfo_update lookup_key] in *.
  destruct (key_eqb k k') eqn:E; [discriminate H|]. rewrite (IH _ H), setattr_get, E. reflexivity.
Qed.

Lemma lookup_notin k ps : ~ In k (map fst ps) -> lookup_key k ps = None.
Proof.
  induction ps as [|[k' x] r IH]; intros H; [reflexivity|]. cbn [lookup_key map fst In] in *.
  destruct (key_eqb k k') eqn:E.
  - apply key_eqb_eq in E. subst k'. exfalso. apply H. left. reflexivity.
  - apply IH. intros HI. apply H. right. exact HI.
Qed.

(* a dict has each key once: the field named in the update gets the given value *)
Lemma update_get_in k x ps l : NoDup (map fst ps) -> lookup_key k ps = Some x -> lfo_get k (lfo_update ps l) = x.
Proof.
  revert l; induction ps as [|[k' x'] r IH]; intros l ND H; [discriminate H|]. cbn [lfo_update lookup_key map fst] in *.
  inversion ND as [|? ? NI ND']; subst. destruct (key_eqb k k') eqn:E.
  - injection H as ->. apply key_eqb_eq in E. subst k'.
    rewrite (update_get_notin k r _ (lookup_notin k r NI)), setattr_get.
    assert (R : key_eqb k k = true) by (apply key_eqb_eq; reflexivity). rewrite R. reflexivity.
  - apply IH; assumption.
Qed.

Lemma tl_update_at_length i ps ls : List.length (tl_update_at i ps ls) = List.length ls.
Proof.
  revert i; induction ls as [|[n l] r IH]; intros i; [destruct i; reflexivity|].
  destruct i; cbn [tl_update_at List.length]; [reflexivity|]. rewrite IH. reflexivity.
Qed.

Lemma tl_update_at_other i ps ls j : j <> i -> nth_error (tl_update_at i ps ls) j = nth_error ls j.
Proof.
  revert i j; induction ls as [|[n l] r IH]; intros i j H; [destruct i; reflexivity|].
  destruct i, j; cbn [tl_update_at nth_error]; try reflexivity; [congruence|]. apply IH. congruence.
Qed.

Lemma tl_update_at_same i ps ls n l : nth_error ls i = Some (n, l) ->
  nth_error (tl_update_at i ps ls) i = Some (n, lfo_update ps l).
Proof.
  revert i; induction ls as [|[n' l'] r IH]; intros i H; [destruct i; discriminate H|].
  destruct i; cbn [tl_update_at nth_error] in *; [injection H as -> ->; reflexivity|]. apply IH. exact H.
Qed.

Lemma tl_find_named name ls k i : tl_find name ls k = Some i ->
  (k <= i)%nat /\ exists l, nth_error ls (i - k) = Some (Some name, l).
Proof.
  revert k; induction ls as [|[[n|] l] r IH]; intros k H; cbn [tl_find] in H; [discriminate H| |].
  - destruct (n =? name)%Z eqn:E.
    + injection H as <-. split; [lia|]. rewrite Nat.sub_diag. exists l. apply Z.eqb_eq in E. subst. reflexivity.
    + destruct (IH _ H) as [A [l0 B]]. split; [lia|]. exists l0.
      replace (i - k)%nat with (S (i - S k)) by lia. exact B.
  - destruct (IH _ H) as [A [l0 B]]. split; [lia|]. exists l0.
    replace (i - k)%nat with (S (i - S k)) by lia. exact B.
Qed.

Section ScriptFacts.
  Variable sin2pi : Q -> Q.
  Hypothesis sin_range : forall x, -1 <= sin2pi x <= 1.
  Hypothesis sin_period : forall x, sin2pi (x + 1) == sin2pi x.
  Hypothesis sin_proper : forall x y, x == y -> sin2pi x == sin2pi y.

  Lemma lfo_run_app tpb a b l : lfo_run sin2pi tpb (a ++ b) l = lfo_run sin2pi tpb b (lfo_run sin2pi tpb a l).
  Proof. revert l; induction a as [|o r IH]; intros l; [reflexivity|]. cbn [app lfo_run]. apply IH. Qed.

  Lemma lfo_run_ticks tpb n l : lfo_run sin2pi tpb (repeat LTick n) l = lfo_ticks sin2pi tpb n l.
  Proof. revert l; induction n as [|n IH]; intros l; [reflexivity|]. cbn [repeat lfo_run lfo_step lfo_ticks]. apply IH. Qed.

  (* a tick reads the configuration as it is at that moment and leaves it alone *)
  Lemma lfo_tick_reads tpb l : let l' := lfo_tick sin2pi tpb l in
    l_freq l' = l_freq l /\ l_min l' = l_min l /\ l_max l' = l_max l
    /\ l_value l' = lfo_wave sin2pi (l_freq l) (l_min l) (l_max l) (l_time l').
  Proof. cbv zeta. unfold lfo_tick. cbn [l_freq l_min l_max l_value l_time]. repeat split. Qed.

  (* whatever happened before - ticks, updates, resets, in any order - the value after a tick lies within the
     bounds the LFO has at that tick *)
  Lemma lfo_range_after_history tpb ops l : let l' := lfo_run sin2pi tpb (ops ++ [LTick]) l in
    l_min l' <= l_max l' -> l_min l' <= lfo_value l' <= l_max l'.
  Proof.
    cbv zeta. rewrite lfo_run_app. cbn [lfo_run lfo_step]. set (m := lfo_run sin2pi tpb ops l).
    destruct (lfo_tick_reads tpb m) as [_ [A [B C]]]. cbv zeta in *. unfold lfo_value. rewrite A, B, C.
    intros H. apply (wave_range sin2pi sin_range). exact H.
  Qed.

  Lemma lfo_script_range tpb ops l :
    Forall (fun e => fst (fst e) = true -> fst (snd e) <= snd (snd e) -> fst (snd e) <= snd (fst e) <= snd (snd e))
           (lfo_script_trace sin2pi tpb ops l).
  Proof.
    revert l; induction ops as [|o r IH]; intros l; cbn [lfo_script_trace]; constructor; [|apply IH].
    cbn [fst snd]. intros Ht H. destruct o; try discriminate Ht. cbn [lfo_step] in *.
    destruct (lfo_tick_reads tpb l) as [_ [A [B C]]]. cbv zeta in *. rewrite A, B, C in *.
    apply (wave_range sin2pi sin_range). exact H.
  Qed.

  (* current_time is the number of ticks since the start (or since the last reset): re-configuration does not
     move the phase clock *)
  Lemma lfo_run_time tpb ops l : forallb (fun o => negb (is_lreset o)) ops = true ->
    l_time (lfo_run sin2pi tpb ops l) == l_time l + qnat (List.length (filter is_ltick ops)) * (1 / inject_Z tpb).
  Proof.
    revert l; induction ops as [|o r IH]; intros l H.
    - cbn. change (qnat 0) with 0. ring.
    - cbn [forallb] in H. apply andb_true_iff in H. destruct H as [Ho Hr]. cbn [lfo_run]. rewrite (IH _ Hr).
      destruct o; cbn [filter is_ltick lfo_step List.length]; try discriminate Ho.
      + unfold lfo_tick. cbn [l_time]. rewrite Qred_correct, qnat_S. ring.
      + destruct (update_keeps props l) as [_ B]. rewrite B. reflexivity.
  Qed.
End ScriptFacts.

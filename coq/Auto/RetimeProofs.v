(* Auto/RetimeProofs.v — lemmas about histories in which the timeline's resolution changes (Auto/Retime.v):
   the LFO's phase clock counts beats (the sum of the tick lengths in force), its value is the waveform at that
   beat position whatever resolutions the history went through, so it stays in range and repeats every
   1 / frequency beats across a change; an automation keeps the bindings it was given, a move under way arrives on
   the tick fixed at its call, a move made after the change lasts ceil(duration / the NEW tick) ticks. *)
From Isobar Require Import Base.Prelude Auto.Automation Auto.Lfo Auto.AutomationProofs Auto.LfoProofs Auto.Retime.
From Coq Require Import QArith Qround Qabs Qreduction Lqa.
Local Open Scope Q_scope.

(** * LFO *)
Lemma rl_beats_app tpb a b : rl_beats tpb (a ++ b) == rl_beats tpb a + rl_beats (rl_tpb tpb a) b.
Proof.
  revert tpb; induction a as [|o r IH]; intros tpb; cbn [app rl_beats rl_tpb]; [ring|].
  destruct o as [[|ps|]|n]; cbn [rl_beats rl_tpb]; rewrite IH; ring.
Qed.

Lemma rl_tpb_app tpb a b : rl_tpb tpb (a ++ b) = rl_tpb (rl_tpb tpb a) b.
Proof. revert tpb; induction a as [|o r IH]; intros tpb; [reflexivity|]. destruct o as [[|ps|]|n]; cbn [app rl_tpb]; apply IH. Qed.

Lemma rl_tpb_plain_ticks tpb n : rl_tpb tpb (repeat (RL LTick) n) = tpb.
Proof. induction n as [|n IH]; [reflexivity|exact IH]. Qed.

Lemma rl_beats_ticks tpb n : rl_beats tpb (repeat (RL LTick) n) == qnat n * (1 / inject_Z tpb).
Proof.
  induction n as [|n IH]; [cbn; change (qnat 0) with 0; ring|]. cbn [repeat rl_beats]. rewrite IH, qnat_S. ring.
Qed.

Section RetimeFacts.
  Variable sin2pi : Q -> Q.
  Hypothesis sin_range : forall x, -1 <= sin2pi x <= 1.
  Hypothesis sin_period : forall x, sin2pi (x + 1) == sin2pi x.
  Hypothesis sin_proper : forall x y, x == y -> sin2pi x == sin2pi y.

  Lemma rl_run_app st a b : rl_run sin2pi st (a ++ b) = rl_run sin2pi (rl_run sin2pi st a) b.
  Proof. revert st; induction a as [|o r IH]; intros st; [reflexivity|]. cbn [app rl_run]. apply IH. Qed.

  Lemma rl_run_tpb st ops : fst (rl_run sin2pi st ops) = rl_tpb (fst st) ops.
  Proof.
    revert st; induction ops as [|o r IH]; intros st; [reflexivity|]. cbn [rl_run]. rewrite IH.
    destruct o as [[|ps|]|n]; reflexivity.
  Qed.

  (* a history at one resolution is a history of Auto/Lfo.v *)
  Lemma rl_run_const tpb ops l : rl_run sin2pi (tpb, l) (map RL ops) = (tpb, lfo_run sin2pi tpb ops l).
  Proof. revert l; induction ops as [|o r IH]; intros l; [reflexivity|]. cbn [map rl_run rl_step fst snd lfo_run]. apply IH. Qed.

  Lemma rl_run_ticks tpb n l : rl_run sin2pi (tpb, l) (repeat (RL LTick) n) = (tpb, lfo_ticks sin2pi tpb n l).
  Proof.
    replace (repeat (RL LTick) n) with (map RL (repeat LTick n)) by (induction n as [|n IH]; [reflexivity|cbn; rewrite IH; reflexivity]).
    rewrite rl_run_const, lfo_run_ticks. reflexivity.
  Qed.

  (* the phase clock counts beats: every tick adds the tick length in force at that tick *)
  Lemma rl_run_time st ops : forallb rl_noreset ops = true ->
    l_time (snd (rl_run sin2pi st ops)) == l_time (snd st) + rl_beats (fst st) ops.
  Proof.
    revert st; induction ops as [|o r IH]; intros st H.
    - cbn. ring.
    - cbn [forallb] in H. apply andb_true_iff in H. destruct H as [Ho Hr]. cbn [rl_run]. rewrite (IH _ Hr).
      destruct o as [[|ps|]|n]; cbn [rl_step rl_beats fst snd lfo_step]; try discriminate Ho.
      + unfold lfo_tick. cbn [l_time]. rewrite Qred_correct. ring.
      + destruct (update_keeps ps (snd st)) as [_ B]. rewrite B. reflexivity.
      + reflexivity.
  Qed.

  (* ticks and resolution changes leave frequency and bounds alone *)
  Lemma rl_run_plain_fields st ops : forallb rl_plain ops = true ->
    let l' := snd (rl_run sin2pi st ops) in
    l_freq l' = l_freq (snd st) /\ l_min l' = l_min (snd st) /\ l_max l' = l_max (snd st).
  Proof.
    cbv zeta. revert st; induction ops as [|o r IH]; intros st H; [repeat split|].
    cbn [forallb] in H. apply andb_true_iff in H. destruct H as [Ho Hr]. cbn [rl_run].
    destruct (IH (rl_step sin2pi st o) Hr) as [A [B C]]. rewrite A, B, C.
    destruct o as [[|ps|]|n]; try discriminate Ho; cbn [rl_step snd lfo_step]; repeat split.
  Qed.

  Lemma rl_plain_noreset ops : forallb rl_plain ops = true -> forallb rl_noreset ops = true.
  Proof.
    induction ops as [|o r IH]; [reflexivity|]. cbn [forallb]. intros H. apply andb_true_iff in H. destruct H as [Ho Hr].
    rewrite (IH Hr). destruct o as [[|ps|]|n]; try discriminate Ho; reflexivity.
  Qed.

  (* a tick, at whatever resolution, yields the waveform of the configuration in force at the new clock reading *)
  Lemma rl_tick_value st : let st' := rl_step sin2pi st (RL LTick) in
    l_freq (snd st') = l_freq (snd st) /\ l_min (snd st') = l_min (snd st) /\ l_max (snd st') = l_max (snd st)
    /\ l_value (snd st') = lfo_wave sin2pi (l_freq (snd st')) (l_min (snd st')) (l_max (snd st')) (l_time (snd st')).
  Proof. cbv zeta. cbn [rl_step snd lfo_step]. unfold lfo_tick. cbn [l_freq l_min l_max l_value l_time]. repeat split. Qed.

  (* in range after every tick of every history *)
  Lemma rl_trace_range st ops :
    Forall (fun e => fst (fst e) = true -> fst (snd e) <= snd (snd e) -> fst (snd e) <= snd (fst e) <= snd (snd e))
           (rl_trace sin2pi st ops).
  Proof.
    revert st; induction ops as [|o r IH]; intros st; cbn [rl_trace]; constructor; [|apply IH].
    cbn [fst snd]. intros Ht H. destruct o as [[|ps|]|n]; try discriminate Ht.
    destruct (rl_tick_value st) as [_ [_ [_ D]]]. cbv zeta in D. rewrite D. apply (wave_range sin2pi sin_range). exact H.
  Qed.

  Lemma rl_range_after_history st ops : let l' := snd (rl_run sin2pi st (ops ++ [RL LTick])) in
    l_min l' <= l_max l' -> l_min l' <= lfo_value l' <= l_max l'.
  Proof.
    cbv zeta. rewrite rl_run_app. cbn [rl_run]. set (m := rl_run sin2pi st ops).
    destruct (rl_tick_value m) as [_ [_ [_ D]]]. cbv zeta in D. unfold lfo_value. rewrite D.
    intros H. apply (wave_range sin2pi sin_range). exact H.
  Qed.

  (* the value after a history that ends in a tick is the waveform at the beat position of that tick *)
  Lemma rl_value_at_beats st ops : forallb rl_noreset ops = true ->
    let l' := snd (rl_run sin2pi st (ops ++ [RL LTick])) in
    l_value l' == lfo_wave sin2pi (l_freq l') (l_min l') (l_max l') (l_time (snd st) + rl_beats (fst st) (ops ++ [RL LTick])).
  Proof.
    intros H. cbv zeta.
    assert (H' : forallb rl_noreset (ops ++ [RL LTick]) = true) by (rewrite forallb_app, H; reflexivity).
    pose proof (rl_run_time st _ H') as T. revert T. rewrite rl_run_app. cbn [rl_run]. set (m := rl_run sin2pi st ops).
    intros T. destruct (rl_tick_value m) as [_ [_ [_ D]]]. cbv zeta in D. rewrite D.
    apply (wave_proper sin2pi sin_proper). exact T.
  Qed.

  Lemma sin_period_nat x k : sin2pi (x + qnat k) == sin2pi x.
  Proof.
    induction k as [|k IH].
    - apply sin_proper. change (qnat 0) with 0. ring.
    - rewrite <- IH. rewrite <- (sin_period (x + qnat k)). apply sin_proper. rewrite qnat_S. ring.
  Qed.

  Lemma wave_period_nat f lo hi t t' k : t' * f == t * f + qnat k ->
    lfo_wave sin2pi f lo hi t' == lfo_wave sin2pi f lo hi t.
  Proof. intros H. unfold lfo_wave. apply scale_proper. rewrite (sin_proper _ _ H). apply sin_period_nat. Qed.

  (* period 1 / frequency BEATS across resolution changes: two ticks whose beat positions are k / frequency apart
     (k whole periods), with only ticks and resolution changes in between, show the same value *)
  Lemma rl_periodic_beats st ops1 ops2 k :
    forallb rl_plain ops2 = true ->
    let st1 := rl_run sin2pi st (ops1 ++ [RL LTick]) in
    let st2 := rl_run sin2pi st1 (ops2 ++ [RL LTick]) in
    rl_beats (fst st1) (ops2 ++ [RL LTick]) * l_freq (snd st1) == qnat k ->
    l_value (snd st2) == l_value (snd st1).
  Proof.
    intros Hp. cbv zeta. set (st1 := rl_run sin2pi st (ops1 ++ [RL LTick])). intros Hk.
    assert (Hp' : forallb rl_plain (ops2 ++ [RL LTick]) = true) by (rewrite forallb_app, Hp; reflexivity).
    destruct (rl_run_plain_fields st1 _ Hp') as [F1 [F2 F3]]. cbv zeta in *.
    pose proof (rl_value_at_beats st1 ops2 (rl_plain_noreset _ Hp)) as V2. cbv zeta in V2.
    rewrite V2, F1, F2, F3.
    assert (V1 : l_value (snd st1) = lfo_wave sin2pi (l_freq (snd st1)) (l_min (snd st1)) (l_max (snd st1)) (l_time (snd st1))).
    { unfold st1. rewrite rl_run_app. cbn [rl_run]. destruct (rl_tick_value (rl_run sin2pi st ops1)) as [_ [_ [_ D]]]. exact D. }
    rewrite V1. apply (wave_period_nat _ _ _ _ _ k). rewrite <- Hk. ring.
  Qed.

  (* the segment after a change, from any state the first segment may have left: ticking at the new resolution *)
  Lemma rl_segment_after st ops tpb2 n :
    rl_run sin2pi st (ops ++ RLTpb tpb2 :: repeat (RL LTick) n)
    = (tpb2, lfo_ticks sin2pi tpb2 n (snd (rl_run sin2pi st ops))).
  Proof. rewrite rl_run_app. cbn [rl_run rl_step snd]. apply rl_run_ticks. Qed.
End RetimeFacts.

(** * Automation *)
(* reachable through the API at ANY sequence of resolutions *)
Inductive reachable_rt : automation -> Prop :=
| reach_rt_new range b initial default : reachable_rt (new_automation range b initial default)
| reach_rt_step tpb a o a' calls : reachable_rt a -> step tpb a o = Some (a', calls) -> reachable_rt a'.

Lemma reachable_rt_wf a : reachable_rt a -> wf_auto a.
Proof. induction 1; [apply wf_new|eapply wf_step; eassumption]. Qed.

Lemma reachable_to_rt tpb a : reachable tpb a -> reachable_rt a.
Proof. induction 1; [apply reach_rt_new|eapply reach_rt_step; eassumption]. Qed.

Lemma ra_step_reachable st o st' c : reachable_rt (snd st) -> ra_step st o = Some (st', c) -> reachable_rt (snd st').
Proof.
  intros R. destruct o as [o|n]; cbn [ra_step].
  - destruct (step (fst st) (snd st) o) as [[a' c']|] eqn:E; [|discriminate]. cbn [option_map fst snd].
    intros H. apply some_inj in H. inversion H; subst. cbn [snd]. eapply reach_rt_step; eassumption.
  - intros H. apply some_inj in H. inversion H; subst. exact R.
Qed.

Lemma ra_run_reachable st ops st' tr : reachable_rt (snd st) -> ra_run st ops = Some (st', tr) -> reachable_rt (snd st').
Proof.
  revert st tr; induction ops as [|o r IH]; intros st tr R H; cbn [ra_run] in H.
  - apply some_inj in H. inversion H; subst. exact R.
  - destruct (ra_step st o) as [[st1 c]|] eqn:E; [|discriminate].
    destruct (ra_run st1 r) as [[st2 tr2]|] eqn:E2; [|discriminate]. cbn [option_map fst snd] in H.
    apply some_inj in H. inversion H; subst. eapply IH; [eapply ra_step_reachable; eassumption|exact E2].
Qed.

Lemma ra_run_app st a b : ra_run st (a ++ b) =
  match ra_run st a with
  | None => None
  | Some (st1, tr1) => option_map (fun x : (Z * automation) * list (list call) => (fst x, tr1 ++ snd x)) (ra_run st1 b)
  end.
Proof.
  revert st; induction a as [|o r IH]; intros st; cbn [app ra_run].
  - destruct (ra_run st b) as [[s t]|]; reflexivity.
  - destruct (ra_step st o) as [[st1 c]|]; [|reflexivity]. rewrite IH.
    destruct (ra_run st1 r) as [[st2 tr2]|]; [|reflexivity]. cbn [option_map fst snd].
    destruct (ra_run st2 b) as [[s t]|]; reflexivity.
Qed.

(* while nobody calls the automation, resolution changes are invisible to it: k ticks are k ticks *)
Lemma ra_run_idle st ops : forallb ra_idle ops = true ->
  exists tpb' tr, ra_run st ops = Some ((tpb', run_ticks (ra_ticks ops) (snd st)), tr) /\ List.length tr = List.length ops.
Proof.
  revert st; induction ops as [|o r IH]; intros st H.
  - exists (fst st), []. destruct st; split; reflexivity.
  - cbn [forallb] in H. apply andb_true_iff in H. destruct H as [Ho Hr].
    destruct o as [[| | | | | | |]|n]; try discriminate Ho; cbn [ra_run ra_step step option_map fst snd].
    + destruct (IH (fst st, fst (tick (snd st))) Hr) as [tpb' [tr [E L]]]. rewrite E. cbn [option_map fst snd].
      exists tpb', (snd (tick (snd st)) :: tr). split; [|cbn [List.length]; rewrite L; reflexivity].
      unfold ra_ticks. cbn [filter ra_is_tick List.length]. rewrite run_ticks_S. reflexivity.
    + destruct (IH (n, snd st) Hr) as [tpb' [tr [E L]]]. rewrite E. cbn [option_map fst snd].
      exists tpb', ([] :: tr). split; [reflexivity|cbn [List.length]; rewrite L; reflexivity].
Qed.

(* the bindings of an automation are those it had plus those made since, in order: no operation removes or
   skips one *)
Lemma step_binds tpb a o a' c : step tpb a o = Some (a', c) ->
  a_binds a' = a_binds a ++ match o with OBind b => [b] | _ => [] end.
Proof.
  destruct o as [|v d e|v d e|v|b|r|b|dd]; cbn [step]; intros H.
  - apply some_inj in H. destruct (tick_fields a) as [_ [_ [B _]]]. cbv zeta in B. rewrite H in B. cbn [fst] in B.
    rewrite B, app_nil_r. reflexivity.
  - destruct (move_to tpb a v d e) as [a1|] eqn:E; [|discriminate]. cbn [option_map] in H. apply some_inj in H.
    inversion H; subst. destruct (move_to_spec _ _ _ _ _ _ E) as [_ [_ [_ [_ [B _]]]]]. rewrite B, app_nil_r. reflexivity.
  - destruct (move_by tpb a v d e) as [a1|] eqn:E; [|discriminate]. cbn [option_map] in H. apply some_inj in H.
    inversion H; subst. revert E. unfold move_by. cbv zeta.
    destruct (_ <? 0)%Z; [discriminate|]. destruct (_ <? _)%Z; [discriminate|].
    intros E. apply some_inj in E. subst a'. cbn [set_mods a_binds]. rewrite app_nil_r. reflexivity.
  - apply some_inj in H. inversion H; subst. cbn. rewrite app_nil_r. reflexivity.
  - apply some_inj in H. inversion H; subst. reflexivity.
  - apply some_inj in H. inversion H; subst. cbn. rewrite app_nil_r. reflexivity.
  - apply some_inj in H. inversion H; subst. cbn. rewrite app_nil_r. reflexivity.
  - apply some_inj in H. inversion H; subst. cbn. rewrite app_nil_r. reflexivity.
Qed.

Lemma ra_run_binds st ops st' tr : ra_run st ops = Some (st', tr) ->
  a_binds (snd st') = a_binds (snd st) ++ ra_binds ops.
Proof.
  revert st tr; induction ops as [|o r IH]; intros st tr H; cbn [ra_run] in H.
  - apply some_inj in H. inversion H; subst. cbn [ra_binds]. rewrite app_nil_r. reflexivity.
  - destruct (ra_step st o) as [[st1 c]|] eqn:E; [|discriminate].
    destruct (ra_run st1 r) as [[st2 tr2]|] eqn:E2; [|discriminate]. cbn [option_map fst snd] in H.
    apply some_inj in H. inversion H; subst. rewrite (IH _ _ E2).
    destruct o as [o|n]; cbn [ra_step] in E.
    + destruct (step (fst st) (snd st) o) as [[a1 c1]|] eqn:E1; [|discriminate]. cbn [option_map fst snd] in E.
      apply some_inj in E. inversion E; subst. cbn [snd]. rewrite (step_binds _ _ _ _ _ E1), <- app_assoc.
      destruct o; reflexivity.
    + apply some_inj in E. inversion E; subst. reflexivity.
Qed.

(* move_by on a well-formed automation (every state reachable at any sequence of resolutions is): the statement
   of C18_arrival_move_by with the resolution in force at the call *)
Lemma arrival_move_by_wf tpb a v d e a' : wf_auto a -> move_by tpb a v d e = Some a' ->
  let n := Z.to_nat (Z.max (duration_ticks tpb (match d with Some x => x | None => a_default a end)) 1) in
  a_cv a' = a_cv a
  /\ (forall k, (Nat.max (ticks_left a) n <= k)%nat ->
        a_cv (run_ticks k a') == settled_value a + v /\ a_mods (run_ticks k a') = [])
  /\ (a_mods a = [] ->
        (forall k, (n <= k)%nat -> a_cv (run_ticks k a') == a_cv a + v)
        /\ (0 <= v -> forall k, a_cv (run_ticks k a') <= a_cv (run_ticks (S k) a') <= a_cv a + v)
        /\ (v <= 0 -> forall k, a_cv a + v <= a_cv (run_ticks (S k) a') <= a_cv (run_ticks k a'))).
Proof.
  intros Hw H.
  destruct (move_by_spec _ _ _ _ _ _ Hw H) as [_ [S1 [_ [_ [_ [Sw [Ss [St [Su Sd]]]]]]]]].
  cbv zeta in *. fold (move_ticks (duration_ticks tpb match d with Some x => x | None => a_default a end)) in *.
  split; [exact S1|]. split.
  - intros k Hk. destruct (arrived k a' Sw ltac:(lia)) as [A B]. split; [rewrite A; exact Ss|exact B].
  - intros Hi.
    assert (Hs : settled_value a == a_cv a) by (unfold settled_value; rewrite Hi; unfold pending_all; cbn; ring).
    assert (Hl : ticks_left a = 0%nat) by (unfold ticks_left; rewrite Hi; reflexivity).
    assert (Hu : all_up a) by (unfold all_up; rewrite Hi; constructor).
    assert (Hd : all_down a) by (unfold all_down; rewrite Hi; constructor).
    rewrite Hs in Ss. split; [|split].
    + intros k Hk. destruct (arrived k a' Sw ltac:(lia)) as [A _]. rewrite A. exact Ss.
    + intros Hv k. split; [apply monotone_up; auto|]. rewrite <- Ss. apply below_settled; auto.
    + intros Hv k. split; [|apply monotone_down; auto]. rewrite <- Ss. apply above_settled; auto.
Qed.

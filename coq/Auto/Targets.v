(* Auto/Targets.v — the objects an automation is bound to (FIX-C18, second round).

   Automation.bind_to(object, property_name, mode, **kwargs) builds Binding(object, property_name, mode, kwargs)
   and appends it to self.bindings UNCONDITIONALLY; then it pushes the current value to that one binding.
   It never asks whether an "equal" binding is already there.  Binding is a dataclass, so comparing two bindings
   would compare the bound OBJECTS with ==: two distinct voices that are dataclass instances with equal fields, or
   instances of a class that defines __eq__, are equal but not identical.  The property speaks about every bound
   attribute or method, i.e. about objects by identity.

   A target carries its identity [tg_id] (what receives the calls) and [tg_key], which stands for everything
   Python's == would look at when the object is compared with another target at bind time (two targets with the
   same key are equal-but-not-identical objects), and the mode it is bound in.  [bind_target] mirrors the code: it
   does not look at the key.  No proofs in this file. *)
From Isobar Require Import Base.Prelude Auto.Automation Auto.Retime.
From Coq Require Import QArith.
Local Open Scope Q_scope.

Record target := mkTarget {
  tg_id : Z;            (* identity of the object (and attribute / method name) *)
  tg_key : Z;           (* what == compares: equal keys = objects that compare equal *)
  tg_method : bool }.   (* bound in "method" mode (called with value=..., **kwargs) or "attr" mode (setattr) *)

Definition bind_target (a : automation) (t : target) : automation * list call := bind_to a (tg_id t).

(* binding a list of targets one after the other, as history operations *)
Definition bind_ops (ts : list target) : list ra_op := map (fun t => RA (OBind (tg_id t))) ts.

(* how many of the calls went to the object [i] *)
Definition calls_to (i : Z) (cs : list call) : nat := List.length (filter (fun c : call => (fst c =? i)%Z) cs).
Definition bound_times (i : Z) (bs : list Z) : nat := List.length (filter (fun b => (b =? i)%Z) bs).

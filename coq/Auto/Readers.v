(* Auto/Readers.v — an LFO that is READ THROUGH PATTERNS while it keeps running (FIX-C18, third round).

   PLFO(lfo) (isobar/pattern/core.py) keeps the LFO in its attribute [lfo]; __next__ returns self.lfo.value.  A PLFO
   sits inside expressions (PAdd / PSub / PMul), PConcatenate, PReset, PPingPong, finite wrappers, the event stream
   of a track.  Pattern-level operations on such a tree are
       next(p)                 the class's __next__,
       p.reset()               Pattern.reset: walks vars(self) and resets every attribute that IS A Pattern, the
                               Pattern items of list attributes and the Pattern values of dict attributes; every
                               other attribute — scalars, and the LFO object a PLFO holds — is left alone; the
                               subclasses then re-establish their own fields,
       p.all(maximum)          next() until StopIteration (at most maximum times), then p.reset(),
       len(p)                  len(p.all()),
       Track.reset()           (timeline.schedule(<Track>), timeline.reset()): reset() on every value of the event stream.

   To make "a pattern operation writes to the LFO" EXPRESSIBLE, every operation here threads the LFO through
   (a state monad over [lfo]): each definition transcribes what the code does with the objects it reaches, and the
   place where the LFO object itself is met ([RdLfo], command [CReset]) says what the code does with it: nothing.
   That no operation changes the LFO is then a theorem (Auto/ReadersProofs.v), not a matter of types.

   Recursion is on explicit fuel ([RFuel] = out of fuel, a distinct result).  No proofs in this file. *)
From Isobar Require Import Base.Prelude Auto.Automation Auto.Lfo.
From Coq Require Import QArith Qreduction.
Local Open Scope Q_scope.

Inductive binop := BAdd | BSub | BMul.
Definition binop_apply (o : binop) (x y : Q) : Q :=
  match o with BAdd => Qred (x + y) | BSub => Qred (x - y) | BMul => Qred (x * y) end.

(** the pattern objects, each with its instance attributes *)
Inductive reader :=
| RdLfo                                         (* PLFO: vars = {lfo: <the LFO object, not a Pattern>} *)
| RdConst (c : Q)                               (* PConstant *)
| RdBin (o : binop) (a b : reader)              (* PAdd / PSub / PMul: vars = {a, b} *)
| RdSeq (vs : list Q) (inf : bool) (pos : nat)  (* PSequence(vs, repeats = 1 or sys.maxsize): pos = len(vs) stands for rcount = 1 *)
| RdConcat (items : list reader) (pos : nat)    (* PConcatenate: vars = {inputs: [patterns], pos} *)
| RdReset (r trig : reader)                     (* PReset: vars = {pattern, trigger} *)
| RdPingPong (r : reader) (count : Z) (values : list Q) (pos dir rpos : Z).   (* PPingPong *)

Inductive cmd := CNext | CReset | CAll (maximum : nat).

Inductive res :=
| RVal (q : Q)            (* next() returned q *)
| RStop                   (* StopIteration *)
| RUnit                   (* reset() returned *)
| RList (vs : list Q)     (* all() returned vs *)
| RErr                    (* another exception (IndexError on an empty PConcatenate) *)
| RFuel.                  (* the model ran out of fuel *)

(** state monad over the LFO *)
Definition M (A : Type) : Type := lfo -> A * lfo.
Definition ret {A} (x : A) : M A := fun l => (x, l).
Definition bind {A B} (m : M A) (k : A -> M B) : M B := fun l => let '(x, l1) := m l in k x l1.
(* the only access the pattern code makes to the LFO: the property LFO.value *)
Definition read_value : M Q := fun l => (lfo_value l, l).

(* reset() on every item of a list, in order; stops at the first result that is not RUnit *)
Fixpoint each_reset (run : reader -> M (res * reader)) (items : list reader) : M (res * list reader) :=
  match items with
  | [] => ret (RUnit, [])
  | it :: rest =>
      bind (run it) (fun x =>
        match fst x with
        | RUnit => bind (each_reset run rest) (fun y => ret (fst y, snd x :: snd y))
        | other => ret (other, snd x :: rest)
        end)
  end.

Definition set_nth {A} (i : nat) (x : A) (l : list A) : list A := firstn i l ++ x :: skipn (S i) l.

Fixpoint rd_run (fuel : nat) (c : cmd) (r : reader) {struct fuel} : M (res * reader) :=
  match fuel with
  | O => ret (RFuel, r)
  | S f =>
    match c with
    (* ---- next(p) ---- *)
    | CNext =>
      match r with
      | RdLfo => bind read_value (fun v => ret (RVal v, RdLfo))              (* return self.lfo.value *)
      | RdConst c0 => ret (RVal c0, r)
      | RdBin o a b =>                                                      (* a = Pattern.value(self.a); b = Pattern.value(self.b) *)
          bind (rd_run f CNext a) (fun x =>
            match fst x with
            | RVal va =>
                bind (rd_run f CNext b) (fun y =>
                  match fst y with
                  | RVal vb => ret (RVal (binop_apply o va vb), RdBin o (snd x) (snd y))
                  | other => ret (other, RdBin o (snd x) (snd y))
                  end)
            | other => ret (other, RdBin o (snd x) b)
            end)
      | RdSeq vs inf pos =>
          (* if len == 0 or rcount >= repeats: StopIteration;  rv = seq[pos]; pos += 1; if pos >= len: pos = 0; rcount += 1 *)
          match nth_error vs pos with
          | Some v => let p1 := S pos in
                      ret (RVal v, RdSeq vs inf (if inf && (List.length vs <=? p1)%nat then 0%nat else p1))
          | None => ret (RStop, r)
          end
      | RdConcat items pos =>
          (* try: return next(self.inputs[self.pos])
             except StopIteration: if self.pos < len(self.inputs) - 1: self.pos += 1; return next(self) else: raise *)
          match nth_error items pos with
          | None => ret (RErr, r)
          | Some it =>
              bind (rd_run f CNext it) (fun x =>
                let items' := set_nth pos (snd x) items in
                match fst x with
                | RStop => if (S pos <? List.length items)%nat then rd_run f CNext (RdConcat items' (S pos))
                           else ret (RStop, RdConcat items' pos)
                | other => ret (other, RdConcat items' pos)
                end)
          end
      | RdReset p trig =>
          (* trigger_input = next(self.trigger); if trigger_input is not None and trigger_input > 0: self.pattern.reset()
             return next(self.pattern) *)
          bind (rd_run f CNext trig) (fun t =>
            match fst t with
            | RVal tv =>
                bind (if Qlt_le_dec 0 tv then rd_run f CReset p else ret (RUnit, p)) (fun z =>
                  match fst z with
                  | RUnit => bind (rd_run f CNext (snd z)) (fun x => ret (fst x, RdReset (snd x) (snd t)))
                  | other => ret (other, RdReset (snd z) (snd t))
                  end)
            | other => ret (other, RdReset p (snd t))
            end)
      | RdPingPong p count values pos dir rpos =>
          (* if (self.pos == 1 and self.rpos >= self.count) or self.pos >= len(self.values): raise StopIteration
             rv = self.values[self.pos]; self.pos += self.dir
             if self.pos == len(self.values) - 1: self.dir = -1  elif self.pos == 0: self.dir = 1; self.rpos += 1 *)
          let n := Z.of_nat (List.length values) in
          if ((pos =? 1)%Z && (count <=? rpos)%Z) || (n <=? pos)%Z || (pos <? 0)%Z then ret (RStop, r)
          else match nth_error values (Z.to_nat pos) with
               | None => ret (RErr, r)
               | Some v =>
                   let pos1 := (pos + dir)%Z in
                   let '(dir1, rpos1) := if (pos1 =? n - 1)%Z then ((-1)%Z, rpos)
                                         else if (pos1 =? 0)%Z then (1%Z, (rpos + 1)%Z) else (dir, rpos) in
                   ret (RVal v, RdPingPong p count values pos1 dir1 rpos1)
               end
      end
    (* ---- p.reset() ---- *)
    | CReset =>
      match r with
      | RdLfo => ret (RUnit, RdLfo)          (* Pattern.reset: the attribute lfo is not a Pattern, list or dict: untouched *)
      | RdConst _ => ret (RUnit, r)
      | RdBin o a b =>
          bind (rd_run f CReset a) (fun x =>
            match fst x with
            | RUnit => bind (rd_run f CReset b) (fun y => ret (fst y, RdBin o (snd x) (snd y)))
            | other => ret (other, RdBin o (snd x) b)
            end)
      | RdSeq vs inf _ => ret (RUnit, RdSeq vs inf 0)                        (* super().reset(); rcount = 0; pos = 0 *)
      | RdConcat items _ =>                                                   (* the Pattern items of the list attribute; pos = 0 *)
          bind (each_reset (rd_run f CReset) items) (fun x => ret (fst x, RdConcat (snd x) 0))
      | RdReset p trig =>
          bind (rd_run f CReset p) (fun x =>
            match fst x with
            | RUnit => bind (rd_run f CReset trig) (fun y => ret (fst y, RdReset (snd x) (snd y)))
            | other => ret (other, RdReset (snd x) trig)
            end)
      | RdPingPong p count values pos dir rpos =>
          (* super().reset()  [resets self.pattern];  self.pattern.reset();  self.values = self.pattern.all()
             self.pos = 0; self.dir = 1; self.rpos = 0 *)
          bind (rd_run f CReset p) (fun x =>
            match fst x with
            | RUnit =>
                bind (rd_run f CReset (snd x)) (fun y =>
                  match fst y with
                  | RUnit =>
                      bind (rd_run f (CAll (Z.to_nat 65536)) (snd y)) (fun z =>
                        match fst z with
                        | RList vs => ret (RUnit, RdPingPong (snd z) count vs 0 1 0)
                        | other => ret (other, RdPingPong (snd z) count values pos dir rpos)
                        end)
                  | other => ret (other, RdPingPong (snd y) count values pos dir rpos)
                  end)
            | other => ret (other, RdPingPong (snd x) count values pos dir rpos)
            end)
      end
    (* ---- p.all(maximum): for n in range(maximum): values.append(next(self)) / except StopIteration; self.reset() ---- *)
    | CAll m =>
      match m with
      | O => bind (rd_run f CReset r) (fun x => ret (match fst x with RUnit => RList [] | other => other end, snd x))
      | S m' =>
          bind (rd_run f CNext r) (fun x =>
            match fst x with
            | RVal v => bind (rd_run f (CAll m') (snd x)) (fun y =>
                          ret (match fst y with RList vs => RList (v :: vs) | other => other end, snd y))
            | RStop => bind (rd_run f CReset (snd x)) (fun y =>
                         ret (match fst y with RUnit => RList [] | other => other end, snd y))
            | other => ret (other, snd x)
            end)
      end
    end
  end.

(* PPingPong(pattern, count).__init__: self.reset() *)
Definition new_pingpong (fuel : nat) (p : reader) (count : Z) : M (res * reader) :=
  rd_run fuel CReset (RdPingPong p count [] 0 1 0).

(** * Construction: the Python expression that creates a reader.  Children are constructed first; PPingPong.__init__
   calls self.reset() (which reads its input to the end and resets it); the other constructors only store their arguments *)
Inductive rspec :=
| SLfo | SConst (c : Q) | SBin (o : binop) (a b : rspec) | SSeq (vs : list Q) (inf : bool)
| SConcat (items : list rspec) | SReset (r trig : rspec) | SPingPong (r : rspec) (count : Z).

Fixpoint each_build (run : rspec -> M (res * reader)) (items : list rspec) : M (res * list reader) :=
  match items with
  | [] => ret (RUnit, [])
  | it :: rest =>
      bind (run it) (fun x =>
        match fst x with
        | RUnit => bind (each_build run rest) (fun y => ret (fst y, snd x :: snd y))
        | other => ret (other, [])
        end)
  end.

Fixpoint build (fuel : nat) (s : rspec) {struct fuel} : M (res * reader) :=
  match fuel with
  | O => ret (RFuel, RdLfo)
  | S f =>
    match s with
    | SLfo => ret (RUnit, RdLfo)
    | SConst c => ret (RUnit, RdConst c)
    | SBin o a b =>
        bind (build f a) (fun x => match fst x with
          | RUnit => bind (build f b) (fun y => ret (fst y, RdBin o (snd x) (snd y)))
          | other => ret (other, RdLfo) end)
    | SSeq vs inf => ret (RUnit, RdSeq vs inf 0)
    | SConcat items => bind (each_build (build f) items) (fun x => ret (fst x, RdConcat (snd x) 0))
    | SReset r trig =>
        bind (build f r) (fun x => match fst x with
          | RUnit => bind (build f trig) (fun y => ret (fst y, RdReset (snd x) (snd y)))
          | other => ret (other, RdLfo) end)
    | SPingPong r count =>
        bind (build f r) (fun x => match fst x with
          | RUnit => new_pingpong f (snd x) count
          | other => ret (other, RdLfo) end)
    end
  end.

(** * The world: one LFO on a timeline, standalone readers, tracks whose event streams hold readers *)
Record world := mkWorld {
  w_lfo : lfo;
  w_readers : list reader;
  w_tracks : list (list reader) }.     (* the values of each track's event-stream PDict, in key order *)

Inductive wop :=
| WTick                          (* Timeline.tick ticks the LFO *)
| WCmd (i : nat) (c : cmd)       (* next / reset / all (len) on standalone reader i *)
| WBuild (s : rspec)             (* a new reader is constructed (and appended to the standalone readers) *)
| WTrackNext (j : nat)           (* the track's event: next(event_stream) = next of every value, in key order *)
| WTrackReset (j : nat)          (* Track.reset(): timeline.schedule(<that Track>), track.reset() *)
| WTimelineReset.                (* Timeline.reset(): every track *)

(* next of every value of the event stream, in order (PDict.__next__); StopIteration propagates *)
Fixpoint each_next (run : reader -> M (res * reader)) (items : list reader) : M (res * list reader) :=
  match items with
  | [] => ret (RList [], [])
  | it :: rest =>
      bind (run it) (fun x =>
        match fst x with
        | RVal v => bind (each_next run rest) (fun y =>
                      ret (match fst y with RList vs => RList (v :: vs) | other => other end, snd x :: snd y))
        | other => ret (other, snd x :: rest)
        end)
  end.

Fixpoint each_track (run : list reader -> M (res * list reader)) (ts : list (list reader)) : M (list (list reader)) :=
  match ts with
  | [] => ret []
  | t :: rest => bind (run t) (fun x => bind (each_track run rest) (fun y => ret (snd x :: y)))
  end.

Section SineWorld.
  Variable sin2pi : Q -> Q.

  Definition w_step (fuel : nat) (tpb : Z) (w : world) (o : wop) : world * res :=
    match o with
    | WTick => (mkWorld (lfo_tick sin2pi tpb (w_lfo w)) (w_readers w) (w_tracks w), RUnit)
    | WCmd i c =>
        match nth_error (w_readers w) i with
        | None => (w, RErr)
        | Some r => let '((x, r'), l') := rd_run fuel c r (w_lfo w) in
                    (mkWorld l' (set_nth i r' (w_readers w)) (w_tracks w), x)
        end
    | WBuild s =>
        let '((x, r), l') := build fuel s (w_lfo w) in
        (mkWorld l' (match x with RUnit => w_readers w ++ [r] | _ => w_readers w end) (w_tracks w), x)
    | WTrackNext j =>
        match nth_error (w_tracks w) j with
        | None => (w, RErr)
        | Some t => let '((x, t'), l') := each_next (rd_run fuel CNext) t (w_lfo w) in
                    (mkWorld l' (w_readers w) (set_nth j t' (w_tracks w)), x)
        end
    | WTrackReset j =>
        match nth_error (w_tracks w) j with
        | None => (w, RErr)
        | Some t => let '((x, t'), l') := each_reset (rd_run fuel CReset) t (w_lfo w) in
                    (mkWorld l' (w_readers w) (set_nth j t' (w_tracks w)), x)
        end
    | WTimelineReset =>
        let '(ts, l') := each_track (each_reset (rd_run fuel CReset)) (w_tracks w) (w_lfo w) in
        (mkWorld l' (w_readers w) ts, RUnit)
    end.

  Fixpoint w_run (fuel : nat) (tpb : Z) (w : world) (ops : list wop) : world :=
    match ops with [] => w | o :: r => w_run fuel tpb (fst (w_step fuel tpb w o)) r end.
End SineWorld.

Definition is_wtick (o : wop) : bool := match o with WTick => true | _ => false end.
Definition w_ticks (ops : list wop) : nat := List.length (filter is_wtick ops).

(* Auto/Lfo.v — executable model of isobar/timelines/lfo.py (sine LFO), of PLFO (isobar/pattern/core.py)
   and of the part of Timeline.tick that orders LFOs, automations and tracks.

   The sine is NOT defined here: [sin2pi x] stands for math.sin(2 * math.pi * x) and enters as a Section
   variable (libm is trusted, not axiomatised); the correspondence check instantiates it with a table of
   math.sin values supplied by the harness, the theorems assume only -1 <= sin2pi x <= 1 and
   sin2pi (x + 1) == sin2pi x.  No proofs in this file. *)
From Isobar Require Import Base.Prelude Auto.Automation.
From Coq Require Import QArith Qreduction.
Local Open Scope Q_scope.

(* util.scale_lin_lin:  norm = (value - from_min) / (from_max - from_min);  norm * (to_max - to_min) + to_min *)
Definition scale_lin_lin (v fmin fmax tmin tmax : Q) : Q :=
  (v - fmin) / (fmax - fmin) * (tmax - tmin) + tmin.

Record lfo := mkLfo {
  l_freq : Q;
  l_min : Q;
  l_max : Q;
  l_time : Q;        (* current_time, in beats *)
  l_value : Q }.     (* current_value *)

Section Sine.
  Variable sin2pi : Q -> Q.

  (* the value of the waveform at time t:
     scale_lin_lin(math.sin(math.pi * 2 * current_time * frequency), -1, 1, min, max) *)
  Definition lfo_wave (f lo hi t : Q) : Q := scale_lin_lin (sin2pi (t * f)) (-1) 1 lo hi.

  (* LFO.__init__ (repaired: the value before the first tick is the phase-0 value, i.e. sin = 0) *)
  Definition new_lfo (f lo hi : Q) : lfo := mkLfo f lo hi 0 (scale_lin_lin 0 (-1) 1 lo hi).

  (* LFO.tick: current_time += tick_duration; current_value = wave(current_time) *)
  Definition lfo_tick (tpb : Z) (l : lfo) : lfo :=
    let t := Qred (l_time l + 1 / inject_Z tpb) in
    mkLfo (l_freq l) (l_min l) (l_max l) t (lfo_wave (l_freq l) (l_min l) (l_max l) t).

  Fixpoint lfo_ticks (tpb : Z) (n : nat) (l : lfo) : lfo :=
    match n with O => l | S k => lfo_ticks tpb k (lfo_tick tpb l) end.

  (* the values after tick 1 .. n *)
  Fixpoint lfo_trace (tpb : Z) (n : nat) (l : lfo) : list Q :=
    match n with
    | O => []
    | S k => let l' := lfo_tick tpb l in l_value l' :: lfo_trace tpb k l'
    end.

  (* LFO.value, and PLFO.__next__, which returns self.lfo.value and leaves the LFO alone *)
  Definition lfo_value (l : lfo) : Q := l_value l.
  Definition plfo_next (l : lfo) : Q * lfo := (lfo_value l, l).

  (* Timeline.tick, phases 2-4: every LFO is ticked, then every automation, and only then the actions and
     tracks run: what a track event evaluated during this tick reads (through PLFO / a bound attribute)
     is the third component — the values AFTER this tick's LFO and automation updates. *)
  Definition timeline_tick (tpb : Z) (ls : list lfo) (autos : list automation)
    : list lfo * list automation * (list Q * list Q) :=
    let ls' := map (lfo_tick tpb) ls in
    let autos' := map (fun a => fst (tick a)) autos in
    (ls', autos', (map (fun l => fst (plfo_next l)) ls', map value autos')).
End Sine.

(** * Re-configuration after construction (FIX-C18)
   lfo.min = x / lfo.max = x / lfo.frequency = x are plain attribute assignments; LFO.update(properties) is
   setattr in dict order; Timeline.lfo(params, name=<name of an existing LFO>) calls update on that LFO and
   returns it, otherwise constructs LFO with the params as keyword arguments and appends it; LFO.reset sets current_time = 0.
   None of them touches current_value: the new configuration shows from the next tick on, where LFO.tick reads
   self.min / self.max / self.frequency afresh. *)
Inductive lfo_key := KFreq | KMin | KMax.

Definition lfo_get (k : lfo_key) (l : lfo) : Q :=
  match k with KFreq => l_freq l | KMin => l_min l | KMax => l_max l end.

Definition lfo_setattr (k : lfo_key) (x : Q) (l : lfo) : lfo :=
  match k with
  | KFreq => mkLfo x (l_min l) (l_max l) (l_time l) (l_value l)
  | KMin => mkLfo (l_freq l) x (l_max l) (l_time l) (l_value l)
  | KMax => mkLfo (l_freq l) (l_min l) x (l_time l) (l_value l)
  end.

(* LFO.update: for key, value in properties.items(): setattr(self, key, value) *)
Fixpoint lfo_update (props : list (lfo_key * Q)) (l : lfo) : lfo :=
  match props with
  | [] => l
  | (k, x) :: r => lfo_update r (lfo_setattr k x l)
  end.

(* LFO.reset *)
Definition lfo_reset (l : lfo) : lfo := mkLfo (l_freq l) (l_min l) (l_max l) 0 (l_value l).

Definition key_eqb (a b : lfo_key) : bool :=
  match a, b with KFreq, KFreq | KMin, KMin | KMax, KMax => true | _, _ => false end.
Fixpoint lookup_key (k : lfo_key) (props : list (lfo_key * Q)) : option Q :=
  match props with
  | [] => None
  | (k', x) :: r => if key_eqb k k' then Some x else lookup_key k r
  end.

Inductive lfo_op := LTick | LUpdate (props : list (lfo_key * Q)) | LReset.
Definition is_ltick (o : lfo_op) : bool := match o with LTick => true | _ => false end.
Definition is_lreset (o : lfo_op) : bool := match o with LReset => true | _ => false end.

Section SineScript.
  Variable sin2pi : Q -> Q.

  (* LFO.__init__ with the params as keyword arguments: frequency is a required argument (None = TypeError), min / max
     default to 0 / 1 *)
  Definition lfo_of_params (props : list (lfo_key * Q)) : option lfo :=
    match lookup_key KFreq props with
    | None => None
    | Some f => Some (new_lfo f (match lookup_key KMin props with Some x => x | None => 0 end)
                                (match lookup_key KMax props with Some x => x | None => 1 end))
    end.

  (* Timeline.lfo(params, name=name): the LFOs of the timeline with their names, in list order.  The first LFO
     whose name is the given (not None) name is updated in place; otherwise a new one is appended.
     Result: the list and the position of the LFO that is returned; None = the constructor raises *)
  Fixpoint tl_find (name : Z) (ls : list (option Z * lfo)) (i : nat) : option nat :=
    match ls with
    | [] => None
    | (Some n, _) :: r => if (n =? name)%Z then Some i else tl_find name r (S i)
    | (None, _) :: r => tl_find name r (S i)
    end.
  Fixpoint tl_update_at (i : nat) (props : list (lfo_key * Q)) (ls : list (option Z * lfo)) : list (option Z * lfo) :=
    match ls, i with
    | [], _ => []
    | (n, l) :: r, O => (n, lfo_update props l) :: r
    | e :: r, S j => e :: tl_update_at j props r
    end.
  Definition tl_lfo (name : option Z) (props : list (lfo_key * Q)) (ls : list (option Z * lfo))
    : option (list (option Z * lfo) * nat) :=
    match match name with Some n => tl_find n ls 0 | None => None end with
    | Some i => Some (tl_update_at i props ls, i)
    | None => match lfo_of_params props with
              | Some l => Some (ls ++ [(name, l)], List.length ls)
              | None => None
              end
    end.

  (* a history of ticks and re-configurations *)
  Definition lfo_step (tpb : Z) (o : lfo_op) (l : lfo) : lfo :=
    match o with
    | LTick => lfo_tick sin2pi tpb l
    | LUpdate ps => lfo_update ps l
    | LReset => lfo_reset l
    end.
  Fixpoint lfo_run (tpb : Z) (ops : list lfo_op) (l : lfo) : lfo :=
    match ops with [] => l | o :: r => lfo_run tpb r (lfo_step tpb o l) end.

  (* what is seen after every operation of the history: (was it a tick, value, min, max at that moment) *)
  Fixpoint lfo_script_trace (tpb : Z) (ops : list lfo_op) (l : lfo) : list (bool * Q * (Q * Q)) :=
    match ops with
    | [] => []
    | o :: r => let l' := lfo_step tpb o l in
                (is_ltick o, l_value l', (l_min l', l_max l')) :: lfo_script_trace tpb r l'
    end.
End SineScript.

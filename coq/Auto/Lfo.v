(* Auto/Lfo.v — executable model of isobar/timelines/lfo.py (sine LFO), of PLFO (isobar/pattern/core.py)
   and of the part of Timeline.tick that orders LFOs, automations and tracks.

   The sine is NOT defined here: [sin2pi x] stands for math.sin(2 * math.pi * x) and enters as a Section
   variable (libm is trusted, not axiomatised); the correspondence check instantiates it with a table of
   math.sin values supplied by the harness, the theorems assume only -1 <= sin2pi x <= 1 and
   sin2pi (x + 1) == sin2pi x.  No proofs in this file. *)
From Isobar Require Import Base.Prelude Auto.Automation.
From Coq Require Import QArith Qreduction.
Local Open Scope Q_scope.

(* util.scale_lin_lin:  norm = (value - from_min) / (from_max - from_min);  norm * (to_max - to_min) + to_min *)
Definition scale_lin_lin (v fmin fmax tmin tmax : Q) : Q :=
  (v - fmin) / (fmax - fmin) * (tmax - tmin) + tmin.

Record lfo := mkLfo {
  l_freq : Q;
  l_min : Q;
  l_max : Q;
  l_time : Q;        (* current_time, in beats *)
  l_value : Q }.     (* current_value *)

Section Sine.
  Variable sin2pi : Q -> Q.

  (* the value of the waveform at time t:
     scale_lin_lin(math.sin(math.pi * 2 * current_time * frequency), -1, 1, min, max) *)
  Definition lfo_wave (f lo hi t : Q) : Q := scale_lin_lin (sin2pi (t * f)) (-1) 1 lo hi.

  (* LFO.__init__ (repaired: the value before the first tick is the phase-0 value, i.e. sin = 0) *)
  Definition new_lfo (f lo hi : Q) : lfo := mkLfo f lo hi 0 (scale_lin_lin 0 (-1) 1 lo hi).

  (* LFO.tick: current_time += tick_duration; current_value = wave(current_time) *)
  Definition lfo_tick (tpb : Z) (l : lfo) : lfo :=
    let t := Qred (l_time l + 1 / inject_Z tpb) in
    mkLfo (l_freq l) (l_min l) (l_max l) t (lfo_wave (l_freq l) (l_min l) (l_max l) t).

  Fixpoint lfo_ticks (tpb : Z) (n : nat) (l : lfo) : lfo :=
    match n with O => l | S k => lfo_ticks tpb k (lfo_tick tpb l) end.

  (* the values after tick 1 .. n *)
  Fixpoint lfo_trace (tpb : Z) (n : nat) (l : lfo) : list Q :=
    match n with
    | O => []
    | S k => let l' := lfo_tick tpb l in l_value l' :: lfo_trace tpb k l'
    end.

  (* LFO.value, and PLFO.__next__, which returns self.lfo.value and leaves the LFO alone *)
  Definition lfo_value (l : lfo) : Q := l_value l.
  Definition plfo_next (l : lfo) : Q * lfo := (lfo_value l, l).

  (* Timeline.tick, phases 2-4: every LFO is ticked, then every automation, and only then the actions and
     tracks run: what a track event evaluated during this tick reads (through PLFO / a bound attribute)
     is the third component — the values AFTER this tick's LFO and automation updates. *)
  Definition timeline_tick (tpb : Z) (ls : list lfo) (autos : list automation)
    : list lfo * list automation * (list Q * list Q) :=
    let ls' := map (lfo_tick tpb) ls in
    let autos' := map (fun a => fst (tick a)) autos in
    (ls', autos', (map (fun l => fst (plfo_next l)) ls', map value autos')).
End Sine.

(* Pat/Ieee.v — the Python arithmetic operators on ALL finite floats (binary64, round to nearest even).

   Pat/Val.v vouches for a float result only when the exact rational result is a "small dyadic"
   (|numerator| < 2^53): that is blind to everything rounding does — re-association of a chain of
   additions, distribution, folding of constants, a product formed in a different order — because
   on that domain float arithmetic IS rational arithmetic.  Here + - * / on floats (and int / int)
   are the exact rational result ROUNDED to binary64, which is what IEEE-754 prescribes for these four
   operations and what CPython computes (float_add/sub/mul/div are the C double operations; an int
   operand is first converted with PyLong_AsDouble, itself correctly rounded; int / int is
   long_true_divide, correctly rounded).  A float [VFlt q] is still a Python float whose value is
   exactly q, now ANY finite binary64 value.

   Not covered (answer [Inexact], the case is discarded from the model comparison and judged by the
   oracle only): results that overflow (Python gives inf or OverflowError), % ** with a float
   operand outside the small-dyadic domain of Val.v (CPython composes a rounded step / libm
   pow there), the sign of a zero.  // with a float operand follows CPython's rounded steps (flt_floordiv).  Everything else is Val.binop unchanged.

   [binop_ieee] is the operator semantics the C08 correspondence passes to Pat/Step.v (where the
   semantics of the PBinOp classes is a Section variable).  No proofs here. *)
From Isobar Require Import Base.Prelude Pat.Val.
From Coq Require Import QArith Qround Qabs Qpower.
Open Scope Z_scope.

(** 2^k, any integer k *)
Definition pow2 (k : Z) : Q := Qpower (2 # 1) k.

(** floor (log2 |q|), q <> 0 *)
Definition ilog2 (q : Q) : Z :=
  let e0 := Z.log2 (Z.abs (Qnum q)) - Z.log2 (Z.pos (Qden q)) in
  if Qltb (Qabs q) (pow2 e0) then e0 - 1 else e0.

(** binary64: 53 significant bits, least exponent of the unit in the last place -1074 (subnormals),
    values below 2^1024 *)
Definition MAXF : Q := inject_Z (2 ^ 1024).

(** round half to even of n / 2^k (k >= 0) with shifts: the denominators of sums, differences and products
    of floats are powers of two, and Z.div on 1000-bit numbers (subnormals) is slow *)
Definition rhe_pow2 (n k : Z) : Z :=
  if k <=? 0 then n
  else
    let f := Z.shiftr n k in
    let r := n - Z.shiftl f k in
    let h := Z.shiftl 1 (k - 1) in
    if r <? h then f else if h <? r then f + 1 else if Z.even f then f else f + 1.

Definition rhe (q : Q) : Z :=
  if pos_is_pow2 (Qden q) then rhe_pow2 (Qnum q) (Z.log2 (Z.pos (Qden q))) else round_half_even q.

(** the binary64 nearest to q, ties to even; [Inexact] when it would not be finite.
    q need not be in lowest terms; the result is m * 2^u in lowest terms. *)
Definition round64 (q : Q) : outcome Q :=
  if qzero q then Yield 0%Q
  else
    let u := Z.max (ilog2 q - 52) (-1074) in
    let scaled := if 0 <=? u then (Qnum q # (Qden q * Z.to_pos (2 ^ u)))%Q      (* q / 2^u *)
                  else ((Qnum q * 2 ^ (- u)) # Qden q)%Q in
    let res := Qred (inject_Z (rhe scaled) * pow2 u) in
    if Qle_bool MAXF (Qabs res) then Inexact else Yield res.

(** an int operand of a float operation: float(int), correctly rounded (too large: OverflowError in
    Python, [Inexact] here) *)
Definition to_flt (x : Q) (is_f : bool) : outcome Q := if is_f then Yield x else round64 x.

Definition ieee_arith (o : op) : bool :=
  match o with OAdd | OSub | OMul | ODiv => true | _ => false end.

Definition flt_ieee (o : op) (a b : Q) : outcome val :=
  match o with
  | OAdd => omap VFlt (round64 (a + b))
  | OSub => omap VFlt (round64 (a - b))
  | OMul => omap VFlt (round64 (a * b))
  | ODiv => if qzero b then Raise ZeroDivisionError else omap VFlt (round64 (a / b))
  | _ => Inexact
  end.

(** float // float as CPython computes it (Objects/floatobject.c, _float_div_mod): fmod is exact, but the
    difference, the quotient, the correction by one and the final snap are each ROUNDED, so the result can be
    one off the floor of the exact quotient once that needs more than 53 bits on the way
    (2.5 // 3e-16 = 8333333333333334.0, floor of the exact quotient ...333).  A zero quotient keeps Val's
    answer (the sign of a zero is not modelled). *)
Definition c_fmod (a b : Q) : Q := a - b * inject_Z (Qtrunc (a / b)).

Definition flt_floordiv (a b : Q) : outcome val :=
  if qzero b then Raise ZeroDivisionError
  else
    let m := c_fmod a b in
    obind (round64 (a - m)) (fun d0 =>
    obind (round64 (d0 / b)) (fun d1 =>
    let adj := negb (qzero m) && negb (Bool.eqb (Qltb b 0) (Qltb m 0)) in
    obind (if adj then round64 (d1 - 1) else Yield d1) (fun d =>
    if qzero d then Yield (VFlt 0)
    else
      let f := inject_Z (Qfloor d) in
      omap VFlt (round64 (if Qltb (1 # 2) (d - f) then f + 1 else f))))).

Definition floordiv_ieee (a b : val) : option (outcome val) :=
  match int_of a, int_of b with
  | Some _, Some _ => None                                      (* int // int: exact, Val.binop *)
  | _, _ =>
      match num_of a, num_of b with
      | Some (x, fx), Some (y, fy) =>
          Some (obind (to_flt x fx) (fun x' => obind (to_flt y fy) (fun y' => flt_floordiv x' y')))
      | _, _ => None
      end
  end.

(** the value lies in the domain on which Val.binop vouches for // % ** *)
Definition small_num (v : val) : bool :=
  match v with
  | VFlt q => (Z.log2 (Z.abs (Qnum q)) <? 600) && (Z.log2 (Z.pos (Qden q)) <? 600) && dyadic_ok q
  | _ => true
  end.

Definition binop_ieee (o : op) (a b : val) : outcome val :=
  if ieee_arith o then
    match int_of a, int_of b with
    | Some za, Some zb =>
        match o with
        | ODiv => if zb =? 0 then Raise ZeroDivisionError
                  else omap VFlt (round64 (inject_Z za / inject_Z zb))
        | _ => Val.binop o a b                                 (* int + - * int: exact *)
        end
    | _, _ =>
        match num_of a, num_of b with
        | Some (x, fx), Some (y, fy) =>
            obind (to_flt x fx) (fun x' => obind (to_flt y fy) (fun y' => flt_ieee o x' y'))
        | _, _ => Val.binop o a b                              (* None, str, ...: as before *)
        end
    end
  else if is_cmp o then Val.binop o a b                        (* comparisons are exact in Python *)
  else
    match (if op_eqb o OFloorDiv then floordiv_ieee a b else None) with
    | Some r => r                                              (* a float operand of //: CPython's rounded steps *)
    | None =>
        if small_num a && small_num b then Val.binop o a b     (* % ** << >>, int // int *)
        else Inexact
    end.

(** the float m * 2^e as a value (how the harness writes float literals: short, whatever the magnitude) *)
Definition mkf (m e : Z) : val :=
  VFlt (if 0 <=? e then (m * 2 ^ e) # 1 else m # Z.to_pos (2 ^ (- e))).

(* Pat/SeededNestIso.v — isolation inside a NEST of seeded stochastic patterns (property C11), over the model of
   Pat/SeededNest.v (a parent with a generator and a seed of its own whose __next__ is any program over its own draws
   and "next value of child i"; every child a seedable object of Pat/Seeded.v with its own generator and seed).

   C11 for a nest Outer(Inner(..).seed(a), ..).seed(b): every pattern of the nest produces the sequence of ITS OWN seed.
     [pulled i p g kids]        the values one __next__ of the parent obtains from child i, in order
     [kid_ops i o h]            the operations a history h of the NEST applies to child i: a next() for every value the
                                parent pulls, a reset() for every reset() of the parent, a seed(s) for every seed(s) the
                                caller gives that child — and NOTHING for a seed() of the parent or of another child
     [nested_child_is_standalone]  after any history, child i is in the state — and has handed the parent the values —
                                of that child ALONE under kid_ops: a stand-alone instance with the same class and seeds
     [kid_ops_seeds]            the only seeds that reach child i are the ones the caller gave it
     [inner_seed_leaves_outer]  seeding a child leaves the parent's state, generator and stored seed alone
     [pskip_passes_source]      through the nesting, PSkip yields the value it pulled or a rest (or the source's end). *)
From Isobar Require Import Base.Prelude Pat.Chance Pat.Seeded Pat.SeededProofs Pat.SeededNest Pat.SeededNestProofs.
From Coq Require Import QArith.
Local Notation length := List.length (only parsing).
Open Scope Z_scope.

Lemma nth_error_upd_neq {A} (x : A) : forall l i j, i <> j -> nth_error (upd j x l) i = nth_error l i.
Proof.
  induction l as [|y l IH]; intros [|i] [|j] H; cbn; try reflexivity; try congruence.
  apply IH. congruence.
Qed.

Section Iso.
  Variable R : Type.
  Variable r_unit : R -> Z * R.
  Variable r_below : Z -> R -> Z * R.
  Variable r_seed : Z -> R.
  Variables StC CfC St : Type.
  Variable pc : pclass R St.
  Notation kid := (kid R StC CfC).
  Notation exec := (exec R r_unit r_below r_seed StC CfC).
  Notation ndo := (ndo R r_unit r_below r_seed StC CfC pc).
  Notation nafter := (nafter R r_unit r_below r_seed StC CfC pc).
  Notation kdo := (kdo R r_seed).
  Notation kafter := (kafter R r_seed).
  Notation krun := (krun R r_seed).

  Fixpoint pulled {A} (i : nat) (p : prog A) (g : R) (kids : list kid) : list res :=
    match p with
    | Ret _ => []
    | Pull j k =>
        match nth_error kids j with
        | Some (cls, c) =>
            let (c', r) := kdo cls c KNext in
            let v := match r with Some x => x | None => Fail end in
            (if Nat.eqb j i then [v] else []) ++ pulled i (k v) g (upd j (cls, c') kids)
        | None => pulled i (k Fail) g kids
        end
    | DrawUnit k => let (u, g') := r_unit g in pulled i (k u) g' kids
    | DrawBelow n k => let (x, g') := r_below n g in pulled i (k x) g' kids
    end.

  Definition nexts (n : nat) : list (kop CfC) := repeat KNext n.

  Lemma kafter_next (cls : sclass R StC CfC) (c : kinst R StC) ops :
    kafter cls c (KNext :: ops) = kafter cls (fst (kdo cls c KNext)) ops.
  Proof. apply kafter_cons. Qed.

  (** one __next__ of the parent: child i makes as many steps of ITS OWN as values were pulled from it, and these values
      are its own outputs *)
  Lemma exec_child {A} (p : prog A) : forall g kids i cls c, nth_error kids i = Some (cls, c) ->
    nth_error (snd (exec p g kids)) i = Some (cls, kafter cls c (nexts (length (pulled i p g kids)))) /\
    pulled i p g kids = krun cls c (nexts (length (pulled i p g kids))).
  Proof.
    induction p as [a|j k IH|k IH|n k IH]; intros g kids i cls c Hi; cbn [SeededNest.exec pulled]; unfold SeededNest.kid in *.
    - cbn. split; [exact Hi | reflexivity].
    - destruct (nth_error kids j) as [[clj cj]|] eqn:Ej; [|apply (IH Fail); exact Hi].
      destruct (Seeded.kdo R r_seed clj cj KNext) as [c' r] eqn:Ek.
      assert (Hr : exists x, r = Some x).
      { cbn [Seeded.kdo] in Ek. destruct (sc_step clj (k_seed cj) (k_st cj) (k_gen cj)) as [[x st'] g']. inversion Ek. eauto. }
      destruct Hr as [x ->].
      destruct (Nat.eqb j i) eqn:E.
      + apply Nat.eqb_eq in E. subst j. rewrite Hi in Ej. inversion Ej; subst clj cj.
        assert (Hi' : nth_error (upd i (cls, c') kids) i = Some (cls, c')) by (eapply nth_error_upd_eq; eauto).
        destruct (IH x g (upd i (cls, c') kids) i cls c' Hi') as [H1 H2].
        cbn [app length nexts repeat]. fold (nexts (length (pulled i (k x) g (upd i (cls, c') kids)))).
        split.
        * rewrite H1. rewrite kafter_next, Ek. reflexivity.
        * rewrite krun_cons, Ek. cbn [fst snd]. f_equal. exact H2.
      + apply Nat.eqb_neq in E.
        assert (Hi' : nth_error (upd j (clj, c') kids) i = Some (cls, c)) by (rewrite nth_error_upd_neq by congruence; exact Hi).
        cbn [app]. apply IH. exact Hi'.
    - destruct (r_unit g). apply IH. exact Hi.
    - destruct (r_below n g). apply IH. exact Hi.
  Qed.

  (** the operations a history of the nest applies to child i, and the values the parent obtains from it *)
  Definition kid_step_ops (i : nat) (o : nobj R StC CfC St) (op : nop) : list (kop CfC) :=
    match op with
    | NNext => nexts (length (pulled i (pc_step pc (n_st o)) (n_gen o) (n_kids o)))
    | NReset => [KReset]
    | NSeed _ => []                                  (* seed() of the parent: nothing reaches the child *)
    | NKidSeed j s => if Nat.eqb j i then [KSeed s] else []
    end.
  Definition kid_step_pulls (i : nat) (o : nobj R StC CfC St) (op : nop) : list res :=
    match op with NNext => pulled i (pc_step pc (n_st o)) (n_gen o) (n_kids o) | _ => [] end.
  Fixpoint kid_ops (i : nat) (o : nobj R StC CfC St) (h : list nop) : list (kop CfC) :=
    match h with [] => [] | op :: r => kid_step_ops i o op ++ kid_ops i (fst (ndo o op)) r end.
  Fixpoint kid_pulls (i : nat) (o : nobj R StC CfC St) (h : list nop) : list res :=
    match h with [] => [] | op :: r => kid_step_pulls i o op ++ kid_pulls i (fst (ndo o op)) r end.

  Lemma ndo_child o op i cls c : nth_error (n_kids o) i = Some (cls, c) ->
    nth_error (n_kids (fst (ndo o op))) i = Some (cls, kafter cls c (kid_step_ops i o op)) /\
    kid_step_pulls i o op = krun cls c (kid_step_ops i o op).
  Proof.
    intro Hi. destruct op as [| |s|j s]; cbn [SeededNest.ndo kid_step_ops kid_step_pulls].
    - pose proof (exec_child (pc_step pc (n_st o)) (n_gen o) (n_kids o) i cls c Hi) as [H1 H2].
      destruct (exec (pc_step pc (n_st o)) (n_gen o) (n_kids o)) as [[[r st'] g'] kids']. cbn [fst snd n_kids] in *.
      split; assumption.
    - destruct (pc_reset pc (n_st o) (r_seed (n_seed o))). cbn [fst n_kids].
      rewrite nth_error_map, Hi. cbn [option_map]. unfold reset_kid. cbn [fst snd].
      unfold Seeded.kafter, Seeded.krun. cbn [krun_st Seeded.kdo].
      destruct (sc_reset cls (k_st c) (r_seed (k_seed c))). split; reflexivity.
    - destruct (pc_seeded pc (n_st o) (r_seed s)). cbn [fst n_kids]. split; [exact Hi | reflexivity].
    - cbn [fst n_kids]. destruct (Nat.eqb j i) eqn:E.
      + apply Nat.eqb_eq in E. subst j. rewrite Hi.
        rewrite (nth_error_upd_eq _ _ _ _ Hi). unfold seed_kid. cbn [fst snd].
        unfold Seeded.kafter, Seeded.krun. cbn [krun_st Seeded.kdo].
        destruct (sc_seeded cls (k_st c) (r_seed s)). split; reflexivity.
      + apply Nat.eqb_neq in E. split; [|reflexivity].
        destruct (nth_error (n_kids o) j); [rewrite nth_error_upd_neq by congruence|]; exact Hi.
  Qed.

  (** MAIN: after ANY history of the nest, child i is the child ALONE under its own operations, and the parent has been
      handed exactly the outputs of that stand-alone child *)
  Theorem nested_child_is_standalone i : forall h o cls c, nth_error (n_kids o) i = Some (cls, c) ->
    nth_error (n_kids (nafter o h)) i = Some (cls, kafter cls c (kid_ops i o h)) /\
    kid_pulls i o h = krun cls c (kid_ops i o h).
  Proof.
    induction h as [|op h IH]; intros o cls c Hi.
    - split; [exact Hi | reflexivity].
    - rewrite nafter_cons. cbn [kid_ops kid_pulls].
      destruct (ndo_child o op i cls c Hi) as [H1 H2].
      destruct (IH (fst (ndo o op)) cls _ H1) as [H3 H4].
      rewrite kafter_app, krun_app. split; [exact H3|]. rewrite H2, H4. reflexivity.
  Qed.

  (** the seeds that reach child i: exactly the ones the caller gave it, in order *)
  Fixpoint kseeds (ops : list (kop CfC)) : list Z :=
    match ops with [] => [] | KSeed s :: r => s :: kseeds r | _ :: r => kseeds r end.
  Fixpoint nseeds (i : nat) (h : list nop) : list Z :=
    match h with
    | [] => []
    | NKidSeed j s :: r => if Nat.eqb j i then s :: nseeds i r else nseeds i r
    | _ :: r => nseeds i r
    end.
  Lemma kseeds_app a b : kseeds (a ++ b) = kseeds a ++ kseeds b.
  Proof. induction a as [|o a IH]; [reflexivity|]. destruct o; cbn; rewrite ?IH; reflexivity. Qed.
  Lemma kseeds_nexts n : kseeds (nexts n) = [].
  Proof. induction n; cbn; auto. Qed.
  Theorem kid_ops_seeds i : forall h o, kseeds (kid_ops i o h) = nseeds i h.
  Proof.
    induction h as [|op h IH]; intro o; [reflexivity|]. cbn [kid_ops]. rewrite kseeds_app, IH.
    destruct op as [| |s|j s]; cbn [kid_step_ops nseeds]; rewrite ?kseeds_nexts; try reflexivity.
    destruct (Nat.eqb j i); reflexivity.
  Qed.

  (** vice versa: seeding a child touches neither the parent's state, nor its generator, nor its stored seed, nor any
      other child *)
  Theorem inner_seed_leaves_outer o i s :
    n_st (fst (ndo o (NKidSeed i s))) = n_st o /\ n_gen (fst (ndo o (NKidSeed i s))) = n_gen o /\
    n_seed (fst (ndo o (NKidSeed i s))) = n_seed o /\
    forall j, j <> i -> nth_error (n_kids (fst (ndo o (NKidSeed i s)))) j = nth_error (n_kids o) j.
  Proof.
    cbn [SeededNest.ndo fst n_st n_gen n_seed n_kids]. repeat split.
    intros j Hj. destruct (nth_error (n_kids o) i); [apply nth_error_upd_neq; exact Hj | reflexivity].
  Qed.
End Iso.

(** * Supports through the nesting: PSkip over a child yields what it pulled, or a rest *)
Lemma pskip_passes_source R r_unit r_below r_seed StC CfC play g (kids : list (kid R StC CfC)) :
  let r := fst (fst (fst (exec R r_unit r_below r_seed StC CfC (pskip_step play tt) g kids))) in
  match pulled R r_unit r_below r_seed StC CfC 0 (pskip_step play tt) g kids with
  | [v] => r = v \/ (exists x, v = Out x /\ r = Out ONone)
  | [] => r = Fail
  | _ => False
  end.
Proof.
  cbv zeta. cbn [pskip_step exec pulled]. unfold SeededNest.kid in *.
  destruct (nth_error kids 0) as [[cls c]|]; [|reflexivity].
  cbn [Seeded.kdo]. destruct (sc_step cls (k_seed c) (k_st c) (k_gen c)) as [[x st'] g'].
  cbn [Nat.eqb app]. destruct x as [v| |]; cbn [exec pulled fst]; try (left; reflexivity).
  destruct (r_unit g) as [u g2]. cbn [exec pulled fst]. destruct (Qltb (uq u) play); [left; reflexivity | right; eauto].
Qed.

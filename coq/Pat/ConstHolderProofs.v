(* Pat/ConstHolderProofs.v — reset() of a PConstant that holds a pattern / a tuple with patterns (Pat/ConstHolder.v). *)
From Isobar Require Import Base.Prelude Pat.Val Pat.Syntax Pat.Step Pat.ResetProofs Pat.ResetProofs2 Pat.ConstHolder.
Open Scope Z_scope.

Section H.
  Variable binop : op -> val -> val -> outcome val.
  Variable LMAX : nat.

  (* the held argument stays in the fragment under Pattern.value *)
  Lemma held_closed s f a : xarg s a -> xarg s (match snd (hvalue binop LMAX f (Held a)) with Held a' => a' end).
  Proof.
    intro H. cbn [hvalue]. pose proof (xarg_value_closed binop LMAX s f a H) as K.
    destruct (value binop LMAX f a). exact K.
  Qed.

  (** reset() of the holder erases one Pattern.value() on it ... *)
  Lemma hreset_value s f f' a : xarg s a ->
    hreset binop LMAX f (snd (hvalue binop LMAX f' (Held a))) = hreset binop LMAX f (Held a).
  Proof.
    intro H. cbn [hvalue]. pose proof (itemA_value binop LMAX f (fun s f' p => reset_step2 binop LMAX s f f' p) s a f' H) as E.
    destruct (value binop LMAX f' a) as [o a']. cbn [snd hreset] in *. rewrite E. reflexivity.
  Qed.

  (** ... and any number of them: after k reads of the held value - each advancing the patterns inside the tuple, to any depth -
      reset() gives what it gives on the untouched holder *)
  Theorem hreset_any_history s f f' k a : xarg s a ->
    hreset binop LMAX f (hrun binop LMAX f' k (Held a)) = hreset binop LMAX f (Held a).
  Proof.
    revert a. induction k as [|k IH]; intros a H; [reflexivity|]. cbn [hrun].
    pose proof (hreset_value s f f' a H) as E. pose proof (held_closed s f' a H) as C.
    destruct (hvalue binop LMAX f' (Held a)) as [o [a']]. cbn [snd] in *. rewrite IH by exact C. exact E.
  Qed.
End H.

(* Pat/OpSrc.v — the element-wise laws of Pat/OpProofs.v (property C08) restated for the __next__ bodies of the operator
   classes generated from the source text (Generated/TablesStep.v), through the tie lemmas of Pat/StepSrc.v.
   Lemmas only; the property theorems are in Props/C08Src.v. *)
From Isobar Require Import Base.Prelude Pat.Val Pat.Syntax Pat.Step Pat.StepProofs Pat.Dunder Pat.OpProofs
  Generated.TablesStep Pat.StepSrc.
From Coq Require Import String QArith.
Open Scope Z_scope.

Section OpSrc.
  Variable binop : op -> val -> val -> outcome val.
  Variable LMAX : nat.
  Notation V := (value binop LMAX).
  Notation A := (anext binop LMAX).

  (* the clause of the engine for each operator class is the body of that class as written *)
  Theorem operator_bodies_src f a b :
    step binop LMAX (S f) (PBinOp OAdd a b) = src_PAdd_next binop V A f a b /\
    step binop LMAX (S f) (PBinOp OSub a b) = src_PSub_next binop V A f a b /\
    step binop LMAX (S f) (PBinOp OMul a b) = src_PMul_next binop V A f a b /\
    step binop LMAX (S f) (PBinOp ODiv a b) = src_PDiv_next binop V A f a b /\
    step binop LMAX (S f) (PBinOp OFloorDiv a b) = src_PFloorDiv_next binop V A f a b /\
    step binop LMAX (S f) (PBinOp OMod a b) = src_PMod_next binop V A f a b /\
    step binop LMAX (S f) (PBinOp OPow a b) = src_PPow_next binop V A f a b /\
    step binop LMAX (S f) (PBinOp OLShift a b) = src_PLShift_next binop V A f a b /\
    step binop LMAX (S f) (PBinOp ORShift a b) = src_PRShift_next binop V A f a b /\
    step binop LMAX (S f) (PBinOp OEq a b) = src_PEqual_next binop V A f a b /\
    step binop LMAX (S f) (PBinOp ONe a b) = src_PNotEqual_next binop V A f a b /\
    step binop LMAX (S f) (PBinOp OGt a b) = src_PGreaterThan_next binop V A f a b /\
    step binop LMAX (S f) (PBinOp OGe a b) = src_PGreaterThanOrEqual_next binop V A f a b /\
    step binop LMAX (S f) (PBinOp OLt a b) = src_PLessThan_next binop V A f a b /\
    step binop LMAX (S f) (PBinOp OLe a b) = src_PLessThanOrEqual_next binop V A f a b /\
    step binop LMAX (S f) (PAnd a b) = src_PAnd_next Val.binop V A f a b /\
    step binop LMAX (S f) (PAbs a) = src_PAbs_next Val.binop V A f a.
  Proof.
    repeat split;
      [ apply PAdd_next_src | apply PSub_next_src | apply PMul_next_src | apply PDiv_next_src | apply PFloorDiv_next_src
      | apply PMod_next_src | apply PPow_next_src | apply PLShift_next_src | apply PRShift_next_src | apply PEqual_next_src
      | apply PNotEqual_next_src | apply PGreaterThan_next_src | apply PGreaterThanOrEqual_next_src | apply PLessThan_next_src
      | apply PLessThanOrEqual_next_src | apply PAnd_next_src | apply PAbs_next_src ].
  Qed.

  Theorem src_binop_lift o f n a b vas vbs a' b' :
    vals binop LMAX f n a = Some (vas, a') -> vals binop LMAX f n b = Some (vbs, b') ->
    src_outputs binop LMAX (S f) n (PBinOp o a b) = (zipw (elem binop o) vas vbs, PBinOp o a' b').
  Proof. intros. rewrite src_outputs_is. eapply (binop_lift binop LMAX); eassumption. Qed.

  Theorem src_and_lift f n a b vas vbs a' b' :
    vals binop LMAX f n a = Some (vas, a') -> vals binop LMAX f n b = Some (vbs, b') ->
    src_outputs binop LMAX (S f) n (PAnd a b)
      = (zipw (fun x y => Yield (VBool (truthy x && truthy y))) vas vbs, PAnd a' b').
  Proof. intros. rewrite src_outputs_is. eapply (and_lift binop LMAX); eassumption. Qed.
End OpSrc.

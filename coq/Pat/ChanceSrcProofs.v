(* Pat/ChanceSrcProofs.v — range / support theorems of Pat/ChanceProofs.v (property C11) restated for the machines whose
   step is GENERATED FROM THE SOURCE TEXT of isobar/pattern/chance.py (Pat/ChanceSrc.v: src_white src_coin src_flipflop
   src_skip src_pshuffle), through the tie lemmas.  Lemmas only; the property theorems are in Props/C11Src.v. *)
From Isobar Require Import Base.Prelude Pat.Chance Pat.ChanceProofs Generated.TablesStepchance Pat.ChanceSrc.
From Coq Require Import QArith Permutation Lqa.
Local Notation length := List.length (only parsing).
Open Scope Z_scope.

Section InRange.
  Variable R : Type.
  Variable r_unit : R -> Z * R.
  Variable r_below : Z -> R -> Z * R.
  Variable r_seed : Z -> R.
  Hypothesis unit_range : forall g, 0 <= fst (r_unit g) < two53.
  Hypothesis below_range : forall n g, 0 < n -> 0 <= fst (r_below n g) < n.

  Theorem src_white_float mn mx len ops i : (mn <= mx)%Q ->
    Forall (fun r => match r with Out (OQ x) => (mn <= x <= mx)%Q | Stop => True | _ => False end)
           (run R r_seed (src_white R r_unit true mn mx len) i ops).
  Proof.
    intro H. rewrite src_white_run. eapply Forall_impl; [|eapply white_range; eauto].
    intros [[z|q| |l]| |]; cbn; intuition congruence.
  Qed.

  Theorem src_white_length is_f mn mx len s n j r : (mn <= mx)%Q ->
    nth_error (run R r_seed (src_white R r_unit is_f mn mx len) (fresh R r_seed (src_white R r_unit is_f mn mx len) s)
                   (repeat Next n)) j = Some r ->
    (r = Stop <-> 0 < len /\ len <= Z.of_nat j).
  Proof.
    intros H E. rewrite src_white_run in E. unfold fresh in E. cbn [m_init src_white] in E.
    eapply white_length_from in E; eauto. rewrite E. lia.
  Qed.

  Theorem src_coin_binary p ops i : Forall binary (run R r_seed (src_coin R r_unit p) i ops).
  Proof. rewrite src_coin_run. apply coin_binary. Qed.

  Theorem src_flipflop_binary init p_on p_off ops s : init = 0 \/ init = 1 ->
    Forall binary (run R r_seed (src_flipflop R r_unit init p_on p_off) (fresh R r_seed (src_flipflop R r_unit init p_on p_off) s) ops).
  Proof.
    intro H. rewrite src_flipflop_run.
    change (fresh R r_seed (src_flipflop R r_unit init p_on p_off) s) with (fresh R r_seed (flipflop R r_unit init p_on p_off) s).
    eapply flipflop_binary; eauto.
  Qed.

  Theorem src_pshuffle_support values repeats ops s :
    Forall (from_values' values)
           (run R r_seed (src_pshuffle R r_below values repeats) (fresh R r_seed (src_pshuffle R r_below values repeats) s) ops).
  Proof.
    rewrite src_pshuffle_run.
    change (fresh R r_seed (src_pshuffle R r_below values repeats) s) with (fresh R r_seed (pshuffle R r_below values repeats) s).
    eapply pshuffle_support; eauto.
  Qed.

  Theorem src_choice_support values ws ops i :
    Forall (from_values values) (run R r_seed (src_pchoice R r_unit r_below values ws) i ops).
  Proof. rewrite src_pchoice_run. apply choice_support. Qed.

  Theorem src_skip_only_rests input play s n j r :
    nth_error (run R r_seed (src_skip R r_unit input play) (fresh R r_seed (src_skip R r_unit input play) s) (repeat Next n)) j = Some r ->
    match nth_error input j with
    | Some x => r = Out (oopt x) \/ r = Out ONone
    | None => r = Stop
    end.
  Proof.
    intro H. rewrite src_skip_run in H.
    change (fresh R r_seed (src_skip R r_unit input play) s) with (fresh R r_seed (skip R r_unit input play) s) in H.
    eapply skip_only_rests; eauto.
  Qed.
End InRange.

(* Pat/SeededProofs.v — reset() of a seedable, configurable class (Pat/Seeded.v) rewinds to a newly constructed,
   identically seeded and identically configured instance: generic theorem from a class-level contract ([rewinds]),
   and the contract for PArpeggiator(RANDOM), PRandomImpulseSequence with every() and every machine of Pat/Chance.v. *)
From Isobar Require Import Base.Prelude Pat.Chance Pat.Seeded.
From Coq Require Import QArith.
Local Notation length := List.length (only parsing).
Open Scope Z_scope.

Section Generic.
  Variable R : Type.
  Variable r_seed : Z -> R.
  Variables St Cf : Type.
  Variable cls : sclass R St Cf.
  Notation kdo := (kdo R r_seed cls).
  Notation krun := (krun R r_seed cls).
  Notation kafter := (kafter R r_seed cls).
  Notation knew := (knew R r_seed cls).
  Notation kfresh := (kfresh R r_seed cls).
  Notation configs := (configs R cls).

  Lemma krun_cons i o r :
    krun i (o :: r) = match snd (kdo i o) with Some x => x :: krun (fst (kdo i o)) r | None => krun (fst (kdo i o)) r end.
  Proof.
    unfold Seeded.krun. cbn [krun_st]. destruct (kdo i o) as [i' e]. cbn [fst snd].
    destruct (krun_st R r_seed cls i' r) as [i'' es]. destruct e; reflexivity.
  Qed.
  Lemma kafter_cons i o r : kafter i (o :: r) = kafter (fst (kdo i o)) r.
  Proof.
    unfold Seeded.kafter. cbn [krun_st]. destruct (kdo i o) as [i' e]. cbn [fst].
    destruct (krun_st R r_seed cls i' r) as [i'' es]. reflexivity.
  Qed.
  Lemma kafter_nil i : kafter i [] = i.
  Proof. reflexivity. Qed.
  Lemma kafter_app i a b : kafter i (a ++ b) = kafter (kafter i a) b.
  Proof. revert i. induction a as [|o a IH]; intro i; [reflexivity|]. cbn [app]. rewrite !kafter_cons. apply IH. Qed.
  Lemma krun_app i a b : krun i (a ++ b) = krun i a ++ krun (kafter i a) b.
  Proof.
    revert i. induction a as [|o a IH]; intro i; [reflexivity|].
    cbn [app]. rewrite !krun_cons, kafter_cons, IH. destruct (snd (kdo i o)); reflexivity.
  Qed.

  (* configuration calls only touch the class state *)
  Lemma kafter_configs i cs :
    kafter i (map KConfig cs) = mkK (configs cs (k_st i)) (k_gen i) (k_seed i).
  Proof.
    revert i. induction cs as [|c cs IH]; intro i.
    - destruct i; reflexivity.
    - cbn [map]. rewrite kafter_cons. cbn [kdo fst]. rewrite IH. reflexivity.
  Qed.

  Lemma seed_of_after i h : k_seed (kafter i h) = seed_of (k_seed i) h.
  Proof.
    revert i. induction h as [|o h IH]; intro i; [reflexivity|].
    rewrite kafter_cons, IH. destruct o; cbn [kdo seed_of].
    - destruct (sc_step cls (k_seed i) (k_st i) (k_gen i)) as [[? ?] ?]. reflexivity.
    - destruct (sc_reset cls (k_st i) (r_seed (k_seed i))). reflexivity.
    - destruct (sc_seeded cls (k_st i) (r_seed s)). reflexivity.
    - reflexivity.
  Qed.

  (** the contract of a class whose reset() rewinds: [key] is the configuration an object carries *)
  Variable K : Type.
  Variable key : St -> K.
  Variable kcfg : Cf -> K -> K.
  Record rewinds : Prop := mkRewinds {
    (* next(), reset(), seed() leave the configuration alone; a configuration call changes it by a function of the call *)
    rw_step : forall s st g, key (snd (fst (sc_step cls s st g))) = key st;
    rw_reset_key : forall st g, key (fst (sc_reset cls st g)) = key st;
    rw_seeded_key : forall st g, key (fst (sc_seeded cls st g)) = key st;
    rw_config_key : forall c st, key (sc_config cls c st) = kcfg c (key st);
    rw_new_key : forall g g', key (fst (sc_new cls g)) = key (fst (sc_new cls g'));
    (* reset() forgets everything but the configuration ... *)
    rw_reset_canon : forall st st' g, key st = key st' -> sc_reset cls st g = sc_reset cls st' g;
    (* ... and leaves a newly constructed, configured object as the constructor + the configuration calls leave it,
       generator included (the constructor's draws are the draws reset() makes) *)
    rw_reset_new : forall cs g g',
      sc_reset cls (configs cs (fst (sc_new cls g'))) g = (configs cs (fst (sc_new cls g)), snd (sc_new cls g));
    (* seed(s) on a new object - configured or not - leaves what reset() leaves: a seeded instance is reproducible from
       its first value, whatever throw-away seed its constructor had drawn *)
    rw_seeded_new : forall cs g g',
      sc_seeded cls (configs cs (fst (sc_new cls g'))) g = sc_reset cls (configs cs (fst (sc_new cls g'))) g
  }.
  Hypothesis RW : rewinds.

  Definition key_of (k : K) (h : list (kop Cf)) : K := fold_left (fun k c => kcfg c k) (configs_of h) k.

  Lemma key_configs cs st : key (configs cs st) = fold_left (fun k c => kcfg c k) cs (key st).
  Proof.
    revert st. induction cs as [|c cs IH]; intro st; [reflexivity|].
    unfold Seeded.configs in *. cbn [fold_left]. rewrite IH, (rw_config_key RW). reflexivity.
  Qed.

  Lemma key_after i h : key (k_st (kafter i h)) = key_of (key (k_st i)) h.
  Proof.
    revert i. induction h as [|o h IH]; intro i; [reflexivity|].
    rewrite kafter_cons, IH. unfold key_of. destruct o; cbn [kdo configs_of fold_left].
    - pose proof (rw_step RW (k_seed i) (k_st i) (k_gen i)) as E.
      destruct (sc_step cls (k_seed i) (k_st i) (k_gen i)) as [[? ?] ?]. cbn [fst snd k_st] in *. rewrite E. reflexivity.
    - pose proof (rw_reset_key RW (k_st i) (r_seed (k_seed i))) as E.
      destruct (sc_reset cls (k_st i) (r_seed (k_seed i))). cbn [fst k_st] in *. rewrite E. reflexivity.
    - pose proof (rw_seeded_key RW (k_st i) (r_seed s)) as E.
      destruct (sc_seeded cls (k_st i) (r_seed s)). cbn [fst k_st] in *. rewrite E. reflexivity.
    - cbn [fst k_st]. rewrite (rw_config_key RW). reflexivity.
  Qed.

  (** "a newly constructed instance with seed s, configured by the calls cs" *)
  Definition canonical (s : Z) (cs : list Cf) : kinst R St := kafter (knew s) (map KConfig cs).

  Lemma canonical_eq s cs :
    canonical s cs = mkK (configs cs (fst (sc_new cls (r_seed s)))) (snd (sc_new cls (r_seed s))) s.
  Proof.
    unfold canonical. rewrite kafter_configs. unfold Seeded.knew. destruct (sc_new cls (r_seed s)). reflexivity.
  Qed.

  (* reset() in a state that carries the configuration of the calls cs *)
  Lemma reset_of_key (i : kinst R St) cs g0 :
    key (k_st i) = key (configs cs (fst (sc_new cls g0))) ->
    fst (kdo i KReset) = canonical (k_seed i) cs.
  Proof.
    intro E. rewrite canonical_eq. cbn [kdo].
    rewrite (rw_reset_canon RW _ _ _ E), (rw_reset_new RW). reflexivity.
  Qed.

  (** MAIN: whatever the history h (next / reset / seed / configuration calls in any order and number, from a new
      object with any throw-away seed s0), reset() leaves exactly the newly constructed object with the seed in force,
      configured by the configuration calls of the history - state, generator and stored seed *)
  Theorem reset_is_fresh s0 h :
    fst (kdo (kafter (knew s0) h) KReset) = canonical (seed_of s0 h) (configs_of h).
  Proof.
    assert (Hs : k_seed (knew s0) = s0) by (unfold Seeded.knew; destruct (sc_new cls (r_seed s0)); reflexivity).
    replace (seed_of s0 h) with (k_seed (kafter (knew s0) h)) by (rewrite seed_of_after, Hs; reflexivity).
    apply (reset_of_key _ _ (r_seed s0)).
    rewrite key_after, key_configs. unfold key_of, Seeded.knew.
    destruct (sc_new cls (r_seed s0)). reflexivity.
  Qed.

  (** hence the outputs after reset() are the outputs of that new instance, for every later script *)
  Theorem reset_outputs s0 h post :
    krun (knew s0) (h ++ KReset :: post) = krun (knew s0) h ++ krun (canonical (seed_of s0 h) (configs_of h)) post.
  Proof. rewrite krun_app, krun_cons. cbn [kdo snd]. rewrite <- reset_is_fresh.
         cbn [kdo]. destruct (sc_reset cls _ _). reflexivity. Qed.

  (** P(args) [configured] .seed(s), consumed straight away, IS the instance reset() later reproduces - whatever the
      constructor's throw-away seed s0 was: configuration calls before the seed() ... *)
  Theorem seeded_new_is_canonical s0 s cs :
    kafter (knew s0) (map KConfig cs ++ [KSeed s]) = canonical s cs.
  Proof.
    rewrite kafter_app, kafter_configs, kafter_cons, kafter_nil. cbn [kdo fst k_st k_gen k_seed].
    rewrite canonical_eq. unfold Seeded.knew. destruct (sc_new cls (r_seed s0)) as [st0 g0] eqn:E0. cbn [k_st].
    replace st0 with (fst (sc_new cls (r_seed s0))) by (rewrite E0; reflexivity).
    rewrite (rw_seeded_new RW), (rw_reset_new RW). reflexivity.
  Qed.

  (* ... and two such instances agree on every script, and with what reset() gives after any history *)
  Theorem seeded_instances_agree s0 s0' s cs ops :
    krun (kafter (knew s0) (map KConfig cs ++ [KSeed s])) ops = krun (kafter (knew s0') (map KConfig cs ++ [KSeed s])) ops.
  Proof. rewrite !seeded_new_is_canonical. reflexivity. Qed.

  (* a history of next() and reset() only *)
  Definition plain (h : list (kop Cf)) : Prop :=
    Forall (fun o => match o with KNext | KReset => True | _ => False end) h.
  Lemma seed_of_app s (a b : list (kop Cf)) : seed_of s (a ++ b) = seed_of (seed_of s a) b.
  Proof. revert s. induction a as [|o a IH]; intro s; [reflexivity|]. destruct o; cbn [app seed_of]; apply IH. Qed.
  Lemma configs_of_app (a b : list (kop Cf)) : configs_of (a ++ b) = configs_of a ++ configs_of b.
  Proof. induction a as [|o a IH]; [reflexivity|]. destruct o; cbn [app configs_of]; rewrite IH; reflexivity. Qed.
  Lemma configs_of_map cs : configs_of (map (@KConfig Cf) cs) = cs.
  Proof. induction cs as [|c cs IH]; [reflexivity|]. cbn [map configs_of]. rewrite IH. reflexivity. Qed.
  Lemma seed_of_map s cs : seed_of s (map (@KConfig Cf) cs) = s.
  Proof. induction cs as [|c cs IH]; [reflexivity|]. exact IH. Qed.
  Lemma plain_seed s h : plain h -> seed_of s h = s.
  Proof. induction 1 as [|o h Ho _ IH]; [reflexivity|]. destruct o; cbn [seed_of]; try contradiction; exact IH. Qed.
  Lemma plain_configs h : plain h -> configs_of h = [].
  Proof. induction 1 as [|o h Ho _ IH]; [reflexivity|]. destruct o; cbn [configs_of]; try contradiction; exact IH. Qed.

  (** the three-way statement of C04 for a seeded instance: what P(args)[.config...].seed(s) is when it is consumed
      straight away = what reset() reproduces after ANY number of next() / reset() calls on it *)
  Theorem seeded_then_reset s0 s cs h : plain h ->
    fst (kdo (kafter (kafter (knew s0) (map KConfig cs ++ [KSeed s])) h) KReset) = kafter (knew s0) (map KConfig cs ++ [KSeed s]).
  Proof.
    intro Hp. rewrite <- kafter_app, reset_is_fresh, seeded_new_is_canonical.
    rewrite !seed_of_app, !configs_of_app, seed_of_map, configs_of_map, (plain_seed _ _ Hp), (plain_configs _ Hp).
    cbn [seed_of configs_of]. rewrite !app_nil_r. reflexivity.
  Qed.

  (** seed(s) BEFORE the configuration calls: the same instance, for a class whose seed() commutes with its
      configuration method *)
  Theorem seed_first_is_canonical s0 s cs :
    (forall c st g, sc_seeded cls (sc_config cls c st) g = (sc_config cls c (fst (sc_seeded cls st g)), snd (sc_seeded cls st g))) ->
    kfresh s0 s cs = canonical s cs.
  Proof.
    intro Hc. rewrite <- (seeded_new_is_canonical s0). unfold Seeded.kfresh.
    rewrite kafter_app, !kafter_configs, !kafter_cons, kafter_nil, kafter_configs. cbn [kdo fst k_st k_gen k_seed].
    generalize (k_st (knew s0)) as st. induction cs as [|c cs IH]; intro st.
    - unfold Seeded.configs. cbn [fold_left]. destruct (sc_seeded cls st (r_seed s)). reflexivity.
    - unfold Seeded.configs in *. cbn [fold_left]. rewrite <- (IH (sc_config cls c st)). rewrite Hc.
      destruct (sc_seeded cls st (r_seed s)). reflexivity.
  Qed.
End Generic.

(** * The contract, class by class *)
Section Classes.
  Variable R : Type.
  Variable r_unit : R -> Z * R.
  Variable r_below : Z -> R -> Z * R.
  Variable r_seed : Z -> R.

  Lemma configs_id {St} (cls : sclass R St unit) : (forall c st, sc_config cls c st = st) ->
    forall cs st, configs R cls cs st = st.
  Proof.
    intros H cs. induction cs as [|c cs IH]; intro st; [reflexivity|].
    unfold configs in *. cbn [fold_left]. rewrite H. apply IH.
  Qed.

  (** every machine of Pat/Chance.v (PWhite PBrown PCoin PFlipFlop PSkip PRandomWalk PChoice PSample PShuffle
      PShuffleInput PSwitchOne PMarkov) *)
  Lemma machine_rewinds {St} (m : machine R St) :
    rewinds R St unit (of_machine R m) unit (fun _ => tt) (fun _ k => k).
  Proof.
    constructor; intros; try reflexivity;
      rewrite ?(configs_id (of_machine R m)) by reflexivity; reflexivity.
  Qed.

  (** PArpeggiator(notes, RANDOM, loop) *)
  Lemma arp_rewinds notes loop :
    rewinds R arp_state unit (arp_random R r_below r_seed notes loop) unit (fun _ => tt) (fun _ k => k).
  Proof.
    constructor; intros; try reflexivity.
    - rewrite !(configs_id (arp_random R r_below r_seed notes loop)) by reflexivity.
      cbn [sc_reset sc_new arp_random]. unfold arp_reset, arp_new.
      destruct (arp_restart R r_below notes g). reflexivity.
    - rewrite !(configs_id (arp_random R r_below r_seed notes loop)) by reflexivity.
      cbn [sc_reset sc_seeded sc_new arp_random]. unfold arp_reset, arp_seeded, arp_new.
      destruct (arp_restart R r_below notes g') as [o' g1]. cbn [fst ar_pos].
      destruct (arp_restart R r_below notes g). reflexivity.
  Qed.

  (** PRandomImpulseSequence(probability, length) with every(n, action) *)
  Definition imp_key (st : imp_state) : Z * eaction := (im_ecount st, im_eact st).

  Lemma imp_every_key prob len seed st g st' g' :
    imp_every R r_unit r_below r_seed prob len seed st g = (Some st', g') -> imp_key st' = imp_key st.
  Proof.
    unfold imp_every. destruct (im_eact st) eqn:Ea; intro H.
    - inversion H; subst; reflexivity.
    - destruct (im_eidx st =? im_ecount st).
      + unfold imp_generate in H. destruct (draw_bits R r_unit prob (Z.to_nat len) g). inversion H; subst.
        unfold imp_key; cbn. rewrite Ea. reflexivity.
      + inversion H; subst. reflexivity.
    - destruct (im_eidx st =? im_ecount st).
      + destruct (imp_explore R r_unit r_below (im_values st) g) as [[v|] g1]; inversion H; subst. reflexivity.
      + inversion H; subst. reflexivity.
    - destruct (im_eidx st =? im_ecount st); inversion H; subst; unfold imp_key; cbn; rewrite ?Ea; reflexivity.
    - destruct (im_eidx st =? im_ecount st); inversion H; subst; reflexivity.
  Qed.

  Lemma imp_read_key prob len st g : imp_key (snd (fst (imp_read R r_unit prob len st g))) = imp_key st.
  Proof.
    unfold imp_read.
    destruct (zlen (im_values st) <=? im_pos st).
    - destruct (zlen (im_values st) <? len).
      + destruct (draw_bits R r_unit prob (Z.to_nat (len - zlen (im_values st))) g) as [d g1].
        match goal with |- context [pyidx ?a ?b] => destruct (pyidx a b) end; reflexivity.
      + match goal with |- context [pyidx ?a ?b] => destruct (pyidx a b) end; reflexivity.
    - destruct (pyidx (im_values st) (im_pos st)); reflexivity.
  Qed.

  Lemma imp_reset_fixed cs g : forall st,
    im_values st = [] -> im_pos st = 0 -> im_cur st = 0 -> im_eidx st = 0 ->
    imp_reset R (configs R (impulse_seq R r_unit r_below r_seed 0 0) cs st) g =
    (configs R (impulse_seq R r_unit r_below r_seed 0 0) cs st, g).
  Proof.
    induction cs as [|c cs IH]; intros st Hv Hp Hc He.
    - unfold configs. cbn [fold_left]. destruct st; cbn in *; subst. reflexivity.
    - unfold configs in *. cbn [fold_left]. apply IH; cbn; assumption || reflexivity.
  Qed.

  Lemma impulse_rewinds prob len :
    rewinds R imp_state (Z * eaction) (impulse_seq R r_unit r_below r_seed prob len) (Z * eaction) imp_key (fun c _ => c).
  Proof.
    constructor; intros; try reflexivity.
    - cbn [sc_step impulse_seq]. unfold imp_step.
      destruct (imp_every R r_unit r_below r_seed prob len s st g) as [[st1|] g1] eqn:E; [|reflexivity].
      rewrite imp_read_key. eapply imp_every_key; eauto.
    - destruct c; reflexivity.
    - cbn [sc_reset impulse_seq]. unfold imp_reset. unfold imp_key in H. inversion H. reflexivity.
    - cbn [sc_reset sc_new impulse_seq fst snd imp_new].
      change (configs R (impulse_seq R r_unit r_below r_seed prob len)) with (configs R (impulse_seq R r_unit r_below r_seed 0 0)).
      apply imp_reset_fixed; reflexivity.
    - cbn [sc_reset sc_seeded sc_new impulse_seq fst snd imp_new].
      change (configs R (impulse_seq R r_unit r_below r_seed prob len)) with (configs R (impulse_seq R r_unit r_below r_seed 0 0)).
      symmetry. apply imp_reset_fixed; reflexivity.
  Qed.

  (* every(n, action) twice: the last call wins, so "identically configured" = the last every() call *)
  Lemma imp_config_last prob len c cs st :
    imp_key (configs R (impulse_seq R r_unit r_below r_seed prob len) (cs ++ [c]) st) = c.
  Proof.
    unfold configs. rewrite fold_left_app. cbn [fold_left sc_config impulse_seq]. destruct c; reflexivity.
  Qed.
End Classes.

(* Pat/SessionProofs.v — in a session (Pat/Session.v) every object produces what it produces alone; the looping
   arrangements of the arpeggiator. *)
From Isobar Require Import Base.Prelude Pat.Val Pat.Syntax Pat.Step Pat.Ref Pat.RefProofs Pat.Session.
From Coq Require Import String Permutation.
Open Scope Z_scope.

Lemma sp_upd_length {A} (x : A) : forall l i, List.length (update_nth i x l) = List.length l.
Proof. induction l as [|y l IH]; intros [|i]; cbn; try reflexivity. rewrite IH. reflexivity. Qed.
Lemma sp_upd_eq {A} (x : A) : forall l i, (i < List.length l)%nat -> nth_error (update_nth i x l) i = Some x.
Proof. induction l as [|y l IH]; intros [|i] H; cbn in *; try lia; [reflexivity|]. apply IH. lia. Qed.
Lemma sp_upd_neq {A} (x : A) : forall l i j, i <> j -> nth_error (update_nth i x l) j = nth_error l j.
Proof. induction l as [|y l IH]; intros [|i] [|j] H; cbn; try reflexivity; try congruence. apply IH. congruence. Qed.

Section Isolation.
  Variables Prog Obj Out : Type.
  Variable build : Prog -> option Obj.
  Variable onext : Obj -> Out * Obj.
  Variable oreset : Obj -> Obj.
  Notation sess_run := (sess_run Prog Obj Out build onext oreset).
  Notation alone := (alone Obj Out onext oreset).
  Notation sess_proj := (sess_proj Prog).
  Notation sess_prog := (sess_prog Prog).
  Notation outputs_of := (outputs_of Out).

  (* object i of a session in state w followed by ops: the one that exists, or the one ops will construct *)
  Definition behaves (w : list (option Obj)) (ops : list (sess_op Prog)) (i : nat) : list Out :=
    match nth_error w i with
    | Some (Some x) => alone x (sess_proj i (List.length w) ops)
    | Some None => []
    | None => match sess_prog (i - List.length w) ops with
              | Some p => match build p with
                          | Some x => alone x (sess_proj i (List.length w) ops)
                          | None => []
                          end
              | None => []
              end
    end.

  Lemma isolation_from : forall ops w i, outputs_of i (sess_run w ops) = behaves w ops i.
  Proof.
    induction ops as [|o ops IH]; intros w i.
    - unfold behaves. cbn. destruct (nth_error w i) as [[x|]|]; reflexivity.
    - destruct o as [p|j|j]; cbn [Session.sess_run Session.sess_step].
      + rewrite IH. unfold behaves. rewrite app_length. cbn [List.length]. rewrite Nat.add_1_r.
        destruct (Nat.lt_trichotomy i (List.length w)) as [Hlt|[Heq|Hgt]].
        * rewrite nth_error_app1 by exact Hlt. destruct (nth_error w i) as [[x|]|] eqn:E; try reflexivity.
          apply nth_error_None in E. lia.
        * subst i. rewrite nth_error_app2 by lia. rewrite Nat.sub_diag. cbn [nth_error].
          assert (nth_error w (List.length w) = None) as -> by (apply nth_error_None; lia).
          cbn [Session.sess_prog Session.sess_proj]. destruct (build p); reflexivity.
        * rewrite nth_error_app2 by lia.
          assert (nth_error w i = None) as -> by (apply nth_error_None; lia).
          destruct (i - List.length w)%nat as [|k] eqn:Ek; [lia|].
          replace (i - S (List.length w))%nat with k by lia.
          destruct k; cbn [nth_error Session.sess_prog Session.sess_proj]; reflexivity.
      + destruct (nth_error w j) as [[x|]|] eqn:Ej.
        * destruct (onext x) as [v x'] eqn:Ex. cbn [Session.outputs_of]. rewrite IH. unfold behaves.
          rewrite sp_upd_length. cbn [Session.sess_proj].
          destruct (Nat.eqb j i) eqn:Eji.
          -- apply Nat.eqb_eq in Eji. subst j. rewrite sp_upd_eq by (apply nth_error_Some; congruence).
             rewrite Ej. assert (Nat.ltb i (List.length w) = true) as -> by (apply Nat.ltb_lt, nth_error_Some; congruence).
             cbn [andb Session.alone]. rewrite Ex. reflexivity.
          -- apply Nat.eqb_neq in Eji. rewrite sp_upd_neq by exact Eji. cbn [andb]. reflexivity.
        * rewrite IH. unfold behaves. cbn [Session.sess_proj].
          destruct (Nat.eqb j i) eqn:Eji; [|reflexivity]. apply Nat.eqb_eq in Eji. subst j. rewrite Ej. reflexivity.
        * rewrite IH. unfold behaves. cbn [Session.sess_proj].
          destruct (Nat.eqb j i) eqn:Eji; [|reflexivity]. apply Nat.eqb_eq in Eji. subst j.
          assert (Nat.ltb i (List.length w) = false) as -> by (apply Nat.ltb_ge, nth_error_None; exact Ej).
          reflexivity.
      + destruct (nth_error w j) as [[x|]|] eqn:Ej.
        * rewrite IH. unfold behaves. rewrite sp_upd_length. cbn [Session.sess_proj].
          destruct (Nat.eqb j i) eqn:Eji.
          -- apply Nat.eqb_eq in Eji. subst j. rewrite sp_upd_eq by (apply nth_error_Some; congruence).
             rewrite Ej. assert (Nat.ltb i (List.length w) = true) as -> by (apply Nat.ltb_lt, nth_error_Some; congruence).
             reflexivity.
          -- apply Nat.eqb_neq in Eji. rewrite sp_upd_neq by exact Eji. reflexivity.
        * rewrite IH. unfold behaves. cbn [Session.sess_proj].
          destruct (Nat.eqb j i) eqn:Eji; [|reflexivity]. apply Nat.eqb_eq in Eji. subst j. rewrite Ej. reflexivity.
        * rewrite IH. unfold behaves. cbn [Session.sess_proj].
          destruct (Nat.eqb j i) eqn:Eji; [|reflexivity]. apply Nat.eqb_eq in Eji. subst j.
          assert (Nat.ltb i (List.length w) = false) as -> by (apply Nat.ltb_ge, nth_error_None; exact Ej).
          reflexivity.
  Qed.

  (** the outputs of the i-th object constructed in ANY session are those of the same program built and driven alone *)
  Theorem session_isolation ops i :
    outputs_of i (sess_run [] ops) =
    match sess_prog i ops with
    | Some p => match build p with Some x => alone x (sess_proj i 0 ops) | None => [] end
    | None => []
    end.
  Proof. rewrite isolation_from. unfold behaves. destruct i; cbn [nth_error List.length]; rewrite ?Nat.sub_0_r; reflexivity. Qed.

  (** hence they do not depend on the other programs of the session, nor on the interleaving *)
  Corollary session_independent ops ops' i :
    sess_prog i ops = sess_prog i ops' -> sess_proj i 0 ops = sess_proj i 0 ops' ->
    outputs_of i (sess_run [] ops) = outputs_of i (sess_run [] ops').
  Proof. intros E1 E2. rewrite !session_isolation, E1, E2. reflexivity. Qed.
End Isolation.

(** * the arpeggiator's looping arrangements *)
Lemma arp_offsets_noloop ty n : arp_offsets_loop ty n false = arp_offsets ty n.
Proof. unfold arp_offsets_loop. destruct (arp_offsets ty n); reflexivity. Qed.

(* the types whose arrangement does not depend on `loop` *)
Lemma arp_offsets_loop_same ty n loop :
  ty <> ARP_UPDOWN -> ty <> ARP_DOWNUP -> ty <> ARP_ROOTBOUNCE -> arp_offsets_loop ty n loop = arp_offsets ty n.
Proof.
  intros H1 H2 H3. unfold arp_offsets_loop. destruct (arp_offsets ty n); [|reflexivity]. destruct loop; [|reflexivity].
  destruct (ty =? ARP_UPDOWN) eqn:E1; [lia|]. destruct (ty =? ARP_DOWNUP) eqn:E2; [lia|].
  destruct (ty =? ARP_ROOTBOUNCE) eqn:E3; [lia|]. reflexivity.
Qed.

(* "smooth loop": played round and round, no entry is followed by itself - also not across the joint *)
Fixpoint no_repeat_from (prev : Z) (l : list Z) : bool :=
  match l with
  | [] => true
  | x :: r => negb (x =? prev) && no_repeat_from x r
  end.
Definition smooth_cycle (l : list Z) : bool :=
  match l with
  | [] => false
  | x :: r => no_repeat_from x (r ++ [x])
  end.
Definition loop_doc_ok (n : nat) : bool :=
  let up := zseq n in
  (* UPDOWN: up, then down without either turning point; DOWNUP its mirror image *)
  option_eqb zl_eqb (arp_offsets_loop ARP_UPDOWN n true) (Some (up ++ tl (removelast (rev up)))) &&
  option_eqb zl_eqb (arp_offsets_loop ARP_DOWNUP n true) (Some (rev up ++ tl (removelast up))) &&
  match arp_offsets_loop ARP_UPDOWN n true, arp_offsets_loop ARP_DOWNUP n true with
  | Some a, Some b => smooth_cycle a && smooth_cycle b
  | _, _ => false
  end &&
  (* ROOTBOUNCE (3 notes or more): root, note, root, note ... - every other entry is the root, round the joint too *)
  ((n <? 3)%nat ||
   match arp_offsets_loop ARP_ROOTBOUNCE n true with
   | Some c => smooth_cycle c && Nat.even (List.length c) &&
               forallb (fun i => nth i c 1 =? 0) (map (fun k => 2 * k)%nat (seq 0 (List.length c / 2)))
   | None => false
   end).

Lemma arp_loop_doc : forall n, (2 <= n <= 8)%nat -> loop_doc_ok n = true.
Proof.
  assert (H : forallb loop_doc_ok (seq 2 7) = true) by (vm_compute; reflexivity).
  intros n Hn. rewrite forallb_forall in H. apply H. apply in_seq. lia.
Qed.

(** * the looping arpeggiator is periodic: call j yields the note selected by entry (j mod L) of its arrangement *)
Definition arp_sel (x : arp_obj) (k : nat) : outcome val :=
  match py_index (ao_offsets x) (Z.of_nat k) with
  | Some o => match py_index (ao_notes x) o with Some v => Yield (VInt v) | None => Raise IndexError end
  | None => Raise IndexError
  end.

Definition with_pos (x : arp_obj) (p : Z) : arp_obj := mkArpObj (ao_ty x) (ao_notes x) (ao_loop x) (ao_offsets x) p.

(* a looping arpeggiator in working order: some notes, the arrangement restart() computes for them, every entry of it an
   index into the chord (Python: -n <= o < n), and for the one-cycle types no more entries than notes *)
Definition arp_cyclic (x : arp_obj) : bool :=
  let n := Z.of_nat (List.length (ao_notes x)) in
  let L := Z.of_nat (List.length (ao_offsets x)) in
  ao_loop x && (0 <? n) && (0 <? L) &&
  option_eqb zl_eqb (arp_offsets_loop (ao_ty x) (List.length (ao_notes x)) true) (Some (ao_offsets x)) &&
  forallb (fun o => (- n <=? o) && (o <? n)) (ao_offsets x) &&
  ((5 <? ao_ty x) || (L <=? n)).

Lemma zl_eqb_eq : forall a b, zl_eqb a b = true -> a = b.
Proof.
  induction a as [|x a IH]; intros [|y b] H; cbn in H; try discriminate; [reflexivity|].
  apply andb_true_iff in H as [H1 H2]. apply Z.eqb_eq in H1. subst. f_equal. apply IH. exact H2.
Qed.

Lemma py_index_in_range {A} (l : list A) i :
  - Z.of_nat (List.length l) <= i < Z.of_nat (List.length l) -> exists v, py_index l i = Some v.
Proof.
  intro H. unfold py_index.
  destruct ((0 <=? i) && (i <? Z.of_nat (List.length l))) eqn:E1.
  - destruct (nth_error l (Z.to_nat i)) eqn:E; [eauto|]. apply nth_error_None in E. lia.
  - destruct ((- Z.of_nat (List.length l) <=? i) && (i <? 0)) eqn:E2; [|lia].
    destruct (nth_error l (Z.to_nat (Z.of_nat (List.length l) + i))) eqn:E; [eauto|]. apply nth_error_None in E. lia.
Qed.

Lemma arp_next_nonempty y : ao_notes y <> [] ->
  arp_next y = if arp_fits y then arp_yield y
               else if ao_loop y then let x' := arp_reset y in if arp_fits x' then arp_yield x' else (Stop, x')
               else (Stop, y).
Proof. intro H. unfold arp_next. destruct (ao_notes y); [congruence|reflexivity]. Qed.

Section Periodic.
  Variable x : arp_obj.
  Hypothesis C : arp_cyclic x = true.
  Let L := Z.of_nat (List.length (ao_offsets x)).

  Lemma cyc_facts :
    ao_loop x = true /\ ao_notes x <> [] /\ 0 < L /\
    (forall p, arp_reset (with_pos x p) = with_pos x 0) /\
    (forall p, 0 <= p < L -> arp_fits (with_pos x p) = true) /\
    (forall p, 0 <= p < L -> exists v, arp_yield (with_pos x p) = (Yield (VInt v), with_pos x (p + 1)) /\ arp_sel x (Z.to_nat p) = Yield (VInt v)).
  Proof.
    unfold arp_cyclic in C. repeat (apply andb_true_iff in C as [C ?]).
    split; [assumption|]. split; [intro E; rewrite E in *; cbn in *; lia|]. split; [unfold L; lia|].
    assert (Hoffs : arp_offsets_loop (ao_ty x) (List.length (ao_notes x)) true = Some (ao_offsets x)).
    { destruct (arp_offsets_loop (ao_ty x) (List.length (ao_notes x)) true) as [o|]; cbn in *; [|discriminate].
      f_equal. apply zl_eqb_eq. assumption. }
    split; [|split].
    - intro p. unfold arp_reset, with_pos. cbn [ao_ty ao_notes ao_loop ao_offsets]. rewrite C, Hoffs. reflexivity.
    - intros p Hp. unfold arp_fits, with_pos. cbn [ao_ty ao_notes ao_loop ao_offsets ao_pos]. unfold L in *.
      apply andb_true_iff; split; [apply Z.ltb_lt; exact (proj2 Hp)|]. apply orb_true_iff.
      match goal with Hg : (5 <? ao_ty x) || _ = true |- _ => apply orb_true_iff in Hg as [Hg|Hg]; [right; exact Hg|left; apply Z.ltb_lt; apply Z.leb_le in Hg; eapply Z.lt_le_trans; [exact (proj2 Hp)|exact Hg]] end.
    - intros p Hp. unfold arp_yield, arp_sel, with_pos. cbn [ao_ty ao_notes ao_loop ao_offsets ao_pos].
      rewrite Z2Nat.id by lia.
      destruct (py_index_in_range (ao_offsets x) p) as (o & Eo); [fold L; lia|]. rewrite Eo.
      assert (Ho : In o (ao_offsets x)).
      { unfold py_index in Eo. destruct ((0 <=? p) && (p <? Z.of_nat (List.length (ao_offsets x)))); [eapply nth_error_In; eauto|].
        destruct ((- Z.of_nat (List.length (ao_offsets x)) <=? p) && (p <? 0)); [eapply nth_error_In; eauto|discriminate]. }
      match goal with Hf : forallb _ (ao_offsets x) = true |- _ => rewrite forallb_forall in Hf; specialize (Hf o Ho) end.
      destruct (py_index_in_range (ao_notes x) o) as (v & Ev); [lia|]. rewrite Ev. exists v. split; reflexivity.
  Qed.

  (* where the object stands after j calls: entry j mod L, or - at the end of a cycle - one past the last entry *)
  Definition pos_after (j : nat) : Z := if (Z.of_nat j mod L =? 0) && (0 <? Z.of_nat j) then L else Z.of_nat j mod L.

  Lemma arp_next_cyclic j :
    arp_next (with_pos x (pos_after j)) = (arp_sel x (Z.to_nat (Z.of_nat j mod L)), with_pos x (pos_after (S j))).
  Proof.
    destruct cyc_facts as (Hloop & Hne & HL & Hres & Hfit & Hy).
    assert (Hm : 0 <= Z.of_nat j mod L < L) by (apply Z.mod_pos_bound; exact HL).
    assert (Hnext : pos_after (S j) = Z.of_nat j mod L + 1).
    { unfold pos_after. replace (Z.of_nat (S j)) with (Z.of_nat j + 1) by lia.
      assert (0 <? Z.of_nat j + 1 = true) as -> by (apply Z.ltb_lt; lia). rewrite andb_true_r.
      rewrite <- Zplus_mod_idemp_l.
      destruct (Z_lt_ge_dec (Z.of_nat j mod L + 1) L) as [Hlt|Hge].
      - rewrite Z.mod_small by lia. destruct (Z.of_nat j mod L + 1 =? 0) eqn:E; [apply Z.eqb_eq in E; lia|reflexivity].
      - assert (Z.of_nat j mod L + 1 = L) as -> by lia. rewrite Z_mod_same_full. reflexivity. }
    rewrite arp_next_nonempty by exact Hne.
    unfold pos_after at 1 2 3. destruct ((Z.of_nat j mod L =? 0) && (0 <? Z.of_nat j)) eqn:E.
    - (* end of a cycle: pos = L, restart *)
      assert (arp_fits (with_pos x L) = false) as ->.
      { unfold arp_fits, with_pos. cbn [ao_pos ao_offsets]. fold L. lia. }
      change (ao_loop (with_pos x L)) with (ao_loop x). rewrite Hloop, Hres, (Hfit 0) by lia.
      destruct (Hy 0) as (v & E1 & E2); [lia|]. rewrite E1. assert (Z.of_nat j mod L = 0) as E0 by lia.
      rewrite E0. cbn [Z.to_nat]. rewrite <- E2, Hnext, E0. reflexivity.
    - assert (Hp : pos_after j = Z.of_nat j mod L) by (unfold pos_after; rewrite E; reflexivity).
      rewrite (Hfit (Z.of_nat j mod L)) by lia.
      destruct (Hy (Z.of_nat j mod L)) as (v & E1 & E2); [lia|]. rewrite E1, E2, Hnext. reflexivity.
  Qed.

  (** call j of next() on the looping arpeggiator (counted from 0, from the state __init__ leaves) yields the note that
      entry (j mod L) of the arrangement selects: the arrangement repeated for ever *)
  Theorem arp_loop_periodic : forall n j, (j < n)%nat ->
    nth_error (arp_outputs n (with_pos x 0)) j = Some (arp_sel x (Z.to_nat (Z.of_nat j mod L))).
  Proof.
    assert (G : forall n k j, (j < n)%nat ->
              nth_error (arp_outputs n (with_pos x (pos_after k))) j = Some (arp_sel x (Z.to_nat (Z.of_nat (k + j) mod L)))).
    { induction n as [|n IH]; intros k j Hj; [lia|]. cbn [arp_outputs]. rewrite arp_next_cyclic.
      destruct j as [|j]; cbn [nth_error]; [rewrite Nat.add_0_r; reflexivity|].
      rewrite (IH (S k) j) by lia. replace (S k + j)%nat with (k + S j)%nat by lia. reflexivity. }
    intros n j Hj. specialize (G n O j Hj).
    assert (E0 : pos_after 0 = 0) by (unfold pos_after; cbn [Z.of_nat]; rewrite Zmod_0_l; reflexivity).
    rewrite E0 in G. exact G.
  Qed.
End Periodic.

(* every looping arpeggiator the constructor builds over a chord of 1..8 notes is in working order (the check depends
   on the type and the number of notes only: complete enumeration) *)
Definition cyclic_built (ty : Z) (n : nat) : bool :=
  match arp_build (ty, zseq n, true) with
  | Some x => arp_cyclic x
  | None => (ty =? ARP_BUILD) && (n <? 2)%nat || (ty =? ARP_BREAK) && (n <? 2)%nat || (ty =? ARP_ROOTBOUNCE) && (n <? 3)%nat
  end.
Lemma arp_built_cyclic_enum :
  forallb (fun ty => forallb (cyclic_built ty) (seq 1 8)) [ARP_UP; ARP_DOWN; ARP_CONVERGE; ARP_DIVERGE; ARP_UPDOWN; ARP_DOWNUP; ARP_BUILD; ARP_BREAK; ARP_ROOTBOUNCE] = true.
Proof. vm_compute. reflexivity. Qed.

Definition ARP_TYPES : list Z := [ARP_UP; ARP_DOWN; ARP_CONVERGE; ARP_DIVERGE; ARP_UPDOWN; ARP_DOWNUP; ARP_BUILD; ARP_BREAK; ARP_ROOTBOUNCE].

Lemma arp_cyclic_len ty s s' lp offs p : List.length s = List.length s' ->
  arp_cyclic (mkArpObj ty s lp offs p) = arp_cyclic (mkArpObj ty s' lp offs p).
Proof. intro E. unfold arp_cyclic. cbn [ao_ty ao_notes ao_loop ao_offsets]. rewrite E. reflexivity. Qed.

Lemma zseq_length n : List.length (zseq n) = n.
Proof. unfold zseq. rewrite map_length, seq_length. reflexivity. Qed.

(** every looping arpeggiator that the constructor builds over a chord of 1..8 notes (any note values) is in working
    order, so arp_loop_periodic applies to it *)
Lemma arp_built_cyclic ty notes x : In ty ARP_TYPES -> (1 <= List.length notes <= 8)%nat ->
  arp_build (ty, notes, true) = Some x -> arp_cyclic x = true.
Proof.
  intros Hty Hn Hb. pose proof arp_built_cyclic_enum as En. fold ARP_TYPES in En.
  rewrite forallb_forall in En. specialize (En ty Hty). rewrite forallb_forall in En.
  specialize (En (List.length notes)). assert (Hin : In (List.length notes) (seq 1 8)) by (apply in_seq; lia).
  specialize (En Hin). unfold cyclic_built, arp_build in *.
  assert (L1 : List.length (sort_notes notes) = List.length notes) by (apply Permutation_length, sort_notes_perm).
  assert (L2 : List.length (sort_notes (zseq (List.length notes))) = List.length notes)
    by (rewrite (Permutation_length (sort_notes_perm _)); apply zseq_length).
  rewrite L2 in En. rewrite L1 in Hb.
  destruct (arp_offsets_loop ty (List.length notes) true) as [offs|]; [|discriminate].
  inversion Hb; subst x. rewrite (arp_cyclic_len ty _ (sort_notes (zseq (List.length notes)))) by congruence. exact En.
Qed.

(* Pat/Syntax.v — deep embedding of isobar's pattern library ("engine P").

   [pexpr]  constructor-call syntax: [ECall CStutter [EP e; EV (VInt 2)]] is the Python expression
            PStutter(e, 2).  Arguments are scalars, expressions, tuples, lists or dicts of arguments.
   [pat]    the object a constructor call creates: the same tree, every node carrying the instance
            attributes of its class exactly as __init__ leaves them (and as __next__ mutates them).
            Attribute names are kept.  An attribute that the class resolves with Pattern.value() or
            next(), or that Pattern.reset's walk over vars(self) can reach, is an [arg]; an attribute the
            class uses as a plain Python value is a [val] (passing a pattern there is outside the model).
   [arg]    what an attribute can hold: a plain value, a pattern object, a tuple / list / dict whose
            items may again be patterns.

   The model is a TREE: a program in which one pattern object is reachable from two parents has no
   image here (the harness never builds one).

   Adding a class = one constructor of [cls], one of [pat], one clause in each of
   Step.construct / Step.step / Step.reset; existing clauses are not touched.  No proofs here. *)
From Isobar Require Import Base.Prelude Pat.Val.
From Coq Require Import String.

(** functions a PMap-family pattern applies (the catalogue shared with the harness) *)
Inductive fn :=
| FRound           (* PRound.round: None -> None, else round(value, *args) *)
.

(** classes *)
Inductive cls :=
| CConstant | CRef | CConcatenate | CAbs | CInt | CBinOp (o : op) | CAnd
| CSequence | CSeries | CRange | CGeom | CImpulse | CLoop | CPingPong | CStutter | CSubsequence
| CReverse | CReset | CCounter | CCollapse | CNoRepeats | CPad | CPadToMultiple
| CChanged | CDiff | CSkipIf | CRound | CWrap | CIndexOf | CArrayIndex | CDict | CDictKey.

Inductive pexpr :=
| ECall (c : cls) (args : list earg)
with earg :=
| EV (v : val)
| EP (e : pexpr)
| ET (l : list earg)                 (* tuple *)
| EL (l : list earg)                 (* list *)
| ED (kv : list (string * earg)).    (* dict with str keys *)

Inductive pat :=
(* core.py *)
| PConstant (constant : val)
| PRef (pattern : arg)
| PConcatenate (inputs : arg) (pos : Z)
| PAbs (input : arg)
| PInt (input : arg)
| PBinOp (o : op) (a b : arg)        (* PAdd PSub PMul PDiv PFloorDiv PMod PPow PLShift PRShift PEqual PNotEqual PGreaterThan PGreaterThanOrEqual PLessThan PLessThanOrEqual *)
| PAnd (a b : arg)
| PArrayIndex (list index : arg) (exhausted : bool)   (* exhausted: repair C09-parrayindex-revives *)
| PDict (dict : arg)
| PDictKey (dict key : arg)
(* sequence.py *)
| PSequence (sequence repeats : arg) (rcount pos : Z)
| PSeries (start value : val) (step length : arg) (count : Z)
| PRange (start : val) (end_ step : arg) (value : val)
| PGeom (start value : val) (multiply : arg) (length : val) (count : Z)
| PImpulse (period : arg) (pos : Z)
| PLoop (pattern : arg) (count : val) (pos loop_index : Z) (read_all : bool) (values : list val)
| PPingPong (pattern : arg) (count : val) (values : list val) (pos dir rpos : Z)
| PStutter (pattern count : arg) (count_current : val) (pos : Z) (value : val)
| PSubsequence (pattern offset length : arg) (pos : Z) (values : list val)
| PReverse (input : arg) (values : list val)      (* values: what is left of the reversed() iterator *)
| PReset (pattern trigger : arg)
| PCounter (trigger : arg) (value : val) (count : Z)
| PCollapse (input : arg)
| PNoRepeats (input : arg) (value : val)
| PPad (pattern : arg) (length : val) (count : Z)
| PPadToMultiple (pattern : arg) (multiple minimum_pad : val) (count padcount : Z)
(* scalar.py *)
| PChanged (source : arg) (current : val)
| PDiff (source : arg) (current : val)
| PSkipIf (pattern skip : arg)
| PMap (input : arg) (operator : fn) (args : list arg) (kwargs : list (string * arg))   (* PRound ... *)
| PWrap (pattern : arg) (min max : val)
| PIndexOf (list item : arg)
with arg :=
| AV (v : val)
| AP (p : pat)
| AT (l : list arg)
| AL (l : list arg)
| AD (kv : list (string * arg)).

Definition is_none (v : val) : bool := match v with VNone => true | _ => false end.

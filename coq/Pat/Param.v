(* Pat/Param.v — vocabulary of property C12 (pattern-valued parameters) over the deep embedding.

   [vfield p i]        the i-th PARAMETER of the object p that its class resolves with Pattern.value exactly once
                       per output step (the model's side of the parameter registry: the harness compares this table
                       with the one it derives from the Python sources on every run);
   [with_vfield p i b] the same object with that parameter replaced by b;
   [konst x a]         a is the scalar x, PConstant(x), PRef(PConstant(x)) or any deeper chain of references to it;
   [driven]            the step-wise scalar reference: the parent is stepped with the parameter re-assigned by hand
                       to the next value of the parameter pattern, which is stepped separately;
   [set_pattern]       PRef.set_pattern as a state transformer;
   [nest_ref], [tres]  nestings of pattern-returning patterns / tuples containing patterns;
   [pdict_of]          the object both PDict constructor forms build.
   Definitions only; the lemmas are in Pat/ParamProofs.v. *)
From Isobar Require Import Base.Prelude Pat.Val Pat.Syntax Pat.Step.
From Coq Require Import String.
Open Scope Z_scope.

(** the parameters resolved with Pattern.value once per output step, class by class
    (block-wise: PStutter.count; loops: PCollapse.input, PNoRepeats.input; list-valued: PMap.args, PDict — see
    ParamProofs.v for their own laws) *)
Definition vfield (p : pat) (i : nat) : option arg :=
  match p, i with
  | PAbs input, O => Some input
  | PInt input, O => Some input
  | PBinOp _ a _, O => Some a
  | PBinOp _ _ b, S O => Some b
  | PAnd a _, O => Some a
  | PAnd _ b, S O => Some b
  | PArrayIndex _ index _, O => Some index
  | PDictKey _ key, O => Some key
  | PSequence _ repeats _ _, O => Some repeats
  | PSeries _ _ stp _ _, O => Some stp
  | PSeries _ _ _ length _, S O => Some length
  | PRange _ end_ _ _, O => Some end_
  | PRange _ _ stp _, S O => Some stp
  | PGeom _ _ multiply _ _, O => Some multiply
  | PImpulse period _, O => Some period
  | PSubsequence _ offset _ _ _, O => Some offset
  | PSubsequence _ _ length _ _, S O => Some length
  | PChanged source _, O => Some source
  | PDiff source _, O => Some source
  | PSkipIf pattern _, O => Some pattern
  | PSkipIf _ skip, S O => Some skip
  | PIndexOf _ item, O => Some item
  | _, _ => None
  end.

Definition with_vfield (p : pat) (i : nat) (x : arg) : pat :=
  match p, i with
  | PAbs _, O => PAbs x
  | PInt _, O => PInt x
  | PBinOp o _ b, O => PBinOp o x b
  | PBinOp o a _, S O => PBinOp o a x
  | PAnd _ b, O => PAnd x b
  | PAnd a _, S O => PAnd a x
  | PArrayIndex l _ e, O => PArrayIndex l x e
  | PDictKey d _, O => PDictKey d x
  | PSequence s _ rc pos, O => PSequence s x rc pos
  | PSeries st v _ length c, O => PSeries st v x length c
  | PSeries st v stp _ c, S O => PSeries st v stp x c
  | PRange st _ stp v, O => PRange st x stp v
  | PRange st e _ v, S O => PRange st e x v
  | PGeom st v _ length c, O => PGeom st v x length c
  | PImpulse _ pos, O => PImpulse x pos
  | PSubsequence pt _ length pos vs, O => PSubsequence pt x length pos vs
  | PSubsequence pt offset _ pos vs, S O => PSubsequence pt offset x pos vs
  | PChanged _ cur, O => PChanged x cur
  | PDiff _ cur, O => PDiff x cur
  | PSkipIf _ skip, O => PSkipIf x skip
  | PSkipIf pattern _, S O => PSkipIf pattern x
  | PIndexOf l _, O => PIndexOf l x
  | _, _ => p
  end.

(** class and attribute names of the table above, for the registry comparison made by the harness *)
Definition vfield_names : list (string * string) :=
  [("PAbs", "input"); ("PInt", "input"); ("PBinOp", "a"); ("PBinOp", "b"); ("PAnd", "a"); ("PAnd", "b");
   ("PArrayIndex", "index"); ("PDictKey", "key"); ("PSequence", "repeats"); ("PSeries", "step"); ("PSeries", "length");
   ("PRange", "end"); ("PRange", "step"); ("PGeom", "multiply"); ("PImpulse", "period"); ("PSubsequence", "offset");
   ("PSubsequence", "length"); ("PChanged", "source"); ("PDiff", "source"); ("PSkipIf", "pattern"); ("PSkipIf", "skip");
   ("PIndexOf", "item")]%string.

(** x given as a scalar, as PConstant(x), as PRef(PConstant(x)), PRef(PRef(PConstant(x))) ...; [d] is the nesting depth *)
Inductive konst (x : val) : nat -> arg -> Prop :=
| konst_scalar : konst x 0 (AV x)
| konst_constant : konst x 1 (AP (PConstant x))
| konst_ref : forall d a, konst x (S d) a -> konst x (S (S d)) (AP (PRef a)).

(** PRef.set_pattern(r) *)
Definition set_pattern (p : pat) (r : arg) : pat :=
  match p with PRef _ => PRef r | _ => p end.

(** k references around a: PRef(PRef(...a...)) *)
Fixpoint nest_ref (k : nat) (a : arg) : arg :=
  match k with O => a | S k' => AP (PRef (nest_ref k' a)) end.

Section Driven.
  Variable binop : op -> val -> val -> outcome val.
  Variable LMAX : nat.

  (** the step-wise scalar reference for parameter i of p driven by the pattern q: n outputs.
      Returns the outputs, the parent (whose parameter holds the last scalar) and the parameter pattern. *)
  Fixpoint driven (f n : nat) (p : pat) (i : nat) (q : pat) : option (list val * list val * pat * pat) :=
    match n with
    | O => Some ([], [], p, q)
    | S n' =>
        match step binop LMAX f q with
        | (Yield w, q') =>
            match step binop LMAX (S (S f)) (with_vfield p i (AV w)) with
            | (Yield v, p1) =>
                match driven f n' p1 i q' with
                | Some (vs, ws, pn, qn) => Some (v :: vs, w :: ws, pn, qn)
                | None => None
                end
            | _ => None
            end
        | _ => None
        end
    end.
End Driven.

(** tuples containing patterns.  [tres n g a] = the value Pattern.value must return for the argument tree a (tuples
    nested at most n deep) and the tree afterwards, when [g] says how each nested pattern answers its single next()
    call: every pattern of the tree is asked exactly once, left to right, and replaced by its successor state *)
Fixpoint opt_items (h : arg -> option (val * arg)) (l : list arg) : option (list val * list arg) :=
  match l with
  | [] => Some ([], [])
  | x :: r => match h x, opt_items h r with
              | Some (v, x'), Some (vs, r') => Some (v :: vs, x' :: r')
              | _, _ => None
              end
  end.

Fixpoint tres (n : nat) (g : pat -> option (val * pat)) (a : arg) : option (val * arg) :=
  match a with
  | AV v => Some (v, a)
  | AP p => match g p with Some (v, p') => Some (v, AP p') | None => None end
  | AT l => match n with
            | O => None
            | S n' => match opt_items (tres n' g) l with Some (vs, l') => Some (VTup vs, AT l') | None => None end
            end
  | AL _ | AD _ => None
  end.

(** PDict: the object both constructor forms build from the rows (each row a dict over the keys ks):
    one one-shot sequence per key *)
Definition lookup (k : string) (row : list (string * val)) : val :=
  match assoc k row with Some v => v | None => VNone end.
Definition row_arg (row : list (string * val)) : arg := AD (map (fun kv => (fst kv, AV (snd kv))) row).
Definition column (k : string) (rows : list (list (string * val))) : list arg := map (fun r => AV (lookup k r)) rows.
Definition one_shot (col : list arg) : pat := PSequence (AL col) (AV (VInt 1)) 0 0.
Definition pdict_of (ks : list string) (rows : list (list (string * val))) : pat :=
  PDict (AD (map (fun k => (k, AP (one_shot (column k rows)))) ks)).
Definition has_key (k : string) (row : list (string * val)) : Prop := exists v, assoc k row = Some v.

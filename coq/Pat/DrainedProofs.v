(* Pat/DrainedProofs.v — lemmas for the drained-track part of C09 (model: Pat/Drained.v). *)
From Isobar Require Import Base.Prelude Pat.Chance.
From Isobar Require Import Pat.Drained.
From Coq Require Import QArith.
Local Notation length := List.length (only parsing).
Open Scope Z_scope.

Section DrainedProofs.
  Variable R : Type.
  Variable St : Type.
  Variable step : St -> R -> res * St * R.

  (* every later next() raises StopIteration *)
  Definition dead (s : St) (g : R) : Prop := forall n, fst (fst (polls R St step n s g)) = repeat Stop n.

  Lemma dead_step : forall s g, dead s g ->
    exists s' g', step s g = (Stop, s', g') /\ dead s' g'.
  Proof.
    intros s g H. destruct (step s g) as [[r s'] g'] eqn:E. exists s', g'.
    assert (r = Stop) as ->.
    { specialize (H 1%nat). cbn [polls] in H. rewrite E in H. cbn in H. congruence. }
    split; [reflexivity|]. intros n. specialize (H (S n)). cbn [polls] in H. rewrite E in H.
    destruct (polls R St step n s' g') as [[rs s''] g''] eqn:P. cbn in *. congruence.
  Qed.

  (* an invariant that answers StopIteration and is preserved by doing so makes the stream dead *)
  Lemma invariant_dead : forall (I : St -> Prop),
    (forall s g, I s -> exists s' g', step s g = (Stop, s', g') /\ I s') ->
    forall s g, I s -> dead s g.
  Proof.
    intros I HI s g Hs n. revert s g Hs. induction n as [|n IH]; intros s g Hs; [reflexivity|].
    destruct (HI s g Hs) as (s' & g' & E & Hs'). cbn [polls]. rewrite E.
    specialize (IH s' g' Hs'). destruct (polls R St step n s' g') as [[rs s''] g'']. cbn in *. now rewrite IH.
  Qed.

  Variables dur_t gate4 : Z.
  Notation tick := (tick R St step dur_t gate4).
  Notation ticks := (ticks R St step dur_t gate4).

  Lemma filter_all_due : forall (l : list Z) now, (forall d, In d l -> d <= now) ->
    filter (fun d => negb (d <=? now)) l = [].
  Proof.
    induction l as [|d l IH]; intros now B; [reflexivity|]. cbn.
    assert (d <= now) by (apply B; now left). destruct (d <=? now) eqn:Q; [|lia]. cbn. apply IH. intros; apply B; now right.
  Qed.

  Lemma ticks_done : forall n t, t_fin R St t = true -> ticks n t = t.
  Proof.
    induction n as [|n IH]; intros t H; [reflexivity|]. cbn [Drained.ticks].
    assert (tick t = t) as -> by (unfold Drained.tick; now rewrite H). now apply IH.
  Qed.

  (* one tick over a dead stream plays nothing, raises nothing, and leaves the stream dead *)
  Lemma tick_dead : forall t, dead (t_st R St t) (t_gen R St t) ->
    let t' := tick t in
    dead (t_st R St t') (t_gen R St t') /\ t_played R St t' = t_played R St t /\ t_err R St t' = t_err R St t /\
    (t_fin R St t = false -> t_err R St t = false -> t_next R St t' = t_next R St t /\ t_now R St t' = t_now R St t + 4 /\
       t_offs R St t' = filter (fun d => negb (d <=? t_now R St t)) (t_offs R St t) /\
       (t_next R St t <= t_now R St t -> t_fin R St t' = match t_offs R St t' with [] => true | _ => false end)).
  Proof.
    intros t H. unfold Drained.tick. cbv zeta.
    destruct (t_fin R St t) eqn:F; [cbn; repeat split; auto; discriminate|].
    destruct (t_err R St t) eqn:Er; [cbn; repeat split; auto; discriminate|]. cbn [orb].
    destruct (t_next R St t <=? t_now R St t) eqn:N.
    - destruct (dead_step _ _ H) as (s' & g' & E & D). rewrite E. cbn. repeat split; auto.
    - cbn. repeat split; auto. intros; lia.
  Qed.

  Lemma drained_plays_nothing : forall n t, dead (t_st R St t) (t_gen R St t) ->
    t_played R St (ticks n t) = t_played R St t /\ t_err R St (ticks n t) = t_err R St t.
  Proof.
    induction n as [|n IH]; intros t H; [split; reflexivity|]. cbn [Drained.ticks].
    destruct (tick_dead t H) as (D & P & E & _). destruct (IH _ D) as [P' E']. split; congruence.
  Qed.

  (* ... and ends as soon as its last note-off is due: if every pending note-off is due within k ticks, the track
     has finished after k + 1 ticks *)
  Lemma drained_ends : forall k t, dead (t_st R St t) (t_gen R St t) -> t_err R St t = false ->
    t_next R St t <= t_now R St t ->
    (forall d, In d (t_offs R St t) -> d <= t_now R St t + 4 * Z.of_nat k) ->
    t_fin R St (ticks (S k) t) = true.
  Proof.
    induction k as [|k IH]; intros t H Er N B.
    - cbn [Drained.ticks]. destruct (t_fin R St t) eqn:F.
      { assert (tick t = t) as -> by (unfold Drained.tick; now rewrite F). exact F. }
      destruct (tick_dead t H) as (_ & _ & _ & X). destruct (X F Er) as (_ & _ & O & Fi).
      rewrite (Fi N), O.
      rewrite filter_all_due; [reflexivity|]. intros d Hd. specialize (B d Hd). lia.
    - change (ticks (S (S k)) t) with (ticks (S k) (tick t)).
      destruct (t_fin R St t) eqn:F.
      { assert (tick t = t) as -> by (unfold Drained.tick; now rewrite F). now rewrite ticks_done. }
      destruct (tick_dead t H) as (D & _ & E & X). destruct (X F Er) as (Nx & Nw & O & _).
      apply IH; [exact D | congruence | lia |].
      intros d Hd. rewrite O in Hd. apply filter_In in Hd. destruct Hd as [Hd _]. specialize (B d Hd). lia.
  Qed.
End DrainedProofs.

(* ---- PShuffle (chance.py PShuffle.__next__, model Pat/Chance.v pshuffle_step): whatever the generator does ---- *)
Section Shuffle.
  Variable R : Type.
  Variable r_below : Z -> R -> Z * R.
  Variable repeats : Z.
  Notation sstep := (pshuffle_step R r_below repeats).

  (* the states in which PShuffle has run out: position at the end of the list, repeat counter used up *)
  Definition stuck (s : shuf_state) : Prop :=
    zlen (sh_vals s) <= sh_pos s /\ repeats <= sh_rcount s + 1 /\ (sh_pos s = 0 -> sh_vals s = []).

  Lemma zlen_nil : forall (l : list Z), zlen l <= 0 -> l = [].
  Proof. intros [|x l] H; [reflexivity|]. unfold zlen in H. cbn [List.length] in H. lia. Qed.

  Lemma pshuffle_stop_stuck : forall s g s' g', sstep s g = (Stop, s', g') -> stuck s'.
  Proof.
    intros [vals pos rc] g s' g'. unfold pshuffle_step. cbn [sh_vals sh_pos sh_rcount].
    destruct (if pos =? 0 then shuffle R r_below vals g else (vals, g)) as [v gg].
    destruct (zlen v <=? pos) eqn:L.
    - destruct (repeats <=? rc + 1) eqn:Rp.
      + intros E. injection E as <- <-. unfold stuck. cbn [sh_vals sh_pos sh_rcount].
        repeat split; try lia. intros ->. apply zlen_nil. lia.
      + destruct (pyidx v 0); discriminate.
    - destruct (pyidx v pos); discriminate.
  Qed.

  Lemma stuck_step : forall s g, stuck s -> exists s' g', sstep s g = (Stop, s', g') /\ stuck s'.
  Proof.
    intros [vals pos rc] g (L & Rp & Z0). cbn [sh_vals sh_pos sh_rcount] in *. unfold pshuffle_step.
    cbn [sh_vals sh_pos sh_rcount].
    destruct (pos =? 0) eqn:P.
    - assert (pos = 0) by lia. subst pos. rewrite (Z0 eq_refl). cbn.
      destruct (repeats <=? rc + 1) eqn:Q; [|lia]. eexists _, _. split; [reflexivity|].
      unfold stuck; cbn. repeat split; try lia; auto.
    - destruct (zlen vals <=? pos) eqn:Q; [|lia]. destruct (repeats <=? rc + 1) eqn:Q2; [|lia].
      eexists _, _. split; [reflexivity|]. unfold stuck; cbn [sh_vals sh_pos sh_rcount]. repeat split; try lia.
  Qed.

  Lemma pshuffle_sticky : forall s g s' g', sstep s g = (Stop, s', g') ->
    forall g'', dead R shuf_state sstep s' g''.
  Proof.
    intros s g s' g' E g''. apply (invariant_dead R shuf_state sstep stuck).
    - intros; now apply stuck_step.
    - eapply pshuffle_stop_stuck; eauto.
  Qed.
End Shuffle.

(* ---- PWhite(min, max, length) (chance.py PWhite.__next__, model white_step): the index only grows ---- *)
Section White.
  Variable R : Type.
  Variable r_unit : R -> Z * R.
  Variables (is_f : bool) (mn mx : Q) (len : Z).
  Notation wstep := (white_step R r_unit is_f mn mx len).

  Lemma pwhite_sticky : forall i g i' g', wstep i g = (Stop, i', g') -> forall g'', dead R Z wstep i' g''.
  Proof.
    intros i g i' g' E g''.
    apply (invariant_dead R Z wstep (fun j => 0 < len /\ len < j + 1)).
    - intros j gg [A B]. unfold white_step. destruct ((0 <? len) && (len <? j + 1)) eqn:Q; [|lia].
      eexists _, _. split; [reflexivity|]. cbn. lia.
    - unfold white_step in E. destruct ((0 <? len) && (len <? i + 1)) eqn:Q.
      + injection E as <- _. lia.
      + unfold d_unit in E. destruct (r_unit g). discriminate.
  Qed.
End White.

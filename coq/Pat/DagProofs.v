(* Pat/DagProofs.v — copy() of a pattern graph with shared sub-patterns (Pat/Dag.v): a renamed graph over a heap that
   agrees on the renamed addresses behaves like the original (simulation), deepcopy-with-one-memo is such a renaming
   onto fresh addresses, hence: for every script of next() / nextn() / copy() on any number of handles, every
   observation is what repeated next() on the ORIGINAL ALONE gives at that handle's position (continuation and
   independence in one statement). *)
From Isobar Require Import Base.Prelude Pat.Val Pat.Syntax Pat.Step Pat.Dag.
From Coq Require Import String.
Open Scope Z_scope.

(** * lists *)
Lemma upd_length {A} (x : A) : forall l i, List.length (update_nth i x l) = List.length l.
Proof. induction l as [|y l IH]; intros [|i]; cbn; try reflexivity. rewrite IH. reflexivity. Qed.
Lemma upd_eq {A} (x : A) : forall l i, (i < List.length l)%nat -> nth_error (update_nth i x l) i = Some x.
Proof. induction l as [|y l IH]; intros [|i] H; cbn in *; try lia; [reflexivity|]. apply IH. lia. Qed.
Lemma upd_neq {A} (x : A) : forall l i j, i <> j -> nth_error (update_nth i x l) j = nth_error l j.
Proof.
  induction l as [|y l IH]; intros [|i] [|j] H; cbn; try reflexivity; try congruence. apply IH. congruence.
Qed.
Lemma upd_upd {A} (x y : A) : forall l i, update_nth i x (update_nth i y l) = update_nth i x l.
Proof. induction l as [|z l IH]; intros [|i]; cbn; try reflexivity. rewrite IH. reflexivity. Qed.
Lemma nth_error_lt {A} (l : list A) i x : nth_error l i = Some x -> (i < List.length l)%nat.
Proof. intro H. apply nth_error_Some. congruence. Qed.

(** * renaming *)
Lemma refs_rename rho d : refs (rename rho d) = map rho (refs d).
Proof. induction d; cbn; try reflexivity; try assumption. rewrite map_app, IHd1, IHd2. reflexivity. Qed.
Lemma kvrefs_rename rho kv : kvrefs (kvrename rho kv) = map rho (kvrefs kv).
Proof. induction kv as [|[k d] kv IH]; cbn; [reflexivity|]. rewrite map_app, refs_rename. unfold kvrename in IH. rewrite IH. reflexivity. Qed.
Lemma rrefs_rename rho r : rrefs (rrename rho r) = map rho (rrefs r).
Proof. destruct r; cbn; [apply refs_rename|apply kvrefs_rename]. Qed.
Lemma rename_comp f g d : rename f (rename g d) = rename (fun a => f (g a)) d.
Proof. induction d; cbn; try reflexivity; congruence. Qed.
Lemma rrename_comp f g r : rrename f (rrename g r) = rrename (fun a => f (g a)) r.
Proof.
  destruct r as [d|kv]; cbn; [rewrite rename_comp; reflexivity|]. f_equal. unfold kvrename. rewrite map_map.
  apply map_ext. intros [k d]. cbn. rewrite rename_comp. reflexivity.
Qed.
Lemma rename_id d : rename (fun a => a) d = d.
Proof. induction d; cbn; congruence. Qed.
Lemma rrename_id r : rrename (fun a => a) r = r.
Proof.
  destruct r as [d|kv]; cbn; [rewrite rename_id; reflexivity|]. f_equal. unfold kvrename.
  induction kv as [|[k d] kv IH]; cbn; [reflexivity|]. rewrite rename_id, IH. reflexivity.
Qed.
Lemma rename_ext f g d : (forall a, In a (refs d) -> f a = g a) -> rename f d = rename g d.
Proof.
  induction d; cbn; intro H; try reflexivity.
  - rewrite H by (left; reflexivity). reflexivity.
  - rewrite IHd1, IHd2; [reflexivity| |]; intros a Ha; apply H, in_or_app; [right|left]; exact Ha.
  - rewrite IHd; [reflexivity|exact H].
Qed.

Section Sim.
  Variable binop : op -> val -> val -> outcome val.
  Variable LMAX : nat.
  Variable fuel : nat.
  Notation dstep := (dstep binop LMAX fuel).
  Notation dkv := (dkv binop LMAX fuel).
  Notation rstep := (rstep binop LMAX fuel).
  Notation rrun := (rrun binop LMAX fuel).
  Notation rout := (rout binop LMAX fuel).

  Lemma dstep_length d : forall h, List.length (snd (dstep d h)) = List.length h.
  Proof.
    induction d; intro h; cbn.
    - destruct (nth_error h a); [|reflexivity]. destruct (step binop LMAX fuel p). cbn. apply upd_length.
    - reflexivity.
    - specialize (IHd1 h). destruct (dstep d1 h) as [ol h1]. cbn in IHd1. destruct ol; cbn; try exact IHd1.
      specialize (IHd2 h1). destruct (dstep d2 h1) as [or h2]. cbn in IHd2. destruct or; cbn; congruence.
    - specialize (IHd h). destruct (dstep d h) as [o h1]. cbn in IHd. destruct o; cbn; exact IHd.
  Qed.
  Lemma dkv_length kv : forall h, List.length (snd (dkv kv h)) = List.length h.
  Proof.
    induction kv as [|[k d] kv IH]; intro h; cbn; [reflexivity|].
    pose proof (dstep_length d h) as L. destruct (dstep d h) as [o h1]. cbn in L. destruct o; cbn; try exact L.
    specialize (IH h1). destruct (dkv kv h1) as [os h2]. cbn in *. congruence.
  Qed.
  Lemma rstep_length r h : List.length (snd (rstep r h)) = List.length h.
  Proof.
    destruct r as [d|kv]; cbn; [apply dstep_length|].
    pose proof (dkv_length kv h) as L. destruct (dkv kv h). exact L.
  Qed.
  Lemma rrun_length r : forall n h, List.length (rrun n r h) = List.length h.
  Proof. induction n as [|n IH]; intro h; cbn; [reflexivity|]. rewrite IH. apply rstep_length. Qed.
  Lemma rrun_S r : forall n h, rrun (S n) r h = snd (rstep r (rrun n r h)).
  Proof. induction n as [|n IH]; intro h; [reflexivity|]. change (rrun (S (S n)) r h) with (rrun (S n) r (snd (rstep r h))). rewrite IH. reflexivity. Qed.

  (** ** simulation: the graph renamed by rho, over a heap that holds at rho a what the original heap holds at a *)
  Definition agree (rho : nat -> nat) (X : list nat) (h1 h2 : heap) : Prop :=
    forall a, In a X -> nth_error h2 (rho a) = nth_error h1 a.
  Definition inj (rho : nat -> nat) (X : list nat) : Prop :=
    forall a b, In a X -> In b X -> rho a = rho b -> a = b.
  Definition alloc (X : list nat) (h : heap) : Prop := forall a, In a X -> (a < List.length h)%nat.
  (* what a step of the renamed graph leaves alone: every address outside the image of X *)
  Definition frame (rho : nat -> nat) (X : list nat) (h2 h2' : heap) : Prop :=
    forall b, (forall a, In a X -> rho a <> b) -> nth_error h2' b = nth_error h2 b.

  Definition sim_result {O} (rho : nat -> nat) (X : list nat) (h1 h2 : heap) (r1 r2 : O * heap) : Prop :=
    fst r2 = fst r1 /\ agree rho X (snd r1) (snd r2) /\ frame rho X h2 (snd r2).

  Lemma frame_refl rho X h : frame rho X h h.
  Proof. intros b _. reflexivity. Qed.
  Lemma frame_trans rho X h a b : frame rho X h a -> frame rho X a b -> frame rho X h b.
  Proof. intros F1 F2 x Hx. rewrite F2, F1 by exact Hx. reflexivity. Qed.

  Lemma dstep_sim rho X : inj rho X -> forall d h1 h2,
    incl (refs d) X -> alloc X h1 -> agree rho X h1 h2 ->
    sim_result rho X h1 h2 (dstep d h1) (dstep (rename rho d) h2).
  Proof.
    intros Hinj. induction d; intros h1 h2 Hin Hal Hag; cbn [rename Dag.dstep].
    - assert (Ha : In a X) by (apply Hin; left; reflexivity).
      destruct (nth_error h1 a) as [p|] eqn:E1.
      2:{ apply nth_error_None in E1. specialize (Hal a Ha). lia. }
      rewrite (Hag a Ha), E1. destruct (step binop LMAX fuel p) as [o p'].
      split; [reflexivity|]. cbn [fst snd]. split.
      + intros b Hb. destruct (Nat.eq_dec b a) as [->|Hne].
        * rewrite !upd_eq; [reflexivity|eapply nth_error_lt; eauto|]. eapply nth_error_lt. rewrite (Hag a Ha). eauto.
        * rewrite !upd_neq; [apply Hag; exact Hb|congruence|]. intro E. apply Hne. symmetry. apply Hinj; assumption.
      + intros b Hb. apply upd_neq. apply Hb. exact Ha.
    - split; [reflexivity|]. split; [exact Hag|apply frame_refl].
    - assert (I1 : incl (refs d1) X) by (intros x Hx; apply Hin; cbn; apply in_or_app; left; exact Hx).
      assert (I2 : incl (refs d2) X) by (intros x Hx; apply Hin; cbn; apply in_or_app; right; exact Hx).
      specialize (IHd1 h1 h2 I1 Hal Hag). pose proof (dstep_length d1 h1) as L1.
      destruct (dstep d1 h1) as [ol h1'], (dstep (rename rho d1) h2) as [ol2 h2'].
      destruct IHd1 as (E & A & F). cbn [fst snd] in *. subst ol2.
      destruct ol; try (split; [reflexivity|split; assumption]).
      assert (Hal' : alloc X h1') by (intros x Hx; rewrite L1; apply Hal; exact Hx).
      specialize (IHd2 h1' h2' I2 Hal' A).
      destruct (dstep d2 h1') as [or h1''], (dstep (rename rho d2) h2') as [or2 h2''].
      destruct IHd2 as (E2 & A2 & F2). cbn [fst snd] in *. subst or2.
      destruct or; (split; [reflexivity|split; [exact A2|eapply frame_trans; eauto]]).
    - specialize (IHd h1 h2 Hin Hal Hag).
      destruct (dstep d h1) as [o h1'], (dstep (rename rho d) h2) as [o2 h2'].
      destruct IHd as (E & A & F). cbn [fst snd] in *. subst o2.
      destruct o; (split; [reflexivity|split; assumption]).
  Qed.

  Lemma dkv_sim rho X : inj rho X -> forall kv h1 h2,
    incl (kvrefs kv) X -> alloc X h1 -> agree rho X h1 h2 ->
    sim_result rho X h1 h2 (dkv kv h1) (dkv (kvrename rho kv) h2).
  Proof.
    intros Hinj. induction kv as [|[k d] kv IH]; intros h1 h2 Hin Hal Hag; cbn [kvrename map Dag.dkv fst snd].
    - split; [reflexivity|]. split; [exact Hag|apply frame_refl].
    - assert (I1 : incl (refs d) X) by (intros x Hx; apply Hin; cbn; apply in_or_app; left; exact Hx).
      assert (I2 : incl (kvrefs kv) X) by (intros x Hx; apply Hin; cbn; apply in_or_app; right; exact Hx).
      pose proof (dstep_sim rho X Hinj d h1 h2 I1 Hal Hag) as S1. pose proof (dstep_length d h1) as L1.
      destruct (dstep d h1) as [o h1'], (dstep (rename rho d) h2) as [o2 h2'].
      destruct S1 as (E & A & F). cbn [fst snd] in *. subst o2.
      destruct o; try (split; [reflexivity|split; assumption]).
      assert (Hal' : alloc X h1') by (intros x Hx; rewrite L1; apply Hal; exact Hx).
      specialize (IH h1' h2' I2 Hal' A). fold (kvrename rho kv).
      destruct (dkv kv h1') as [os h1''], (dkv (kvrename rho kv) h2') as [os2 h2''].
      destruct IH as (E2 & A2 & F2). cbn [fst snd] in *. subst os2.
      split; [reflexivity|]. split; [exact A2|eapply frame_trans; eauto].
  Qed.

  Lemma rstep_sim rho X r h1 h2 : inj rho X -> incl (rrefs r) X -> alloc X h1 -> agree rho X h1 h2 ->
    sim_result rho X h1 h2 (rstep r h1) (rstep (rrename rho r) h2).
  Proof.
    intros Hinj Hin Hal Hag. destruct r as [d|kv]; cbn [rrename Dag.rstep].
    - apply dstep_sim; assumption.
    - pose proof (dkv_sim rho X Hinj kv h1 h2 Hin Hal Hag) as S1.
      destruct (dkv kv h1) as [o h1'], (dkv (kvrename rho kv) h2) as [o2 h2'].
      destruct S1 as (E & A & F). cbn [fst snd] in *. subst o2. split; [reflexivity|split; assumption].
  Qed.

  (** ** deepcopy with one memo *)
  Lemma dedup_in : forall l seen a, In a l -> In a seen \/ In a (dedup seen l).
  Proof.
    induction l as [|x l IH]; intros seen a H; [destruct H|]. cbn [dedup].
    destruct (existsb (Nat.eqb x) seen) eqn:Ex.
    - destruct H as [->|H]; [|apply IH; exact H]. left. apply existsb_exists in Ex as (y & Hy & Ey).
      apply Nat.eqb_eq in Ey. subst. exact Hy.
    - destruct H as [->|H]; [right; left; reflexivity|].
      destruct (IH (x :: seen) a H) as [[->|Hs]|Hd]; [right; left; reflexivity|left; exact Hs|right; right; exact Hd].
  Qed.
  Lemma dedup_sub : forall l seen a, In a (dedup seen l) -> In a l.
  Proof.
    induction l as [|x l IH]; intros seen a H; [destruct H|]. cbn [dedup] in H.
    destruct (existsb (Nat.eqb x) seen); [right; eapply IH; eauto|]. destruct H as [->|H]; [left; reflexivity|right; eapply IH; eauto].
  Qed.
  Lemma visit_in r a : In a (rrefs r) <-> In a (visit r).
  Proof. unfold visit. split; [intro H; destruct (dedup_in _ [] a H) as [[]|H']; exact H'|apply dedup_sub]. Qed.

  Lemma index_of_some : forall l a, In a l -> exists i, index_of a l = Some i /\ nth_error l i = Some a.
  Proof.
    induction l as [|x l IH]; intros a H; [destruct H|]. cbn [index_of].
    destruct (Nat.eqb a x) eqn:E; [apply Nat.eqb_eq in E; subst; exists O; split; reflexivity|].
    destruct H as [->|H]; [rewrite Nat.eqb_refl in E; discriminate|].
    destruct (IH a H) as (i & Ei & Ni). exists (S i). rewrite Ei. split; [reflexivity|exact Ni].
  Qed.

  Lemma cells_nth h : forall vis i x, (forall y, In y vis -> (y < List.length h)%nat) ->
    nth_error vis i = Some x -> nth_error (cells h vis) i = nth_error h x.
  Proof.
    induction vis as [|y vis IH]; intros i x Hv Hi; [destruct i; discriminate|].
    unfold cells. cbn [flat_map]. fold (cells h vis).
    destruct (nth_error h y) as [p|] eqn:Ey.
    2:{ apply nth_error_None in Ey. specialize (Hv y (or_introl eq_refl)). lia. }
    destruct i as [|i]; cbn in *.
    - inversion Hi; subst. symmetry. exact Ey.
    - apply IH; [intros z Hz; apply Hv; right; exact Hz|exact Hi].
  Qed.

  (** ** the world of handles *)
  Variable r0 : droot.
  Variable h0 : heap.
  Hypothesis WF : wf r0 h0.
  Let X := rrefs r0.
  Let H (k : nat) : heap := rrun k r0 h0.
  Let s (k : nat) : outcome val := rout r0 h0 k.

  Definition winv (ws : list (nat -> nat)) (pos : list nat) (hw : heap) : Prop :=
    List.length pos = List.length ws /\
    (forall i rho k, nth_error ws i = Some rho -> nth_error pos i = Some k -> inj rho X /\ agree rho X (H k) hw) /\
    (forall i j ri rj, i <> j -> nth_error ws i = Some ri -> nth_error ws j = Some rj ->
                       forall a b, In a X -> In b X -> ri a <> rj b).
  Definition handles (ws : list (nat -> nat)) : list droot := map (fun rho => rrename rho r0) ws.

  Lemma alloc_H k : alloc X (H k).
  Proof. intros a Ha. unfold H. rewrite rrun_length. apply WF. exact Ha. Qed.

  Lemma pos_of ws pos hw i rho : winv ws pos hw -> nth_error ws i = Some rho -> exists k, nth_error pos i = Some k.
  Proof.
    intros (L & _) Hi. destruct (nth_error pos i) as [k|] eqn:E; [eauto|].
    apply nth_error_None in E. apply nth_error_lt in Hi. lia.
  Qed.

  (* one next() on handle i *)
  Lemma winv_next ws pos hw i rho k : winv ws pos hw -> nth_error ws i = Some rho -> nth_error pos i = Some k ->
    fst (rstep (rrename rho r0) hw) = s k /\ winv ws (update_nth i (S k) pos) (snd (rstep (rrename rho r0) hw)).
  Proof.
    intros (L & I & D) Hi Hk. destruct (I i rho k Hi Hk) as (Hinj & Hag).
    pose proof (rstep_sim rho X r0 (H k) hw Hinj (incl_refl _) (alloc_H k) Hag) as (E & A & F).
    split; [exact E|]. split; [rewrite upd_length; exact L|]. split.
    - intros j rj kj Hj Hkj. destruct (Nat.eq_dec j i) as [->|Hne].
      + rewrite upd_eq in Hkj by (eapply nth_error_lt; eauto). inversion Hkj; subst. rewrite Hi in Hj. inversion Hj; subst.
        split; [exact Hinj|]. unfold H. rewrite rrun_S. exact A.
      + rewrite upd_neq in Hkj by congruence. destruct (I j rj kj Hj Hkj) as (Hinjj & Hagj).
        split; [exact Hinjj|]. intros b Hb. rewrite F; [apply Hagj; exact Hb|].
        intros a Ha. apply (D i j rho rj); try assumption. congruence.
    - exact D.
  Qed.

  (* nextn(n) on handle i *)
  Lemma winv_take ws i rho : nth_error ws i = Some rho -> forall m pos hw k, winv ws pos hw -> nth_error pos i = Some k ->
    fst (dtake binop LMAX fuel m (rrename rho r0) hw) = fst (stake s m k) /\
    winv ws (update_nth i (snd (stake s m k)) pos) (snd (dtake binop LMAX fuel m (rrename rho r0) hw)).
  Proof.
    intro Hi. induction m as [|m IH]; intros pos hw k W Hk; cbn [dtake stake fst snd].
    - split; [reflexivity|]. replace (update_nth i k pos) with pos; [exact W|].
      clear - Hk. revert i Hk. induction pos as [|x pos IHp]; intros [|i] Hk; cbn in *; try discriminate; [inversion Hk; reflexivity|].
      rewrite <- IHp by exact Hk. reflexivity.
    - destruct (winv_next ws pos hw i rho k W Hi Hk) as (E & W').
      destruct (rstep (rrename rho r0) hw) as [o hw'] eqn:Es. cbn [fst snd] in *. rewrite <- E.
      destruct o; cbn [fst snd]; try (split; [reflexivity|exact W']).
      assert (Hk' : nth_error (update_nth i (S k) pos) i = Some (S k)) by (apply upd_eq; eapply nth_error_lt; eauto).
      destruct (IH _ _ _ W' Hk') as (E2 & W2). rewrite upd_upd in W2.
      destruct (dtake binop LMAX fuel m (rrename rho r0) hw') as [os hw''], (stake s m (S k)) as [os' k'].
      cbn [fst snd] in *. subst os'. split; [reflexivity|exact W2].
  Qed.

  (* copy() of handle i *)
  Lemma winv_copy ws pos hw i rho k : winv ws pos hw -> nth_error ws i = Some rho -> nth_error pos i = Some k ->
    let vis := visit (rrename rho r0) in
    let rho' := fun a => memo (List.length hw) vis (rho a) in
    copy_root (rrename rho r0) hw = (rrename rho' r0, hw ++ cells hw vis) /\
    winv (ws ++ [rho']) (pos ++ [k]) (hw ++ cells hw vis).
  Proof.
    intros (L & I & D) Hi Hk vis rho'. destruct (I i rho k Hi Hk) as (Hinj & Hag).
    assert (Hvalid : forall a, In a X -> (rho a < List.length hw)%nat).
    { intros a Ha. pose proof (alloc_H k a Ha) as Hl. apply nth_error_Some. rewrite (Hag a Ha). apply nth_error_Some. exact Hl. }
    assert (Hvis : forall a, In a X -> exists idx, index_of (rho a) vis = Some idx /\ nth_error vis idx = Some (rho a)).
    { intros a Ha. apply index_of_some. apply visit_in. rewrite rrefs_rename. apply in_map. exact Ha. }
    assert (Hvv : forall y, In y vis -> (y < List.length hw)%nat).
    { intros y Hy. apply visit_in in Hy. rewrite rrefs_rename in Hy. apply in_map_iff in Hy as (a & <- & Ha). apply Hvalid. exact Ha. }
    assert (Hrho' : forall a, In a X -> exists idx, rho' a = (List.length hw + idx)%nat /\ nth_error vis idx = Some (rho a)).
    { intros a Ha. destruct (Hvis a Ha) as (idx & E1 & E2). exists idx. unfold rho', memo. rewrite E1. split; [reflexivity|exact E2]. }
    split.
    - unfold copy_root. fold vis. rewrite rrename_comp. reflexivity.
    - split; [rewrite !app_length, L; reflexivity|]. split.
      + intros j rj kj Hj Hkj. destruct (Nat.lt_ge_cases j (List.length ws)) as [Hlt|Hge].
        * rewrite nth_error_app1 in Hj by exact Hlt. rewrite nth_error_app1 in Hkj by lia.
          destruct (I j rj kj Hj Hkj) as (Hinjj & Hagj). split; [exact Hinjj|].
          intros b Hb. rewrite nth_error_app1; [apply Hagj; exact Hb|].
          apply nth_error_Some. rewrite (Hagj b Hb). apply nth_error_Some. apply alloc_H. exact Hb.
        * rewrite nth_error_app2 in Hj by exact Hge. rewrite nth_error_app2 in Hkj by lia.
          rewrite L in Hkj. destruct (j - List.length ws)%nat as [|n]; [|destruct n; discriminate].
          cbn in Hj, Hkj. inversion Hj; inversion Hkj; subst rj kj. split.
          -- intros a b Ha Hb E. destruct (Hrho' a Ha) as (ia & Ea & Na), (Hrho' b Hb) as (ib & Eb & Nb).
             rewrite Ea, Eb in E. assert (ia = ib) by lia. subst ib. rewrite Na in Nb. inversion Nb. apply Hinj; assumption.
          -- intros a Ha. destruct (Hrho' a Ha) as (ia & Ea & Na). rewrite Ea.
             rewrite nth_error_app2 by lia. replace (List.length hw + ia - List.length hw)%nat with ia by lia.
             rewrite (cells_nth hw vis ia (rho a) Hvv Na). apply Hag. exact Ha.
      + intros j1 j2 r1 r2 Hne H1 H2 a b Ha Hb.
        destruct (Nat.lt_ge_cases j1 (List.length ws)) as [Hlt1|Hge1], (Nat.lt_ge_cases j2 (List.length ws)) as [Hlt2|Hge2].
        * rewrite nth_error_app1 in H1, H2 by assumption. eapply D; eauto.
        * rewrite nth_error_app1 in H1 by assumption. rewrite nth_error_app2 in H2 by assumption.
          destruct (j2 - List.length ws)%nat as [|n]; [|destruct n; discriminate]. cbn in H2. inversion H2; subst r2.
          destruct (Hrho' b Hb) as (ib & Eb & _). rewrite Eb.
          destruct (pos_of ws pos hw j1 r1 (conj L (conj I D)) H1) as (k1 & Hk1).
          destruct (I j1 r1 k1 H1 Hk1) as (_ & Hag1).
          assert (r1 a < List.length hw)%nat by (apply nth_error_Some; rewrite (Hag1 a Ha); apply nth_error_Some; apply alloc_H; exact Ha). lia.
        * rewrite nth_error_app2 in H1 by assumption. rewrite nth_error_app1 in H2 by assumption.
          destruct (j1 - List.length ws)%nat as [|n]; [|destruct n; discriminate]. cbn in H1. inversion H1; subst r1.
          destruct (Hrho' a Ha) as (ia & Ea & _). rewrite Ea.
          destruct (pos_of ws pos hw j2 r2 (conj L (conj I D)) H2) as (k2 & Hk2).
          destruct (I j2 r2 k2 H2 Hk2) as (_ & Hag2).
          assert (r2 b < List.length hw)%nat by (apply nth_error_Some; rewrite (Hag2 b Hb); apply nth_error_Some; apply alloc_H; exact Hb). lia.
        * exfalso. apply nth_error_lt in H1, H2. rewrite app_length in H1, H2. cbn in H1, H2. lia.
  Qed.

  (** MAIN: every script of next() / nextn() / copy() on any number of handles observes, at each operation, what
      repeated next() on the original ALONE gives at the position of the handle *)
  Lemma world_simulates : forall ops ws pos hw, winv ws pos hw ->
    dtrace binop LMAX fuel (handles ws, hw) ops = simulate s pos ops.
  Proof.
    induction ops as [|o ops IH]; intros ws pos hw W; [reflexivity|].
    cbn [dtrace simulate]. destruct o as [i|i n|i]; cbn [dexec fst snd]; unfold handles; rewrite nth_error_map.
    - destruct (nth_error ws i) as [rho|] eqn:Hi; cbn [option_map].
      + destruct (pos_of _ _ _ _ _ W Hi) as (k & Hk). rewrite Hk.
        destruct (winv_next _ _ _ _ _ _ W Hi Hk) as (E & W').
        destruct (rstep (rrename rho r0) hw) as [x hw']. cbn [fst snd] in *. rewrite E. f_equal. apply IH. exact W'.
      + destruct W as (L & W2). assert (nth_error pos i = None) as ->.
        { apply nth_error_None. rewrite L. apply nth_error_None. exact Hi. }
        apply (IH ws pos hw). exact (conj L W2).
    - destruct (nth_error ws i) as [rho|] eqn:Hi; cbn [option_map].
      + destruct (pos_of _ _ _ _ _ W Hi) as (k & Hk). rewrite Hk.
        destruct (winv_take ws i rho Hi n pos hw k W Hk) as (E & W').
        destruct (dtake binop LMAX fuel n (rrename rho r0) hw) as [x hw'], (stake s n k) as [x' k'].
        cbn [fst snd] in *. subst x'. f_equal. apply IH. exact W'.
      + destruct W as (L & W2). assert (nth_error pos i = None) as ->.
        { apply nth_error_None. rewrite L. apply nth_error_None. exact Hi. }
        apply (IH ws pos hw). exact (conj L W2).
    - destruct (nth_error ws i) as [rho|] eqn:Hi; cbn [option_map].
      + destruct (pos_of _ _ _ _ _ W Hi) as (k & Hk). rewrite Hk.
        destruct (winv_copy _ _ _ _ _ _ W Hi Hk) as (E & W'). rewrite E.
        specialize (IH _ _ _ W'). unfold handles in IH. rewrite map_app in IH. exact IH.
      + destruct W as (L & W2). assert (nth_error pos i = None) as ->.
        { apply nth_error_None. rewrite L. apply nth_error_None. exact Hi. }
        apply (IH ws pos hw). exact (conj L W2).
  Qed.

  Theorem dag_interleavings ops :
    dtrace binop LMAX fuel ([r0], h0) ops = simulate s [O] ops.
  Proof.
    rewrite <- (rrename_id r0) at 1. apply (world_simulates ops [fun a => a] [O] h0).
    split; [reflexivity|]. split.
    - intros [|i] rho k Hi Hk; [|destruct i; discriminate]. cbn in Hi, Hk. inversion Hi; inversion Hk; subst.
      split; [intros a b _ _ E; exact E|intros a _; reflexivity].
    - intros [|i] [|j] ri rj Hne Hi Hj; try congruence; cbn in Hi, Hj; [destruct j|destruct i|destruct i]; discriminate.
  Qed.

  Lemma simulate_next_run (t : nat -> outcome val) i : forall n pos k rest, nth_error pos i = Some k ->
    simulate t pos (repeat (DNext i) n ++ rest) = map t (seq k n) ++ simulate t (update_nth i (k + n)%nat pos) rest.
  Proof.
    induction n as [|n IH]; intros pos k rest Hk; cbn [repeat app seq map].
    - replace (k + 0)%nat with k by lia. replace (update_nth i k pos) with pos; [reflexivity|].
      clear - Hk. revert i Hk. induction pos as [|x pos IHp]; intros [|i] Hk; cbn in *; try discriminate; [inversion Hk; reflexivity|].
      rewrite <- IHp by exact Hk. reflexivity.
    - cbn [simulate]. rewrite Hk. f_equal.
      rewrite (IH (update_nth i (S k) pos) (S k) rest) by (apply upd_eq; eapply nth_error_lt; eauto).
      rewrite upd_upd. replace (S k + n)%nat with (k + S n)%nat by lia. reflexivity.
  Qed.

  (** the two clauses of the property, read off: a copy taken after m calls of next() continues with call m, m+1, ... of
      the original run alone - also when the original is advanced j further calls first - and the original, whatever is
      done to the copy, continues with call m, m+1, ... itself *)
  Corollary dag_copy_continues m j n :
    dtrace binop LMAX fuel ([r0], h0) (repeat (DNext O) m ++ [DCopy O] ++ repeat (DNext O) j ++ repeat (DNext 1%nat) n ++ []) =
    map s (seq 0 m) ++ map s (seq m j) ++ map s (seq m n).
  Proof.
    rewrite dag_interleavings.
    rewrite (simulate_next_run s O m [O] O) by reflexivity. cbn [app simulate update_nth nth_error].
    rewrite (simulate_next_run s O j [m; m] m)%nat by reflexivity. cbn [update_nth].
    rewrite (simulate_next_run s 1%nat n [(m + j)%nat; m] m)%nat by reflexivity. cbn [simulate]. rewrite app_nil_r. reflexivity.
  Qed.
End Sim.

(* Pat/OpProofs.v — C08: the operator classes apply their operator element-wise.

   Everything in Section [Op] holds for an ARBITRARY operator semantics [binop] (a Section variable): nothing
   here depends on how Python adds or compares two values.  Section [Concrete] proves, for the concrete
   [Val.binop], the algebraic side conditions the reflected forms need (+ and * commute, == and != are
   symmetric, < mirrors >). *)
From Isobar Require Import Base.Prelude Pat.Val Pat.Syntax Pat.Step Pat.StepProofs Pat.Dunder.
From Coq Require Import String QArith Qround.
Open Scope Z_scope.

(** element-wise combination of two value lists, up to the shorter one *)
Fixpoint zipw {A B C} (g : A -> B -> C) (l1 : list A) (l2 : list B) : list C :=
  match l1, l2 with
  | x :: xs, y :: ys => g x y :: zipw g xs ys
  | _, _ => []
  end.

(** all outcomes are values *)
Fixpoint all_values (l : list (outcome val)) : option (list val) :=
  match l with
  | [] => Some []
  | Yield v :: r => match all_values r with Some vs => Some (v :: vs) | None => None end
  | _ => None
  end.

Lemma all_values_map l vs : all_values l = Some vs -> l = map Yield vs.
Proof.
  revert vs; induction l as [|o l IH]; intros vs H; simpl in H.
  - inversion H; reflexivity.
  - destruct o; try discriminate. destruct (all_values l) eqn:E; try discriminate.
    inversion H; subst. simpl. f_equal. apply IH. reflexivity.
Qed.

Section Op.
  Variable binop : op -> val -> val -> outcome val.
  Variable LMAX : nat.
  Notation step := (step binop LMAX).
  Notation value := (value binop LMAX).
  Notation outputs := (outputs binop LMAX).
  Notation vals := (vals binop LMAX).
  Notation init := (init binop LMAX).
  Notation init_arg := (init_arg binop LMAX).

  (** what the property demands of one element *)
  Definition elem (o : op) (va vb : val) : outcome val :=
    if is_none va || is_none vb then Yield VNone else binop o va vb.
  Definition elem_and (va vb : val) : outcome val := Yield (VBool (truthy va && truthy vb)).
  Definition elem_abs (v : val) : outcome val := if is_none v then Yield VNone else py_abs v.

  (** a rest on either side is a rest, whatever the operator *)
  Lemma elem_none_l o v : elem o VNone v = Yield VNone.
  Proof. reflexivity. Qed.
  Lemma elem_none_r o v : elem o v VNone = Yield VNone.
  Proof. unfold elem. rewrite orb_true_r. reflexivity. Qed.
  Lemma elem_values o va vb : is_none va = false -> is_none vb = false -> elem o va vb = binop o va vb.
  Proof. unfold elem. intros -> ->. reflexivity. Qed.

  (** ** A binary node: any class whose __next__ is "a = value(self.a); b = value(self.b); return g(a, b)" *)
  Section Node.
    Variable mk : arg -> arg -> pat.
    Variable g : val -> val -> outcome val.
    Hypothesis mk_step : forall f a b,
      step (S f) (mk a b) =
        (let '(oa, a') := value f a in
         match oa with
         | Yield va =>
             let '(ob, b') := value f b in
             match ob with
             | Yield vb => (g va vb, mk a' b')
             | _ => (ob, mk a' b')
             end
         | _ => (oa, mk a' b)
         end).

    (** element-wise: while both operands give values, output i is g (a_i) (b_i) *)
    Lemma node_lift f n : forall a b vas vbs a' b',
      vals f n a = Some (vas, a') -> vals f n b = Some (vbs, b') ->
      outputs (S f) n (mk a b) = (zipw g vas vbs, mk a' b').
    Proof.
      induction n as [|n IH]; intros a b vas vbs a' b' Ha Hb.
      - cbn in Ha, Hb. inversion Ha; inversion Hb; subst. reflexivity.
      - cbn [StepProofs.vals] in Ha, Hb. rewrite outputs_S, mk_step.
        destruct (value f a) as [[va| | | |] a1]; try discriminate.
        destruct (vals f n a1) as [[vas1 a2]|] eqn:Ea; try discriminate.
        destruct (value f b) as [[vb| | | |] b1]; try discriminate.
        destruct (vals f n b1) as [[vbs1 b2]|] eqn:Eb; try discriminate.
        inversion Ha; inversion Hb; subst.
        rewrite (IH _ _ _ _ _ _ Ea Eb). reflexivity.
    Qed.

    (** the left operand is asked first: when it ends (or raises) the node does, and the right operand
        is not consumed *)
    Lemma node_left_ends f a b oa a' :
      value f a = (oa, a') -> is_yield oa = false -> step (S f) (mk a b) = (oa, mk a' b).
    Proof. intros H Hn. rewrite mk_step, H. destruct oa; try reflexivity; discriminate. Qed.

    (** ... otherwise the right operand: when it ends the node ends *)
    Lemma node_right_ends f a b va a' ob b' :
      value f a = (Yield va, a') -> value f b = (ob, b') -> is_yield ob = false ->
      step (S f) (mk a b) = (ob, mk a' b').
    Proof. intros Ha Hb Hn. rewrite mk_step, Ha, Hb. destruct ob; try reflexivity; discriminate. Qed.

    (** the output list ends as soon as either operand ends: after n common values, if the left operand
        stops, or the left has one more value and the right stops, output n is StopIteration *)
    Lemma node_ends f n a b vas vbs a' b' :
      vals f n a = Some (vas, a') -> vals f n b = Some (vbs, b') ->
      (exists a'', value f a' = (Stop, a'')) \/
      (exists v a'' b'', value f a' = (Yield v, a'') /\ value f b' = (Stop, b'')) ->
      exists p', outputs (S f) (n + 1) (mk a b) = (zipw g vas vbs ++ [Stop], p').
    Proof.
      intros Ha Hb H. rewrite outputs_app, (node_lift f n _ _ _ _ _ _ Ha Hb). rewrite outputs_S.
      destruct H as [[a'' E]|[v [a'' [b'' [E1 E2]]]]].
      - rewrite (node_left_ends _ _ _ _ _ E eq_refl). eexists. reflexivity.
      - rewrite (node_right_ends _ _ _ _ _ _ _ E1 E2 eq_refl). eexists. reflexivity.
    Qed.

    (** the same node as an operand of an enclosing expression: if every element is a value *)
    Lemma node_vals f n a b vas vbs a' b' zs :
      vals f n a = Some (vas, a') -> vals f n b = Some (vbs, b') ->
      all_values (zipw g vas vbs) = Some zs ->
      vals (S (S f)) n (AP (mk a b)) = Some (zs, AP (mk a' b')).
    Proof.
      intros Ha Hb Hz. apply vals_pattern_outputs.
      rewrite (node_lift f n _ _ _ _ _ _ Ha Hb), (all_values_map _ _ Hz). reflexivity.
    Qed.
  End Node.

  (** ** The 15 PBinOp classes and PAnd *)
  Lemma binop_lift o f n a b vas vbs a' b' :
    vals f n a = Some (vas, a') -> vals f n b = Some (vbs, b') ->
    outputs (S f) n (PBinOp o a b) = (zipw (elem o) vas vbs, PBinOp o a' b').
  Proof. apply (node_lift (PBinOp o) (elem o)). intros. apply step_binop_eq. Qed.

  Lemma binop_ends o f n a b vas vbs a' b' :
    vals f n a = Some (vas, a') -> vals f n b = Some (vbs, b') ->
    (exists a'', value f a' = (Stop, a'')) \/
    (exists v a'' b'', value f a' = (Yield v, a'') /\ value f b' = (Stop, b'')) ->
    exists p', outputs (S f) (n + 1) (PBinOp o a b) = (zipw (elem o) vas vbs ++ [Stop], p').
  Proof. apply (node_ends (PBinOp o) (elem o)). intros. apply step_binop_eq. Qed.

  Lemma binop_vals o f n a b vas vbs a' b' zs :
    vals f n a = Some (vas, a') -> vals f n b = Some (vbs, b') ->
    all_values (zipw (elem o) vas vbs) = Some zs ->
    vals (S (S f)) n (AP (PBinOp o a b)) = Some (zs, AP (PBinOp o a' b')).
  Proof. apply (node_vals (PBinOp o) (elem o)). intros. apply step_binop_eq. Qed.

  Lemma and_lift f n a b vas vbs a' b' :
    vals f n a = Some (vas, a') -> vals f n b = Some (vbs, b') ->
    outputs (S f) n (PAnd a b) = (zipw elem_and vas vbs, PAnd a' b').
  Proof. apply (node_lift PAnd elem_and). intros. apply step_and_eq. Qed.

  Lemma and_ends f n a b vas vbs a' b' :
    vals f n a = Some (vas, a') -> vals f n b = Some (vbs, b') ->
    (exists a'', value f a' = (Stop, a'')) \/
    (exists v a'' b'', value f a' = (Yield v, a'') /\ value f b' = (Stop, b'')) ->
    exists p', outputs (S f) (n + 1) (PAnd a b) = (zipw elem_and vas vbs ++ [Stop], p').
  Proof. apply (node_ends PAnd elem_and). intros. apply step_and_eq. Qed.

  Lemma and_vals f n a b vas vbs a' b' zs :
    vals f n a = Some (vas, a') -> vals f n b = Some (vbs, b') ->
    all_values (zipw elem_and vas vbs) = Some zs ->
    vals (S (S f)) n (AP (PAnd a b)) = Some (zs, AP (PAnd a' b')).
  Proof. apply (node_vals PAnd elem_and). intros. apply step_and_eq. Qed.

  (** ** abs() *)
  Lemma abs_lift f n : forall a vs a',
    vals f n a = Some (vs, a') -> outputs (S f) n (PAbs a) = (map elem_abs vs, PAbs a').
  Proof.
    induction n as [|n IH]; intros a vs a' Ha.
    - cbn in Ha. inversion Ha; subst. reflexivity.
    - cbn [StepProofs.vals] in Ha. rewrite outputs_S, step_abs_eq.
      destruct (value f a) as [[va| | | |] a1]; try discriminate.
      destruct (vals f n a1) as [[vs1 a2]|] eqn:Ea; try discriminate.
      inversion Ha; subst. rewrite (IH _ _ _ Ea). reflexivity.
  Qed.

  Lemma abs_ends f a oa a' :
    value f a = (oa, a') -> is_yield oa = false -> step (S f) (PAbs a) = (oa, PAbs a').
  Proof. intros H Hn. rewrite step_abs_eq, H. destruct oa; try reflexivity; discriminate. Qed.

  Lemma abs_vals f n a vs a' zs :
    vals f n a = Some (vs, a') -> all_values (map elem_abs vs) = Some zs ->
    vals (S (S f)) n (AP (PAbs a)) = Some (zs, AP (PAbs a')).
  Proof.
    intros Ha Hz. apply vals_pattern_outputs. rewrite (abs_lift f n _ _ _ Ha), (all_values_map _ _ Hz). reflexivity.
  Qed.

  (** a rest stays a rest under abs; on numbers abs is the absolute value (any semantics of the binary operators) *)
  Lemma elem_abs_none : elem_abs VNone = Yield VNone.
  Proof. reflexivity. Qed.
  Lemma elem_abs_int z : elem_abs (VInt z) = Yield (VInt (Z.abs z)).
  Proof. reflexivity. Qed.
  Lemma elem_abs_float q : elem_abs (VFlt q) = Yield (VFlt (Qabs.Qabs q)).
  Proof. reflexivity. Qed.

  (** ** What the Python operators build (Pat/Dunder.v): constructor calls and their objects *)
  Lemma init_call2 f c x y ax ay :
    init_arg f x = Yield ax -> init_arg f y = Yield ay ->
    init (S f) (ECall c [x; y]) = construct binop LMAX f c [ax; ay].
  Proof.
    intros Hx Hy.
    change (init (S f) (ECall c [x; y]))
      with (obind (mapM (init_arg f) [x; y]) (fun args' => construct binop LMAX f c args')).
    cbn [mapM]. rewrite Hx, Hy. reflexivity.
  Qed.

  Lemma init_binop f o x y ax ay :
    init_arg f x = Yield ax -> init_arg f y = Yield ay ->
    init (S f) (ECall (CBinOp o) [x; y]) = Yield (PBinOp o ax ay).
  Proof. intros Hx Hy. rewrite (init_call2 _ _ _ _ _ _ Hx Hy). reflexivity. Qed.

  (** the symbol written, the class built, and whether the written operands are swapped *)
  Definition mirror (o : op) : op :=
    match o with OLt => OGt | OLe => OGe | OGt => OLt | OGe => OLe | _ => o end.
  Definition swapped_when_reflected (o : op) : bool :=
    match o with OAdd | OMul | OEq | ONe | OLt | OLe | OGt | OGe => true | _ => false end.

  (** pattern on the left: `l o r` is POp(l, r) *)
  Lemma dunder_left_pattern f o e r al ar :
    init_arg f (EP e) = Yield al -> init_arg f r = Yield ar ->
    init (S f) (dunder (SOp o) (EP e) r) = Yield (PBinOp o al ar).
  Proof. intros Hl Hr. cbn [dunder is_ep]. apply init_binop; assumption. Qed.

  (** scalar on the left, operator whose reflected method keeps the written order
      (- / // << >>): `c o p` is POp(c, p) *)
  Lemma dunder_reflected_in_order f o v r ar :
    swapped_when_reflected o = false -> o <> OMod -> o <> OPow ->
    init_arg f r = Yield ar ->
    init (S f) (dunder (SOp o) (EV v) r) = Yield (PBinOp o (AV v) ar).
  Proof.
    intros Hs Hm Hp Hr. assert (Hv : init_arg f (EV v) = Yield (AV v)).
    { destruct f; [destruct r; discriminate|reflexivity]. }
    destruct o; try discriminate; try congruence; cbn [dunder is_ep]; apply init_binop; assumption.
  Qed.

  (** % and **: the scalar is wrapped in a PConstant first: `c o p` is POp(PConstant(c), p) *)
  Lemma dunder_reflected_const f o v r ar :
    o = OMod \/ o = OPow -> init_arg (S (S (S f))) r = Yield ar ->
    init (S (S (S (S f)))) (dunder (SOp o) (EV v) r) = Yield (PBinOp o (AP (PConstant v)) ar).
  Proof.
    intros Ho Hr. destruct Ho as [-> | ->]; cbn [dunder is_ep]; apply init_binop; try exact Hr; reflexivity.
  Qed.

  (** + * == != < <= > >=: the reflected method builds the (mirrored) class with the operands swapped:
      `c o p` is P(mirror o)(p, c) *)
  Lemma dunder_reflected_swapped f o v r ar :
    swapped_when_reflected o = true -> init_arg f r = Yield ar ->
    init (S f) (dunder (SOp o) (EV v) r) = Yield (PBinOp (mirror o) ar (AV v)).
  Proof.
    intros Hs Hr. assert (Hv : init_arg f (EV v) = Yield (AV v)).
    { destruct f; [destruct r; discriminate|reflexivity]. }
    destruct o; try discriminate; cbn [dunder is_ep mirror]; apply init_binop; assumption.
  Qed.

  (** element-wise meaning of the swapped forms: if the operator satisfies g (mirror o) y x = g o x y on the
      values involved (commutativity of + and *, symmetry of == and !=, a < b iff b > a), then
      `c o p` gives c o p_i — the operands in the WRITTEN order *)
  Lemma zipw_swap {A B C} (g1 : A -> B -> C) (g2 : B -> A -> C) : forall l1 l2,
    (forall x y, In x l1 -> In y l2 -> g2 y x = g1 x y) -> zipw g2 l2 l1 = zipw g1 l1 l2.
  Proof.
    induction l1 as [|x xs IH]; intros [|y ys] H; try reflexivity. cbn [zipw].
    rewrite H by (left; reflexivity). f_equal. apply IH. intros; apply H; right; assumption.
  Qed.

  Lemma reflected_swapped_elementwise o f n c p vps p' :
    vals (S f) n p = Some (vps, p') ->
    (forall y, In y vps -> elem (mirror o) y c = elem o c y) ->
    outputs (S (S f)) n (PBinOp (mirror o) p (AV c)) = (zipw (elem o) (repeat c n) vps, PBinOp (mirror o) p' (AV c)).
  Proof.
    intros Hp Hsym. rewrite (binop_lift (mirror o) (S f) n p (AV c) vps (repeat c n) p' (AV c) Hp (vals_scalar _ _ _ _ _)).
    f_equal. apply zipw_swap. intros x y Hx Hy. apply repeat_spec in Hx. subst. apply Hsym. exact Hy.
  Qed.

  (** unary minus is 0 - p_i *)
  Lemma init_neg f x ax :
    init_arg f x = Yield ax -> init (S f) (dunder_neg x) = Yield (PBinOp OSub (AV (VInt 0)) ax).
  Proof.
    intro Hx. unfold dunder_neg. apply init_binop; [|exact Hx].
    destruct f; [destruct x; discriminate|reflexivity].
  Qed.

  Lemma neg_lift f n a vs a' :
    vals (S f) n a = Some (vs, a') ->
    outputs (S (S f)) n (PBinOp OSub (AV (VInt 0)) a) = (map (elem OSub (VInt 0)) vs, PBinOp OSub (AV (VInt 0)) a').
  Proof.
    intro Ha. rewrite (binop_lift OSub (S f) n _ _ _ _ _ _ (vals_scalar _ _ _ _ _) Ha). f_equal.
    pose proof (vals_length _ _ _ _ _ _ _ Ha) as L. clear Ha. revert n L.
    induction vs as [|v vs IH]; intros [|n] L; try discriminate; try reflexivity.
    cbn. f_equal. apply IH. simpl in L. lia.
  Qed.

  Lemma init_abs f x ax : init_arg f x = Yield ax -> init (S f) (dunder_abs x) = Yield (PAbs ax).
  Proof.
    intro Hx. unfold dunder_abs.
    change (init (S f) (ECall CAbs [x]))
      with (obind (mapM (init_arg f) [x]) (fun args' => construct binop LMAX f CAbs args')).
    cbn [mapM]. rewrite Hx. reflexivity.
  Qed.

  Lemma init_and f x y ax ay :
    init_arg f x = Yield ax -> init_arg f y = Yield ay -> init (S f) (dunder SAnd x y) = Yield (PAnd ax ay).
  Proof. intros Hx Hy. cbn [dunder]. rewrite (init_call2 _ _ _ _ _ _ Hx Hy). reflexivity. Qed.

  (** ** Nesting: operator expression trees of any depth *)

  (** A tree whose leaves are operand objects (any pattern object or scalar), each annotated with the [n]
      values it yields and the state it is left in. *)
  Inductive otree :=
  | TLeaf (a : arg) (vs : list val) (a' : arg)
  | TBin (o : op) (l r : otree)
  | TAnd (l r : otree)
  | TAbs (x : otree)
  | TNeg (x : otree).

  (** the object the expression builds, before and after n steps *)
  Fixpoint tree_arg (t : otree) : arg :=
    match t with
    | TLeaf a _ _ => a
    | TBin o l r => AP (PBinOp o (tree_arg l) (tree_arg r))
    | TAnd l r => AP (PAnd (tree_arg l) (tree_arg r))
    | TAbs x => AP (PAbs (tree_arg x))
    | TNeg x => AP (PBinOp OSub (AV (VInt 0)) (tree_arg x))
    end.
  Fixpoint tree_arg' (t : otree) : arg :=
    match t with
    | TLeaf _ _ a' => a'
    | TBin o l r => AP (PBinOp o (tree_arg' l) (tree_arg' r))
    | TAnd l r => AP (PAnd (tree_arg' l) (tree_arg' r))
    | TAbs x => AP (PAbs (tree_arg' x))
    | TNeg x => AP (PBinOp OSub (AV (VInt 0)) (tree_arg' x))
    end.

  (** the leaves do yield the values they are annotated with, when run with the fuel that reaches them
      (every level of nesting costs two units) *)
  Fixpoint tree_ok (f n : nat) (t : otree) : Prop :=
    match t with
    | TLeaf a vs a' => vals f n a = Some (vs, a')
    | TBin _ l r | TAnd l r =>
        match f with S (S f') => tree_ok f' n l /\ tree_ok f' n r | _ => False end
    | TAbs x => match f with S (S f') => tree_ok f' n x | _ => False end
    | TNeg x => match f with S (S (S f')) => tree_ok (S f') n x | _ => False end
    end.

  (** pointwise evaluation of the tree on the leaf values; None as soon as an inner element is not a value
      (an operator raised: the streams are no longer aligned afterwards) *)
  Fixpoint tree_vals (n : nat) (t : otree) : option (list val) :=
    match t with
    | TLeaf _ vs _ => Some vs
    | TBin o l r =>
        match tree_vals n l, tree_vals n r with
        | Some xs, Some ys => all_values (zipw (elem o) xs ys)
        | _, _ => None
        end
    | TAnd l r =>
        match tree_vals n l, tree_vals n r with
        | Some xs, Some ys => all_values (zipw elem_and xs ys)
        | _, _ => None
        end
    | TAbs x => match tree_vals n x with Some xs => all_values (map elem_abs xs) | None => None end
    | TNeg x => match tree_vals n x with Some xs => all_values (zipw (elem OSub) (repeat (VInt 0) n) xs) | None => None end
    end.

  Theorem tree_pointwise : forall t f n vs,
    tree_ok f n t -> tree_vals n t = Some vs -> vals f n (tree_arg t) = Some (vs, tree_arg' t).
  Proof.
    induction t as [a vs0 a'|o l IHl r IHr|l IHl r IHr|x IHx|x IHx]; intros f n vs Hok Hv; cbn [tree_arg tree_arg'].
    - cbn in Hok, Hv. inversion Hv; subst. exact Hok.
    - destruct f as [|[|f]]; try contradiction. destruct Hok as [Hl Hr]. cbn [tree_vals] in Hv.
      destruct (tree_vals n l) as [xs|] eqn:El; try discriminate.
      destruct (tree_vals n r) as [ys|] eqn:Er; try discriminate.
      eapply binop_vals; eauto.
    - destruct f as [|[|f]]; try contradiction. destruct Hok as [Hl Hr]. cbn [tree_vals] in Hv.
      destruct (tree_vals n l) as [xs|] eqn:El; try discriminate.
      destruct (tree_vals n r) as [ys|] eqn:Er; try discriminate.
      eapply and_vals; eauto.
    - destruct f as [|[|f]]; try contradiction. cbn [tree_vals] in Hv.
      destruct (tree_vals n x) as [xs|] eqn:Ex; try discriminate.
      eapply abs_vals; eauto.
    - destruct f as [|[|[|f]]]; try contradiction. cbn [tree_vals] in Hv.
      destruct (tree_vals n x) as [xs|] eqn:Ex; try discriminate.
      eapply binop_vals; eauto. apply vals_scalar.
  Qed.
End Op.

(** * The concrete operators of Pat/Val.v satisfy the side conditions of the reflected forms
      (on None, bool, int, float and str operands: what C08 quantifies over) *)
Section Concrete.
  Definition scalar_val (v : val) : bool :=
    match v with VNone | VBool _ | VInt _ | VFlt _ | VStr _ => true | _ => false end.

  Lemma mk_flt_compat p q : (p == q)%Q -> mk_flt p = mk_flt q.
  Proof. intro H. unfold mk_flt, dyadic_ok. rewrite (Qred_complete _ _ H). reflexivity. Qed.

  Lemma Qeq_bool_sym p q : Qeq_bool p q = Qeq_bool q p.
  Proof.
    destruct (Qeq_bool p q) eqn:E1, (Qeq_bool q p) eqn:E2; try reflexivity.
    - apply Qeq_bool_iff in E1. symmetry in E1. apply Qeq_bool_iff in E1. congruence.
    - apply Qeq_bool_iff in E2. symmetry in E2. apply Qeq_bool_iff in E2. congruence.
  Qed.

  Lemma py_eq_sym_scalar a b : scalar_val a = true -> scalar_val b = true -> py_eq a b = py_eq b a.
  Proof.
    destruct a, b; intros Ha Hb; try discriminate; cbn; try reflexivity; try apply Qeq_bool_sym.
    apply String.eqb_sym.
  Qed.

  Definition num_rule (o : op) (x : Q) (fx : bool) (y : Q) (fy : bool) : outcome val :=
    if fx || fy then
      if is_cmp o then flt_binop o x y
      else if int_to_float_ok x fx && int_to_float_ok y fy then flt_binop o x y else Inexact
    else int_binop o (Qfloor x) (Qfloor y).

  Lemma binop_num_num o a b x fx y fy :
    o <> OEq -> o <> ONe -> num_of a = Some (x, fx) -> num_of b = Some (y, fy) ->
    Val.binop o a b = num_rule o x fx y fy.
  Proof. intros H1 H2 Ha Hb. unfold Val.binop, num_rule. rewrite Ha, Hb. destruct o; congruence. Qed.

  Lemma num_of_cases v : scalar_val v = true ->
    (exists x fx, num_of v = Some (x, fx)) \/ v = VNone \/ (exists s, v = VStr s).
  Proof. destruct v; try discriminate; intros _; cbn; eauto. Qed.

  (** + and * commute *)
  Lemma binop_comm o a b : o = OAdd \/ o = OMul -> scalar_val a = true -> scalar_val b = true ->
    Val.binop o a b = Val.binop o b a.
  Proof.
    intros Ho Ha Hb.
    assert (N1 : o <> OEq) by (destruct Ho; subst; discriminate).
    assert (N2 : o <> ONe) by (destruct Ho; subst; discriminate).
    destruct (num_of_cases a Ha) as [[x [fx Ea]]|[->|[sa ->]]];
    destruct (num_of_cases b Hb) as [[y [fy Eb]]|[->|[sb ->]]].
    - rewrite (binop_num_num o a b _ _ _ _ N1 N2 Ea Eb), (binop_num_num o b a _ _ _ _ N1 N2 Eb Ea).
      unfold num_rule. rewrite (orb_comm fy fx), (andb_comm (int_to_float_ok y fy)).
      assert (F : flt_binop o x y = flt_binop o y x).
      { destruct Ho as [-> | ->]; cbn [flt_binop]; apply mk_flt_compat; ring. }
      assert (I : int_binop o (Qfloor x) (Qfloor y) = int_binop o (Qfloor y) (Qfloor x)).
      { destruct Ho as [-> | ->]; cbn [int_binop]; f_equal; f_equal; ring. }
      rewrite F, I. reflexivity.
    - destruct a; try discriminate; destruct Ho as [-> | ->]; reflexivity.
    - destruct a; try discriminate; destruct Ho as [-> | ->]; reflexivity.
    - destruct b; try discriminate; destruct Ho as [-> | ->]; reflexivity.
    - destruct Ho as [-> | ->]; reflexivity.
    - destruct Ho as [-> | ->]; reflexivity.
    - destruct b; try discriminate; destruct Ho as [-> | ->]; reflexivity.
    - destruct Ho as [-> | ->]; reflexivity.
    - destruct Ho as [-> | ->]; reflexivity.
  Qed.

  (** == and != are symmetric *)
  Lemma binop_eq_sym o a b : o = OEq \/ o = ONe -> scalar_val a = true -> scalar_val b = true ->
    Val.binop o a b = Val.binop o b a.
  Proof. intros [-> | ->] Ha Hb; unfold Val.binop; rewrite (py_eq_sym_scalar a b Ha Hb); reflexivity. Qed.

  (** a < b is b > a, etc. *)
  Lemma binop_mirror o a b : o = OLt \/ o = OLe \/ o = OGt \/ o = OGe ->
    scalar_val a = true -> scalar_val b = true ->
    Val.binop (mirror o) b a = Val.binop o a b.
  Proof.
    intros Ho Ha Hb.
    assert (N1 : o <> OEq) by (destruct Ho as [|[|[|]]]; subst; discriminate).
    assert (N2 : o <> ONe) by (destruct Ho as [|[|[|]]]; subst; discriminate).
    assert (M1 : mirror o <> OEq) by (destruct Ho as [|[|[|]]]; subst; discriminate).
    assert (M2 : mirror o <> ONe) by (destruct Ho as [|[|[|]]]; subst; discriminate).
    destruct (num_of_cases a Ha) as [[x [fx Ea]]|[->|[sa ->]]];
    destruct (num_of_cases b Hb) as [[y [fy Eb]]|[->|[sb ->]]].
    - rewrite (binop_num_num o a b _ _ _ _ N1 N2 Ea Eb), (binop_num_num (mirror o) b a _ _ _ _ M1 M2 Eb Ea).
      unfold num_rule. rewrite (orb_comm fy fx).
      destruct Ho as [->|[->|[->| ->]]]; reflexivity.
    - destruct a; try discriminate; destruct Ho as [->|[->|[->| ->]]]; reflexivity.
    - destruct a; try discriminate; destruct Ho as [->|[->|[->| ->]]]; reflexivity.
    - destruct b; try discriminate; destruct Ho as [->|[->|[->| ->]]]; reflexivity.
    - destruct Ho as [->|[->|[->| ->]]]; reflexivity.
    - destruct Ho as [->|[->|[->| ->]]]; reflexivity.
    - destruct b; try discriminate; destruct Ho as [->|[->|[->| ->]]]; reflexivity.
    - destruct Ho as [->|[->|[->| ->]]]; reflexivity.
    - destruct Ho as [->|[->|[->| ->]]]; reflexivity.
  Qed.

  (** hence: for every operator whose reflected form swaps the operands, the element computed is the one
      for the WRITTEN order *)
  Lemma elem_reflected o c y : swapped_when_reflected o = true -> scalar_val c = true -> scalar_val y = true ->
    elem Val.binop (mirror o) y c = elem Val.binop o c y.
  Proof.
    intros Hs Hc Hy. unfold elem. rewrite (orb_comm (is_none y)).
    destruct (is_none c || is_none y); [reflexivity|].
    destruct o; try discriminate; cbn [mirror].
    - apply binop_comm; auto.
    - apply binop_comm; auto.
    - apply binop_eq_sym; auto.
    - apply binop_eq_sym; auto.
    - apply (binop_mirror OGt); auto.
    - apply (binop_mirror OGe); auto.
    - apply (binop_mirror OLt); auto.
    - apply (binop_mirror OLe); auto.
  Qed.
End Concrete.

(* Pat/Dag.v — pattern GRAPHS with shared sub-pattern objects (DAGs), for property C09 ("a copy() continues with
   exactly the output the original would have produced while advancing either object never affects the other").

   The deep embedding of Pat/Syntax.v is a tree: an object reachable from two parents has no image there, copy() is the
   identity and independence holds by construction.  Here object identity is explicit:

     heap     the stateful pattern objects of a program, by address; a cell is ANY object of Pat/Syntax.v (a tree of its
              own), advanced by Step.step;
     dx       an expression over the heap: DRef a is "the object at address a" - the same address may occur any number
              of times, below different parents -, combined by the operator classes (PAdd ... : PBinOp.__next__ reads
              Pattern.value(self.a) then Pattern.value(self.b)) and PAbs; these nodes have no state of their own, so
              sharing one of THEM is not observable and they are kept as a tree;
     droot    the object next() is called on: such an expression, or a PDict over expressions
              (PDict.__next__: dict([(k, Pattern.value(vdict[k])) for k in vdict]) - keys in order, a StopIteration under
              a later key leaves the cells read under the earlier keys advanced).

   One next() on a root steps every cell once PER OCCURRENCE, in evaluation order:
     c = PSeries(0, 1, 10); PDict({"note": c + 60, "amplitude": c * 10})   yields (60, 10), (62, 30), ...

   copy() = copy.deepcopy(self) with ONE memo for the whole traversal: every reachable cell is copied exactly once, to a
   new address, and every reference is redirected through the memo - so sharing is preserved (copy_root).  The variant
   that copies the value under each key with a memo of its own (copy_per_key; the seeded change C09-f) is here as a
   negative control.  No proofs here. *)
From Isobar Require Import Base.Prelude Pat.Val Pat.Syntax Pat.Step.
From Coq Require Import String.
Open Scope Z_scope.

Definition heap := list pat.

Inductive dx :=
| DRef (a : nat)
| DVal (v : val)
| DBin (o : op) (l r : dx)
| DAbs (x : dx).

Inductive droot :=
| RExpr (d : dx)
| RDict (kv : list (string * dx)).

(** addresses, in evaluation (= deepcopy traversal) order, with repetitions *)
Fixpoint refs (d : dx) : list nat :=
  match d with
  | DRef a => [a]
  | DVal _ => []
  | DBin _ l r => refs l ++ refs r
  | DAbs x => refs x
  end.
Fixpoint kvrefs (kv : list (string * dx)) : list nat :=
  match kv with
  | [] => []
  | (_, d) :: r => refs d ++ kvrefs r
  end.
Definition rrefs (r : droot) : list nat := match r with RExpr d => refs d | RDict kv => kvrefs kv end.

(** a program: every address is allocated *)
Definition wf (r : droot) (h : heap) : Prop := forall a, In a (rrefs r) -> (a < List.length h)%nat.

Fixpoint rename (rho : nat -> nat) (d : dx) : dx :=
  match d with
  | DRef a => DRef (rho a)
  | DVal v => DVal v
  | DBin o l r => DBin o (rename rho l) (rename rho r)
  | DAbs x => DAbs (rename rho x)
  end.
Definition kvrename (rho : nat -> nat) (kv : list (string * dx)) : list (string * dx) :=
  map (fun kd => (fst kd, rename rho (snd kd))) kv.
Definition rrename (rho : nat -> nat) (r : droot) : droot :=
  match r with RExpr d => RExpr (rename rho d) | RDict kv => RDict (kvrename rho kv) end.

Section Engine.
  Variable binop : op -> val -> val -> outcome val.
  Variable LENGTH_MAX : nat.
  Variable fuel : nat.

  (** next() of an expression node *)
  Fixpoint dstep (d : dx) (h : heap) : outcome val * heap :=
    match d with
    | DRef a =>
        match nth_error h a with
        | Some p => let '(o, p') := step binop LENGTH_MAX fuel p in (o, update_nth a p' h)
        | None => (Inexact, h)                               (* dangling address: not a program *)
        end
    | DVal v => (Yield v, h)
    | DBin o l r =>
        let '(ol, h1) := dstep l h in                        (* a = Pattern.value(self.a) *)
        match ol with
        | Yield va =>
            let '(or, h2) := dstep r h1 in                   (* b = Pattern.value(self.b) *)
            match or with
            | Yield vb => ((if is_none va || is_none vb then Yield VNone else binop o va vb), h2)
            | _ => (or, h2)
            end
        | _ => (ol, h1)
        end
    | DAbs x =>
        let '(o, h1) := dstep x h in
        match o with
        | Yield v => ((if is_none v then Yield VNone else py_abs v), h1)
        | _ => (o, h1)
        end
    end.

  (** PDict: the values under the keys, in key order *)
  Fixpoint dkv (kv : list (string * dx)) (h : heap) : outcome (list (string * val)) * heap :=
    match kv with
    | [] => (Yield [], h)
    | (k, d) :: r =>
        let '(o, h1) := dstep d h in
        match o with
        | Yield v => let '(os, h2) := dkv r h1 in (omap (cons (k, v)) os, h2)
        | _ => (ocast o, h1)
        end
    end.

  Definition rstep (r : droot) (h : heap) : outcome val * heap :=
    match r with
    | RExpr d => dstep d h
    | RDict kv => let '(o, h') := dkv kv h in (omap VDict o, h')
    end.

  (** the heap after n calls of next() on r alone, and the result of call number n (counted from 0) *)
  Fixpoint rrun (n : nat) (r : droot) (h : heap) : heap :=
    match n with
    | O => h
    | S n' => rrun n' r (snd (rstep r h))
    end.
  Definition rout (r : droot) (h : heap) (n : nat) : outcome val := fst (rstep r (rrun n r h)).

  (** copy.deepcopy(root): the cells reachable from the root, each once, in first-visit order; the copy of the i-th of
      them is allocated at address length h + i; the memo maps an address to its copy's address *)
  Fixpoint dedup (seen l : list nat) : list nat :=
    match l with
    | [] => []
    | a :: r => if existsb (Nat.eqb a) seen then dedup seen r else a :: dedup (a :: seen) r
    end.
  Definition visit (r : droot) : list nat := dedup [] (rrefs r).
  Fixpoint index_of (a : nat) (l : list nat) : option nat :=
    match l with
    | [] => None
    | x :: r => if Nat.eqb a x then Some O else option_map S (index_of a r)
    end.
  Definition memo (base : nat) (vis : list nat) (a : nat) : nat :=
    match index_of a vis with Some i => (base + i)%nat | None => a end.
  Definition cells (h : heap) (vis : list nat) : list pat :=
    flat_map (fun a => match nth_error h a with Some p => [p] | None => [] end) vis.
  Definition copy_root (r : droot) (h : heap) : droot * heap :=
    let vis := visit r in (rrename (memo (List.length h) vis) r, h ++ cells h vis).

  (** negative control (the seeded change C09-f): a PDict copied key by key, each value with a memo of its own *)
  Fixpoint copy_per_key (kv : list (string * dx)) (h : heap) : list (string * dx) * heap :=
    match kv with
    | [] => ([], h)
    | (k, d) :: r =>
        match copy_root (RExpr d) h with
        | (RExpr d', h1) => let '(r', h2) := copy_per_key r h1 in ((k, d') :: r', h2)
        | (_, h1) => ([], h1)
        end
    end.

  (** scripts over handles: handle 0 is the root the program built, DCopy i appends a copy of handle i *)
  Inductive dop := DNext (i : nat) | DNextN (i : nat) (n : nat) | DCopy (i : nat).
  Definition world := (list droot * heap)%type.

  (* nextn(n): at most n calls of next; StopIteration ends the loop; any other exception propagates *)
  Fixpoint dtake (m : nat) (r : droot) (h : heap) : outcome (list val) * heap :=
    match m with
    | O => (Yield [], h)
    | S m' =>
        let '(o, h1) := rstep r h in
        match o with
        | Yield v => let '(os, h2) := dtake m' r h1 in (omap (cons v) os, h2)
        | Stop => (Yield [], h1)
        | _ => (ocast o, h1)
        end
    end.

  Definition dexec (w : world) (o : dop) : option (outcome val) * world :=
    match o with
    | DNext i => match nth_error (fst w) i with
                 | Some r => let '(x, h') := rstep r (snd w) in (Some x, (fst w, h'))
                 | None => (None, w)
                 end
    | DNextN i n => match nth_error (fst w) i with
                    | Some r => let '(x, h') := dtake n r (snd w) in (Some (omap VList x), (fst w, h'))
                    | None => (None, w)
                    end
    | DCopy i => match nth_error (fst w) i with
                 | Some r => let '(r', h') := copy_root r (snd w) in (None, (fst w ++ [r'], h'))
                 | None => (None, w)
                 end
    end.
  Fixpoint dtrace (w : world) (ops : list dop) : list (outcome val) :=
    match ops with
    | [] => []
    | o :: r => let '(x, w') := dexec w o in
                match x with Some v => v :: dtrace w' r | None => dtrace w' r end
    end.

  (** what the property demands of such a script, from the results s 0, s 1, ... of repeated next() on the ORIGINAL
      alone: every handle is a position in that sequence; next() reads at the position and advances it; a copy starts
      at the position of the handle it was taken from (this is the oracle of harness/c09.py, `simulate`) *)
  Fixpoint stake (s : nat -> outcome val) (m : nat) (k : nat) : outcome (list val) * nat :=
    match m with
    | O => (Yield [], k)
    | S m' => match s k with
              | Yield v => let '(os, k') := stake s m' (S k) in (omap (cons v) os, k')
              | Stop => (Yield [], S k)
              | o => (ocast o, S k)
              end
    end.
  Fixpoint simulate (s : nat -> outcome val) (pos : list nat) (ops : list dop) : list (outcome val) :=
    match ops with
    | [] => []
    | DNext i :: r => match nth_error pos i with
                      | Some k => s k :: simulate s (update_nth i (S k) pos) r
                      | None => simulate s pos r
                      end
    | DNextN i n :: r => match nth_error pos i with
                         | Some k => let '(x, k') := stake s n k in omap VList x :: simulate s (update_nth i k' pos) r
                         | None => simulate s pos r
                         end
    | DCopy i :: r => match nth_error pos i with
                      | Some k => simulate s (pos ++ [k]) r
                      | None => simulate s pos r
                      end
    end.

  (** comparison with the implementation's observations (a copy() is observed as None) *)
  Definition dobs_eqb (a b : outcome val) : bool :=
    match a, b with
    | Yield x, Yield y => val_eqb x y
    | Stop, Stop => true
    | Raise e, Raise e' => exn_eqb e e'
    | _, _ => false
    end.
  Fixpoint dcompare (w : world) (ops : list dop) (expected : list (outcome val)) : nat :=   (* 0 agree, 1 disagree, 2 discard *)
    match ops, expected with
    | [], [] => 0%nat
    | o :: r, x :: xs =>
        let '(ob, w') := dexec w o in
        match ob with
        | Some (OutOfFuel | Inexact) => 2%nat
        | Some v => if dobs_eqb v x then dcompare w' r xs else 1%nat
        | None => match x with Yield VNone => dcompare w' r xs | _ => 1%nat end
        end
    | _, _ => 1%nat
    end.
End Engine.

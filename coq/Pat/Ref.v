(* Pat/Ref.v — REFERENCE DEFINITIONS of the deterministic pattern classes (property C10).

   Part 1: closed-form list functions, written from the class documentation (docstrings of
   isobar/pattern/*.py, docs/patterns/library.md) and independently of Pat/Step.v: a finite pattern denotes a
   [list val], an endless one a function [nat -> val] ([sem]); every class is a function on these.
   Part 2: the reference interpreter [ref_eval : pexpr -> option sem] on constructor-call expressions
   (list functions composed).
   Part 3: the two classes whose whole output is computed up front and that are not in the deep embedding:
   PEuclidean._euclidean (Bjorklund) and the PArpeggiator orders, transcribed from sequence.py line by line,
   together with the documented arrangement each order is proved equal to.

   No proofs here (Pat/RefProofs.v). *)
From Isobar Require Import Base.Prelude Pat.Val Pat.Syntax.
From Coq Require Import String QArith.
Open Scope Z_scope.

(* ================================================================================================ *)
(** * Part 1: what a pattern denotes, and the closed forms *)

Inductive sem :=
| Fin (l : list val)            (* the pattern yields exactly these values, then raises StopIteration for ever *)
| Inf (g : nat -> val).         (* the pattern never ends; output i is [g i] *)

(** output i of a denotation *)
Definition at_ (s : sem) (i : nat) : outcome val :=
  match s with
  | Fin l => match nth_error l i with Some v => Yield v | None => Stop end
  | Inf g => Yield (g i)
  end.

Definition zi (z : Z) : val := VInt z.

(** PSeries(start, step, length): start + i*step for i < length *)
Definition ref_series (start step : Z) (length : nat) : list val :=
  map (fun i => zi (start + Z.of_nat i * step)) (seq 0 length).

(** PRange(start, end, step): start, start+step, ... strictly before end (step > 0) / strictly after end (step < 0) *)
Definition range_len (start end_ step : Z) : nat :=
  if 0 <? step then Z.to_nat ((end_ - start + step - 1) / step)
  else if step <? 0 then Z.to_nat ((start - end_ + (- step) - 1) / (- step))
  else 0%nat.
Definition ref_range (start end_ step : Z) : list val :=
  map (fun i => zi (start + Z.of_nat i * step)) (seq 0 (range_len start end_ step)).

(** PGeom(start, multiply, length): start * multiply^i for i < length *)
Definition ref_geom (start mult : Z) (length : nat) : list val :=
  map (fun i => zi (start * mult ^ Z.of_nat i)) (seq 0 length).

(** PSequence(list, repeats): the list, [repeats] times *)
Fixpoint repeat_list {A} (l : list A) (n : nat) : list A :=
  match n with O => [] | S n' => l ++ repeat_list l n' end.
Definition ref_sequence (l : list val) (repeats : nat) : list val := repeat_list l repeats.

(** PImpulse(period): 1 every [period] events, otherwise 0 *)
Definition ref_impulse (period : Z) (i : nat) : val := zi (if Z.of_nat i mod period =? 0 then 1 else 0).

(** PStutter(p, count): each value [count] times *)
Definition ref_stutter (count : nat) (l : list val) : list val := flat_map (fun v => repeat v count) l.

(** PLoop(p, count): the values, [count] times *)
Definition ref_loop (count : nat) (l : list val) : list val := repeat_list l count.

(** PPad(p, length): rests appended until the length is reached *)
Definition ref_pad (length : nat) (l : list val) : list val := l ++ repeat VNone (length - List.length l).

(** PPadToMultiple(p, multiple, minimum_pad): at least [minimum_pad] rests, then rests until the length is divisible *)
Definition padding (len multiple minimum_pad : nat) : nat :=
  minimum_pad + (multiple - 1 - (len + minimum_pad + multiple - 1) mod multiple)%nat.
Definition ref_pad_to_multiple (multiple minimum_pad : nat) (l : list val) : list val :=
  l ++ repeat VNone (padding (List.length l) multiple minimum_pad).

(** PSubsequence(p, offset, length) *)
Definition ref_subsequence (offset length : nat) (l : list val) : list val := firstn length (skipn offset l).

(** PReverse *)
Definition ref_reverse (l : list val) : list val := rev l.

(** PPingPong(p, count): forwards and back [count] times, ending on the first value *)
Definition ref_pingpong (count : nat) (l : list val) : list val :=
  match l with
  | [] => []
  | [x] => [x]                       (* nothing to bounce between *)
  | x :: _ => repeat_list (l ++ tl (rev (tl l))) count ++ [x]
  end.

(** PConcatenate *)
Definition ref_concatenate (ls : list (list val)) : list val := List.concat ls.

(** PCollapse: rests dropped *)
Definition ref_collapse (l : list val) : list val := filter (fun v => negb (is_none v)) l.

(** PNoRepeats: a value equal (Python ==) to the one before it is dropped *)
Fixpoint ref_norepeats_from (prev : val) (l : list val) : list val :=
  match l with
  | [] => []
  | v :: r => if py_eq v prev then ref_norepeats_from prev r else v :: ref_norepeats_from v r
  end.

(** PChanged: 1 where the value differs from the one before (the first value is only compared against) *)
Fixpoint ref_changed_from (prev : val) (l : list val) : list val :=
  match l with
  | [] => []
  | v :: r => zi (if py_eq v prev then 0 else 1) :: ref_changed_from v r
  end.
Definition ref_changed (l : list val) : list val :=
  match l with [] => [] | x :: r => ref_changed_from x r end.

(** PDiff on integer / rest streams: differences of neighbours, a rest if either is a rest *)
Definition diff1 (prev v : val) : val :=
  match prev, v with
  | VInt a, VInt b => VInt (b - a)
  | _, _ => VNone
  end.
Fixpoint ref_diff_from (prev : val) (l : list val) : list val :=
  match l with
  | [] => []
  | v :: r => diff1 prev v :: ref_diff_from v r
  end.
Definition ref_diff (l : list val) : list val :=
  match l with [] => [] | x :: r => ref_diff_from x r end.

(** PAbs on integer / rest streams *)
Definition abs1 (v : val) : val :=
  match v with
  | VInt z => VInt (Z.abs z)
  | VBool b => VInt (if b then 1 else 0)
  | VFlt q => VFlt (Qabs.Qabs q)
  | _ => VNone
  end.
Definition ref_abs (l : list val) : list val := map abs1 l.

(** PCounter: number of rising zero-crossings so far *)
Fixpoint ref_counter_from (prev count : Z) (l : list Z) : list val :=
  match l with
  | [] => []
  | t :: r =>
      let count' := if (0 <? t) && (prev <=? 0) then count + 1 else count in
      let prev' := if ((0 <? t) && (prev <=? 0)) || ((t <=? 0) && (0 <? prev)) then t else prev in
      zi count' :: ref_counter_from prev' count' r
  end.

(** PWrap(p, min, max) on integers: into [min, max) *)
Definition ref_wrap1 (mn mx v : Z) : Z := mn + (v - mn) mod (mx - mn).

(** PSkipIf, pointwise *)
Definition skip1 (v s : val) : val := if truthy s then VNone else v.

(** ** the same definitions on denotations (finite or endless) *)

Fixpoint zipw {A B C} (f : A -> B -> C) (l1 : list A) (l2 : list B) : list C :=
  match l1, l2 with
  | a :: r1, b :: r2 => f a b :: zipw f r1 r2
  | _, _ => []
  end.
Definition gprefix (g : nat -> val) (n : nat) : list val := map g (seq 0 n).

Definition sem_map (f : val -> val) (s : sem) : sem :=
  match s with Fin l => Fin (map f l) | Inf g => Inf (fun i => f (g i)) end.

(* element-wise combination: ends with the shorter operand *)
Definition sem_zip (f : val -> val -> val) (s1 s2 : sem) : sem :=
  match s1, s2 with
  | Fin l1, Fin l2 => Fin (zipw f l1 l2)
  | Fin l1, Inf g2 => Fin (zipw f l1 (gprefix g2 (List.length l1)))
  | Inf g1, Fin l2 => Fin (zipw f (gprefix g1 (List.length l2)) l2)
  | Inf g1, Inf g2 => Inf (fun i => f (g1 i) (g2 i))
  end.

(* a function of neighbouring values (PChanged, PDiff): output i is h s_i s_(i+1) *)
Fixpoint adj_from (h : val -> val -> val) (prev : val) (l : list val) : list val :=
  match l with [] => [] | v :: r => h prev v :: adj_from h v r end.
Definition sem_adj (h : val -> val -> val) (s : sem) : sem :=
  match s with
  | Fin [] => Fin []
  | Fin (x :: r) => Fin (adj_from h x r)
  | Inf g => Inf (fun i => h (g i) (g (S i)))
  end.
Definition changed1 (prev v : val) : val := zi (if py_eq v prev then 0 else 1).

Definition sem_stutter (k : nat) (s : sem) : sem :=
  match s with Fin l => Fin (ref_stutter k l) | Inf g => Inf (fun i => g (i / k)%nat) end.
(* an endless input is never padded, looped or reversed: it is what it is *)
Definition sem_pad (n : nat) (s : sem) : sem :=
  match s with Fin l => Fin (ref_pad n l) | Inf g => Inf g end.
Definition sem_pad_to_multiple (m mp : nat) (s : sem) : sem :=
  match s with Fin l => Fin (ref_pad_to_multiple m mp l) | Inf g => Inf g end.
Definition sem_loop (c : nat) (s : sem) : sem :=
  match s with Fin l => Fin (ref_loop c l) | Inf g => Inf g end.
Definition sem_subsequence (off n : nat) (s : sem) : sem :=
  match s with Fin l => Fin (ref_subsequence off n l) | Inf g => Fin (map (fun i => g (off + i)%nat) (seq 0 n)) end.

(* ================================================================================================ *)
(** * Part 2: the reference interpreter on expressions — list functions composed.
    [ref_eval n e]: what the expression e (nesting depth at most n) denotes; None = outside the fragment covered
    by the composition theorem, or a constructor call that raises (PChanged of an empty input). *)

Definition ref_arg (rec : pexpr -> option sem) (a : earg) : option sem :=
  match a with
  | EV v => Some (Inf (fun _ => v))            (* a scalar operand is the constant stream *)
  | EP e => rec e
  | _ => None
  end.

Definition ref_call (rec : pexpr -> option sem) (c : cls) (args : list earg) : option sem :=
  match c with
  | CConstant => match args with [EV v] => Some (Inf (fun _ => v)) | _ => None end
  | CSeries =>
      match args with
      | [EV (VInt a); EV (VInt d); EV (VInt n)] => if 0 <=? n then Some (Fin (ref_series a d (Z.to_nat n))) else None
      | _ => None
      end
  | CRange =>
      match args with
      | [EV (VInt a); EV (VInt e); EV (VInt d)] => if d =? 0 then None else Some (Fin (ref_range a e d))
      | _ => None
      end
  | CGeom =>
      match args with
      | [EV (VInt a); EV (VInt m); EV (VInt n)] => if 0 <=? n then Some (Fin (ref_geom a m (Z.to_nat n))) else None
      | _ => None
      end
  | CStutter =>
      match args with
      | [EP e; EV (VInt k)] => if 0 <? k then option_map (sem_stutter (Z.to_nat k)) (rec e) else None
      | _ => None
      end
  | CSkipIf =>
      match args with
      | [a; b] => match ref_arg rec a, ref_arg rec b with
                  | Some sa, Some sb => Some (sem_zip skip1 sa sb)
                  | _, _ => None
                  end
      | _ => None
      end
  | CChanged =>
      match args with
      | [EP e] => match rec e with
                  | Some (Fin []) | None => None          (* the constructor reads the first value *)
                  | Some s => Some (sem_adj changed1 s)
                  end
      | _ => None
      end
  | _ => None
  end.

Fixpoint ref_eval (n : nat) (e : pexpr) : option sem :=
  match n with
  | O => None
  | S n' => match e with ECall c args => ref_call (ref_eval n') c args end
  end.

(* ================================================================================================ *)
(** * Part 3: Euclidean rhythms and arpeggiator orders *)

(** ** PEuclidean._euclidean(length, mod) — Bjorklund's algorithm as sequence.py has it.
    A group is a list over {1, 0} (0 = the rest None). *)
Fixpoint zl_eqb (a b : list Z) : bool :=
  match a, b with
  | [], [] => true
  | x :: a', y :: b' => (x =? y) && zl_eqb a' b'
  | _, _ => false
  end.

(* _split_remainder: the groups equal to the first one, and the others *)
Definition split_remainder (l : list (list Z)) : list (list Z) * list (list Z) :=
  match l with
  | [] => ([], [])
  | x :: _ => (filter (zl_eqb x) l, filter (fun y => negb (zl_eqb x y)) l)
  end.

Fixpoint zip_app (a b : list (list Z)) : list (list Z) :=
  match a, b with
  | x :: a', y :: b' => (x ++ y) :: zip_app a' b'
  | _, _ => []
  end.

(* _interleave: [a[n] + b[n] ...] followed by the unpaired tail of the longer list *)
Definition interleave (a b : list (list Z)) : list (list Z) :=
  zip_app a b ++ skipn (List.length b) a ++ skipn (List.length a) b.

(* while True: if len(remainder) <= 1: break; seqs = interleave(seqs, remainder); seqs, remainder = split(seqs) *)
Fixpoint euclid_loop (fuel : nat) (seqs remainder : list (list Z)) : list (list Z) :=
  match fuel with
  | O => seqs ++ remainder
  | S f =>
      if (List.length remainder <=? 1)%nat then seqs ++ remainder
      else let '(s', r') := split_remainder (interleave seqs remainder) in euclid_loop f s' r'
  end.

(* seqs = [(1,)] * mod + [(None,)] * (length - mod); ...; reduce(+, seqs + remainder) *)
Definition euclid (length mod_ : nat) : list Z :=
  let '(s, r) := split_remainder (repeat [1] mod_ ++ repeat [0] (length - mod_)) in
  List.concat (euclid_loop length s r).

(** the documented properties, as decidable checks *)
Definition zsum (l : list Z) : Z := fold_right Z.add 0 l.
Definition window (d : list Z) (i w : nat) : Z := zsum (firstn w (skipn i d)).
(* every two windows of the same length (cyclically) hold numbers of onsets that differ by at most 1.
   The sums of the windows of length w+1 are those of length w plus the element that enters: one pass per length. *)
Fixpoint zipadd (a b : list Z) : list Z :=
  match a, b with
  | x :: a', y :: b' => (x + y) :: zipadd a' b'
  | _, _ => []
  end.
Definition zmax (l : list Z) : Z := fold_right Z.max (hd 0 l) l.
Definition zmin (l : list Z) : Z := fold_right Z.min (hd 0 l) l.
Fixpoint even_loop (fuel : nat) (cs dtail : list Z) : bool :=
  match fuel with
  | O => true
  | S f => let cs' := zipadd cs dtail in (zmax cs' - zmin cs' <=? 1) && even_loop f cs' (tl dtail)
  end.
Definition even_windows (s : list Z) : bool :=
  even_loop (List.length s) (repeat 0 (List.length s)) (s ++ s).

(* maximally even = a rotation of the Bresenham (Clough-Douthett) pattern floor((i+1)k/n) - floor(ik/n) *)
Definition bresenham (n k : nat) : list Z :=
  map (fun i => (i + 1) * Z.of_nat k / Z.of_nat n - i * Z.of_nat k / Z.of_nat n) (map Z.of_nat (seq 0 n)).
Definition rotate (r : nat) (s : list Z) : list Z := skipn r s ++ firstn r s.
Definition is_rotation_of_bresenham (n k : nat) (s : list Z) : bool :=
  let b := bresenham n k in existsb (fun r => zl_eqb (rotate r s) b) (seq 0 n).
Definition onsets_ok (s : list Z) : bool := forallb (fun x => (x =? 0) || (x =? 1)) s.
Definition euclid_ok (n k : nat) : bool :=
  let s := euclid n k in
  (List.length s =? n)%nat && onsets_ok s && (zsum s =? Z.of_nat k) && even_windows s && is_rotation_of_bresenham n k s.

(** ** PArpeggiator.restart(): the offsets of each order, and the notes they select *)
Fixpoint insert_sorted (x : Z) (l : list Z) : list Z :=
  match l with
  | [] => [x]
  | y :: r => if x <=? y then x :: l else y :: insert_sorted x r
  end.
Definition sort_notes (l : list Z) : list Z := fold_right insert_sorted [] l.

Definition zseq (n : nat) : list Z := map Z.of_nat (seq 0 n).

Definition ARP_UP := 0. Definition ARP_DOWN := 1. Definition ARP_CONVERGE := 2. Definition ARP_DIVERGE := 3.
Definition ARP_UPDOWN := 6. Definition ARP_DOWNUP := 7. Definition ARP_BUILD := 8. Definition ARP_BREAK := 9.
Definition ARP_ROOTBOUNCE := 10.

Fixpoint intersperse0 (l : list Z) : list Z :=      (* a 0 before every element and one at the end *)
  match l with
  | [] => [0]
  | x :: r => 0 :: x :: intersperse0 r
  end.

(* the list comprehension / slicing expressions of restart(), type by type; None = ValueError *)
Definition arp_offsets (ty : Z) (n : nat) : option (list Z) :=
  let N := Z.of_nat n in
  if ty =? ARP_UP then Some (zseq n)
  else if ty =? ARP_DOWN then Some (rev (zseq n))
  else if ty =? ARP_CONVERGE then
    Some (map (fun i => if i mod 2 =? 0 then i / 2 else 0 - (i + 1) / 2) (zseq n))
  else if ty =? ARP_DIVERGE then
    Some (map (fun i => if (if N mod 2 =? 0 then i mod 2 =? 0 else i mod 2 =? 1)
                        then (N / 2 - 1) - i / 2 else N / 2 + i / 2) (zseq n))
  else if ty =? ARP_UPDOWN then Some (removelast (zseq n) ++ rev (zseq n))
  else if ty =? ARP_DOWNUP then Some (removelast (rev (zseq n)) ++ zseq n)
  else if ty =? ARP_BUILD then
    if (n <? 2)%nat then None else Some (flat_map (fun m => zseq (S m)) (seq 0 n))
  else if ty =? ARP_BREAK then
    if (n <? 2)%nat then None else Some (flat_map (fun m => rev (zseq m)) (rev (seq 0 (S n))))
  else if ty =? ARP_ROOTBOUNCE then
    if (n <? 3)%nat then None
    else Some (intersperse0 (removelast (tl (zseq n)) ++ removelast (rev (zseq n))))
  else None.

(* rv = self._notes[offset], with Python's negative indices; self._notes is the sorted list *)
Definition arp_select (ty : Z) (s : list Z) : list Z :=
  match arp_offsets ty (List.length s) with
  | Some offs => flat_map (fun o => match py_index s o with Some x => [x] | None => [] end) offs
  | None => []
  end.
Definition arp_notes (ty : Z) (notes : list Z) : list Z := arp_select ty (sort_notes notes).

(** the documented arrangements *)
(* CONVERGE: lowest, highest, second lowest, second highest, ... *)
Fixpoint outside_in (fuel : nat) (l : list Z) : list Z :=
  match fuel with
  | O => []
  | S f => match l with
           | [] => []
           | x :: r => x :: outside_in f (rev r)
           end
  end.
Definition converge_doc (l : list Z) : list Z := outside_in (List.length l) l.
(* DIVERGE: from the middle outwards, alternating below / above *)
Fixpoint alternate (a b : list Z) : list Z :=
  match a with
  | [] => b
  | x :: a' => x :: match b with [] => a' | y :: b' => y :: alternate a' b' end
  end.
Definition diverge_doc (l : list Z) : list Z :=
  let h := (List.length l / 2)%nat in
  let lo := rev (firstn h l) in
  let hi := skipn h l in
  if Nat.even (List.length l) then alternate lo hi
  else match hi with [] => [] | m :: hi' => m :: alternate lo hi' end.
(* UPDOWN: up, then down without repeating the top; DOWNUP likewise from the top *)
Definition updown_doc (l : list Z) : list Z := removelast l ++ rev l.
Definition downup_doc (l : list Z) : list Z := removelast (rev l) ++ l.

(* Pat/Drained.v — model for property C09 of "a drained track stays drained while it waits for its last notes to
   end" (isobar/timelines/timeline.py Timeline.tick, track.py Track.tick / process_note_offs / perform_event for a
   note event with constant duration and gate), over ANY stream given as a step function (one next()), in
   particular the stochastic machines of Pat/Chance.v (PShuffle, PWhite: the generator is data, never an axiom).
   Time is counted in quarter ticks so that a gate of k/4 needs no fractions.  No proofs here. *)
From Isobar Require Import Base.Prelude Pat.Chance.
From Coq Require Import QArith.
Local Notation length := List.length (only parsing).
Open Scope Z_scope.

Section Drained.
  Variable R : Type.                             (* generator states (random.Random) *)
  Variable St : Type.                            (* states of the stream *)
  Variable step : St -> R -> res * St * R.       (* one next(): value | StopIteration | other exception *)

  (* n successive calls of next() *)
  Fixpoint polls (n : nat) (s : St) (g : R) : list res * St * R :=
    match n with
    | O => ([], s, g)
    | S n' => let '(r, s', g') := step s g in
              let '(rs, s'', g'') := polls n' s' g' in (r :: rs, s'', g'')
    end.

  (* Track: t_now / t_next = Track.current_time / next_event_time, t_offs = due times of Track.note_offs,
     t_fin = is_finished (the timeline then drops the track), t_played = note_on calls, t_err = an exception
     other than StopIteration escaped (the timeline raises). *)
  Record trk := mkTrk { t_st : St; t_gen : R; t_now : Z; t_next : Z; t_offs : list Z; t_fin : bool;
                        t_played : list oval; t_err : bool }.

  (* One Timeline.tick for this track.  timeline.py: process_note_offs() first (note_off.timestamp <= current_time),
     then Track.tick(): if current_time >= next_event_time: get_next_event() -> next(event_stream); a value is
     performed (note_on, note-off due after duration * gate) and next_event_time += duration; StopIteration is
     caught: `if len(self.note_offs) == 0: self.is_finished = True` and next_event_time is NOT advanced, so the
     stream is polled again on the next tick; finally current_time += one tick.
     dur_t = duration in ticks (>= 1: one event per tick), gate4 = 4 * gate. *)
  Definition tick (dur_t gate4 : Z) (t : trk) : trk :=
    if t_fin t || t_err t then t else
    let offs := filter (fun d => negb (d <=? t_now t)) (t_offs t) in
    if t_next t <=? t_now t then
      let '(r, s', g') := step (t_st t) (t_gen t) in
      match r with
      | Out v => mkTrk s' g' (t_now t + 4) (t_next t + 4 * dur_t) (offs ++ [t_now t + dur_t * gate4]) false
                       (t_played t ++ [v]) false
      | Stop => mkTrk s' g' (t_now t + 4) (t_next t) offs (match offs with [] => true | _ => false end)
                      (t_played t) false
      | Fail => mkTrk s' g' (t_now t) (t_next t) offs false (t_played t) true
      end
    else mkTrk (t_st t) (t_gen t) (t_now t + 4) (t_next t) offs false (t_played t) false.

  Fixpoint ticks (dur_t gate4 : Z) (n : nat) (t : trk) : trk :=
    match n with O => t | S n' => ticks dur_t gate4 n' (tick dur_t gate4 t) end.

  Definition start (s : St) (g : R) : trk := mkTrk s g 0 0 [] false [] false.

  (* number of Timeline.tick calls until the track has finished (None: not within the fuel) *)
  Fixpoint ticks_to_end (dur_t gate4 : Z) (fuel : nat) (k : Z) (t : trk) : option Z :=
    if t_fin t then Some k else
    match fuel with O => None | S f => ticks_to_end dur_t gate4 f (k + 1) (tick dur_t gate4 t) end.
End Drained.

(* a stream of n values followed by StopIteration for ever (what every finite pattern is to its track) *)
Definition countdown_step (s : Z) (g : unit) : res * Z * unit :=
  if 0 <? s then (Out (OZ s), s - 1, g) else (Stop, s, g).

(* (notes played, ticks until the track has left the timeline) for a stream of n values *)
Definition drained_run (n dur_t gate4 : Z) (fuel : nat) : Z * option Z :=
  let t0 := start unit Z n tt in
  (match ticks_to_end unit Z countdown_step dur_t gate4 fuel 0 t0 with
   | Some k => zlen (t_played unit Z (ticks unit Z countdown_step dur_t gate4 (Z.to_nat k) t0))
   | None => -1 end,
   ticks_to_end unit Z countdown_step dur_t gate4 fuel 0 t0).

(* value / StopIteration shape of the first n next() of PShuffle(values, repeats) and PWhite(_, _, length):
   it does not depend on the generator, so a constant generator is used *)
Definition shape (rs : list res) : list bool := map (fun r => match r with Stop => true | _ => false end) rs.
Definition pshuffle_shape (values : list Z) (repeats : Z) (n : nat) : list bool :=
  shape (fst (fst (polls unit _ (pshuffle_step unit (fun _ g => (0, g)) repeats) n (mkShuf values 0 0) tt))).
Definition pwhite_shape (len : Z) (n : nat) : list bool :=
  shape (fst (fst (polls unit _ (white_step unit (fun g => (0, g)) false (0 # 1)%Q (1 # 1)%Q len) n 0 tt))).
